(* C07, the first permitted deviation: a write answered OlderTimestamp although the sequential
   spec would have accepted it is always justified by an accepted delete of the same key with an
   equal or newer timestamp that committed earlier (so it was invoked before the rejection). *)
From Coq Require Import List NArith ZArith Bool Lia.
From Feox Require Import Model.Sched Proofs.SchedProofs.
Import ListNotations.
Local Open Scope N_scope.

Definition core (s : shared) := (tbl s, retired s, succ s, nid s, owner s, ver s).

Lemma core_observe s k ts ex : core (observe s k ts ex) = core s.
Proof. unfold observe. destruct ex; reflexivity. Qed.
Lemma core_draw s k : core (snd (draw s k)) = core s.
Proof. reflexivity. Qed.
Lemma core_resolve s k tso ts ex s' : resolve s k tso = (ts, ex, s') -> core s' = core s.
Proof.
  unfold resolve. destruct tso as [t|]; [intros H; inversion H; reflexivity|].
  unfold draw. cbn. intros H. inversion H. reflexivity.
Qed.

(* how one step changes the part of the shared state the invariants talk about *)
Inductive shape (s : shared) (o : op) : shared -> option commit -> Prop :=
| sh_same s' c : core s' = core s -> (forall cm, c = Some cm -> c_resp cm <> RUnit \/ (forall k t, c_op cm <> ODelete k t)) -> shape s o s' c
| sh_replace s1 e v ts ex r :
    core s1 = core s -> aget (key_of o) (tbl s) = Some e ->
    shape s o (publish_replace s1 (key_of o) e v ts ex) (Some (mkc o ts ex r false))
| sh_new s1 v ts ex r :
    core s1 = core s -> aget (key_of o) (tbl s) = None ->
    shape s o (publish_new s1 (key_of o) v ts ex) (Some (mkc o ts ex r false))
| sh_retire e ts ex k t :
    o = ODelete k t -> aget k (tbl s) = Some e ->
    shape s o (retire_remove s k e ts ex) (Some (mkc o ts ex RUnit false)).

Ltac brk H :=
  repeat match type of H with
         | context [match ?x with _ => _ end] => destruct x eqn:?
         | context [if ?b then _ else _] => destruct b eqn:?
         | context [let '(_, _) := ?x in _] => destruct x eqn:?
         end.

Ltac same_shape :=
  apply sh_same; [first [reflexivity | eassumption | (erewrite core_resolve by eassumption; reflexivity)
                        | (match goal with H : draw ?s ?k = (_, ?s1) |- core ?s1 = _ => change s1 with (snd (draw s k)) at 1 end)]
                 | intros cm Hcm; inversion Hcm; subst; cbn; first [left; discriminate | right; intros; discriminate]].

Lemma draw_core s k t s1 : draw s k = (t, s1) -> core s1 = core s.
Proof. unfold draw. intros H. inversion H. reflexivity. Qed.

Ltac fin_shape :=
  match goal with |- shape ?s _ _ _ =>
  first
    [ apply sh_same; [first [reflexivity | eapply core_resolve; eassumption | eapply draw_core; eassumption]
                     | intros cm Hcm; inversion Hcm; subst; cbn; first [left; discriminate | right; intros; discriminate]]
    | eapply sh_replace with (s1 := s); [reflexivity | eassumption]
    | eapply sh_new with (s1 := s); [reflexivity | eassumption]
    | eapply sh_retire; [reflexivity | eassumption] ]
  end.

Lemma opstep_shape s o p s' r c : opstep s o p = (s', r, c) -> shape s o s' c.
Proof.
  intros H. unfold opstep, done, goto in H.
  destruct o as [k|k v tso|k tso|k e n tso|k d tso|k v|k pj tso]; destruct p; brk H; inversion H; subst; clear H;
    try fin_shape.
  (* increment on an absent key: the timestamp is resolved inside the step *)
  all: try (match goal with
            | Hq : match ?t with Some _ => _ | None => _ end = (_, _, _) |- _ =>
                destruct t; [inversion Hq; subst; clear Hq | destruct (draw _ _) eqn:Hdraw; inversion Hq; subst; clear Hq]
            end; fin_shape).
  (* insert_if_absent: publish_new with an automatic timestamp was reduced by the inversion *)
  all: match goal with
       | Hd : draw ?s0 ?k = (?t, ?s1), Hn : aget ?k (tbl ?s0) = None |- shape ?s0 (OIfAbsent ?k ?v) _ _ =>
           change (shape s0 (OIfAbsent k v) (publish_new s1 (key_of (OIfAbsent k v)) v t false)
                         (Some (mkc (OIfAbsent k v) t false (RBool true) false)));
           eapply sh_new; [eapply draw_core; exact Hd | exact Hn]
       end.
Qed.

(* ---- ownership: every generation belongs to one key, successors stay with the key ---- *)
Definition own (s : shared) (k : N) (g : gen) : Prop := aget (g_id g) (owner s) = Some k.

Record SInv (s : shared) : Prop := {
  si_tbl : forall k g, aget k (tbl s) = Some g -> aget (g_id g) (owner s) = Some k /\ g_id g < nid s;
  si_own : forall id k, aget id (owner s) = Some k -> id < nid s;
  si_succ : forall id id', aget id (succ s) = Some id' ->
            exists k, aget id (owner s) = Some k /\ aget id' (owner s) = Some k
}.

Lemma core_fields s s' : core s' = core s ->
  tbl s' = tbl s /\ retired s' = retired s /\ succ s' = succ s /\ nid s' = nid s /\ owner s' = owner s /\ ver s' = ver s.
Proof. unfold core. intros H. inversion H. repeat split; reflexivity. Qed.

Lemma SInv_core s s' : core s' = core s -> SInv s -> SInv s'.
Proof.
  intros Hc [A B C]. destruct (core_fields _ _ Hc) as (T & R & S & N & O & _).
  constructor; rewrite ?T, ?S, ?N, ?O; assumption.
Qed.

(* the owner map only grows, at fresh ids *)
Definition oext (s s' : shared) : Prop := forall id k, aget id (owner s) = Some k -> aget id (owner s') = Some k.

Lemma oext_core s s' : core s' = core s -> oext s s'.
Proof. intros Hc id k H. destruct (core_fields _ _ Hc) as (_ & _ & _ & _ & O & _). rewrite O. exact H. Qed.

Lemma publish_fields s k v ts ex :
  tbl (publish_new s k v ts ex) = aset k (mkgen (nid s) v ts) (tbl s) /\
  retired (publish_new s k v ts ex) = retired s /\ succ (publish_new s k v ts ex) = succ s /\
  nid (publish_new s k v ts ex) = nid s + 1 /\ owner (publish_new s k v ts ex) = aset (nid s) k (owner s) /\
  ver (publish_new s k v ts ex) = aset k (nget k (ver s) + 1) (ver s).
Proof. unfold publish_new, observe. destruct ex; repeat split; reflexivity. Qed.

Lemma replace_fields s k e v ts ex :
  tbl (publish_replace s k e v ts ex) = aset k (mkgen (nid s) v ts) (tbl s) /\
  retired (publish_replace s k e v ts ex) = retired s /\
  succ (publish_replace s k e v ts ex) = aset (g_id e) (nid s) (succ s) /\
  nid (publish_replace s k e v ts ex) = nid s + 1 /\ owner (publish_replace s k e v ts ex) = aset (nid s) k (owner s) /\
  ver (publish_replace s k e v ts ex) = aset k (nget k (ver s) + 1) (ver s).
Proof. unfold publish_replace, observe. destruct ex; repeat split; reflexivity. Qed.

Lemma retire_fields s k e ts ex :
  tbl (retire_remove s k e ts ex) = adel k (tbl s) /\
  retired (retire_remove s k e ts ex) = aset (g_id e) ts (retired s) /\
  succ (retire_remove s k e ts ex) = succ s /\ nid (retire_remove s k e ts ex) = nid s /\
  owner (retire_remove s k e ts ex) = owner s /\
  ver (retire_remove s k e ts ex) = aset k (nget k (ver s) + 1) (ver s).
Proof. unfold retire_remove, observe. destruct ex; repeat split; reflexivity. Qed.

Lemma owner_fresh_other s id k0 id0 :
  (forall i k, aget i (owner s) = Some k -> i < nid s) -> aget id (owner s) = Some k0 ->
  aget id (aset (nid s) id0 (owner s)) = Some k0.
Proof.
  intros Hlt H. rewrite aget_aset_other; [exact H|]. intros ->. specialize (Hlt _ _ H). lia.
Qed.

Lemma SInv_new s1 k v ts ex : SInv s1 -> SInv (publish_new s1 k v ts ex).
Proof.
  intros [A B C]. destruct (publish_fields s1 k v ts ex) as (T & R & S & N & O & _).
  constructor; rewrite ?T, ?S, ?N, ?O.
  - intros k' g. destruct (N.eq_dec k' k) as [->|Hne].
    + rewrite aget_aset_same. intros H. inversion H. cbn. rewrite aget_aset_same. split; [reflexivity | lia].
    + rewrite aget_aset_other by exact Hne. intros H. destruct (A _ _ H) as [Ho Hl]. split; [|lia].
      exact (owner_fresh_other _ _ _ _ B Ho).
  - intros id k'. destruct (N.eq_dec id (nid s1)) as [->|Hne]; [lia|].
    rewrite aget_aset_other by exact Hne. intros H. specialize (B _ _ H). lia.
  - intros id id' H. destruct (C _ _ H) as [k' [H1 H2]]. exists k'.
    split; apply owner_fresh_other; assumption.
Qed.

Lemma SInv_replace s1 k e v ts ex : SInv s1 -> aget k (tbl s1) = Some e -> SInv (publish_replace s1 k e v ts ex).
Proof.
  intros [A B C] He. destruct (replace_fields s1 k e v ts ex) as (T & R & S & N & O & _).
  destruct (A _ _ He) as [Hoe Hle].
  constructor; rewrite ?T, ?S, ?N, ?O.
  - intros k' g. destruct (N.eq_dec k' k) as [->|Hne].
    + rewrite aget_aset_same. intros H. inversion H. cbn. rewrite aget_aset_same. split; [reflexivity | lia].
    + rewrite aget_aset_other by exact Hne. intros H. destruct (A _ _ H) as [Ho Hl]. split; [|lia].
      exact (owner_fresh_other _ _ _ _ B Ho).
  - intros id k'. destruct (N.eq_dec id (nid s1)) as [->|Hne]; [lia|].
    rewrite aget_aset_other by exact Hne. intros H. specialize (B _ _ H). lia.
  - intros id id'. destruct (N.eq_dec id (g_id e)) as [->|Hne].
    + rewrite aget_aset_same. intros H. inversion H. subst id'. exists k.
      split; [exact (owner_fresh_other _ _ _ _ B Hoe) | apply aget_aset_same].
    + rewrite aget_aset_other by exact Hne. intros H. destruct (C _ _ H) as [k' [H1 H2]]. exists k'.
      split; apply owner_fresh_other; assumption.
Qed.

Lemma SInv_retire s k e ts ex : SInv s -> SInv (retire_remove s k e ts ex).
Proof.
  intros [A B C]. destruct (retire_fields s k e ts ex) as (T & R & S & N & O & _).
  constructor; rewrite ?T, ?S, ?N, ?O; try assumption.
  intros k' g H. apply aget_adel_some in H. exact (A _ _ (proj1 H)).
Qed.

Lemma shape_SInv s o s' c : shape s o s' c -> SInv s -> SInv s' /\ oext s s'.
Proof.
  intros Hs HI. destruct Hs as [s' c Hc _ | s1 e v ts ex r Hc He | s1 v ts ex r Hc Hn | e ts ex k t Ho He].
  - split; [exact (SInv_core _ _ Hc HI) | exact (oext_core _ _ Hc)].
  - assert (HI1 : SInv s1) by exact (SInv_core _ _ Hc HI).
    destruct (core_fields _ _ Hc) as (T & _ & _ & N & O & _).
    split; [apply SInv_replace; [exact HI1 | rewrite T; exact He]|].
    intros id k0 H. destruct (replace_fields s1 (key_of o) e v ts ex) as (_ & _ & _ & _ & O' & _).
    rewrite O'. apply owner_fresh_other; [exact (si_own _ HI1) | rewrite O; exact H].
  - assert (HI1 : SInv s1) by exact (SInv_core _ _ Hc HI).
    destruct (core_fields _ _ Hc) as (T & _ & _ & N & O & _).
    split; [apply SInv_new; exact HI1|].
    intros id k0 H. destruct (publish_fields s1 (key_of o) v ts ex) as (_ & _ & _ & _ & O' & _).
    rewrite O'. apply owner_fresh_other; [exact (si_own _ HI1) | rewrite O; exact H].
  - split; [apply SInv_retire; exact HI|].
    intros id k0 H. destruct (retire_fields s k e ts ex) as (_ & _ & _ & _ & O' & _). rewrite O'. exact H.
Qed.

(* ---- the retirement timestamp of a held generation comes from a retired generation of the same key ---- *)
Lemma nget_pos_some id l r : nget id l = r -> 0 < r -> aget id l = Some r.
Proof. unfold nget. destruct (aget id l); intros H Hp; [congruence | lia]. Qed.

Lemma rt_fuel_witness s k : SInv s -> forall f id,
  aget id (owner s) = Some k -> 0 < rt_fuel f s id ->
  exists d, aget d (retired s) = Some (rt_fuel f s id) /\ aget d (owner s) = Some k.
Proof.
  intros HI. induction f as [|f IH]; intros id Ho Hp; cbn [rt_fuel] in *.
  - exists id. split; [exact (nget_pos_some _ _ _ eq_refl Hp) | exact Ho].
  - destruct (aget id (succ s)) as [id'|] eqn:Es.
    + destruct (si_succ _ HI _ _ Es) as [k' [H1 H2]]. rewrite Ho in H1. inversion H1. subst k'.
      destruct (N.max_spec (nget id (retired s)) (rt_fuel f s id')) as [[Hlt Hm]|[Hle Hm]]; rewrite Hm in *.
      * exact (IH id' H2 Hp).
      * exists id. split; [exact (nget_pos_some _ _ _ eq_refl Hp) | exact Ho].
    + exists id. split; [exact (nget_pos_some _ _ _ eq_refl Hp) | exact Ho].
Qed.

Lemma rt_witness s k g : SInv s -> own s k g -> 0 < rt s (g_id g) ->
  exists d, aget d (retired s) = Some (rt s (g_id g)) /\ aget d (owner s) = Some k.
Proof. intros HI Ho Hp. exact (rt_fuel_witness s k HI _ _ Ho Hp). Qed.

(* ---- what a parked thread knows about the generations it holds: they belong to its key ---- *)
Definition oown (s : shared) (k : N) (o : option gen) : Prop := match o with Some g => own s k g | None => True end.

Definition pc_own (s : shared) (o : op) (p : pc) : Prop :=
  match o, p with
  | OUpsert k _ _, PUGuard _ _ g => own s k g
  | OIncr k _ _, PNTop obs => oown s k obs
  | OIncr k _ _, PNCreate obs _ _ => oown s k obs
  | OIncr k _ _, PNGuard root _ _ _ _ => own s k root
  | OPatch k _ _, PPTop _ _ obs => oown s k obs
  | OPatch k _ _, PPGuard _ _ ob _ _ => own s k ob
  | _, _ => True
  end.

Lemma own_oext s s' k g : own s k g -> oext s s' -> own s' k g.
Proof. unfold own. intros H He. exact (He _ _ H). Qed.

Lemma pc_own_oext s s' o p : pc_own s o p -> oext s s' -> pc_own s' o p.
Proof.
  intros H He. destruct o, p; cbn in *; try exact I;
    try (exact (own_oext _ _ _ _ H He));
    try (destruct obs; cbn in *; [exact (own_oext _ _ _ _ H He) | exact I]).
Qed.

Lemma owner_resolve s k tso ts ex s' : resolve s k tso = (ts, ex, s') -> owner s' = owner s.
Proof. intros H. destruct (core_fields _ _ (core_resolve _ _ _ _ _ _ H)) as (_ & _ & _ & _ & O & _). exact O. Qed.
Lemma owner_draw s k t s1 : draw s k = (t, s1) -> owner s1 = owner s.
Proof. intros H. destruct (core_fields _ _ (draw_core _ _ _ _ H)) as (_ & _ & _ & _ & O & _). exact O. Qed.

Lemma opstep_pc_own s o p s' p' c :
  SInv s -> pc_own s o p -> opstep s o p = (s', inl p', c) -> pc_own s' o p'.
Proof.
  intros HI Hpc H. unfold opstep, done, goto in H.
  destruct o as [k|k v tso|k tso|k e n tso|k d tso|k v|k pj tso]; destruct p; brk H; inversion H; subst; clear H;
    cbn in *; try exact I;
    try (match goal with
         | Hq : match ?t with Some _ => _ | None => _ end = (_, _, _) |- _ =>
             destruct t; [inversion Hq; subst; clear Hq | destruct (draw _ _) eqn:Hdraw; inversion Hq; subst; clear Hq]
         end);
    unfold oown, own in *;
    try (match goal with Hr : resolve _ _ _ = (_, _, ?s1) |- context [owner ?s1] => rewrite (owner_resolve _ _ _ _ _ _ Hr) end);
    try (match goal with Hd : draw _ _ = (_, ?s1) |- context [owner ?s1] => rewrite (owner_draw _ _ _ _ Hd) end);
    try exact I; try assumption;
    try (match goal with Hg : aget ?k (tbl ?s0) = Some ?g |- aget (g_id ?g) (owner ?s0) = Some ?k => exact (proj1 (si_tbl _ HI _ _ Hg)) end);
    try (match goal with |- aget (g_id match ?ob with Some _ => _ | None => _ end) _ = _ => destruct ob; cbn in *; try assumption end);
    try (match goal with Hg : aget ?k (tbl ?s0) = Some ?g |- aget (g_id ?g) (owner ?s0) = Some ?k => exact (proj1 (si_tbl _ HI _ _ Hg)) end).
  all: match goal with Hq : match ?t with Some _ => _ | None => _ end = (_, _, _) |- _ => destruct t; inversion Hq; subst; assumption end.
Qed.

(* ---- a flagged OlderTimestamp refusal: some generation of the same key was retired (deleted)
   with a timestamp at least as large as the refused one ---- *)
Lemma opstep_older_dev s o p s' r cm :
  SInv s -> pc_own s o p -> opstep s o p = (s', r, Some cm) ->
  c_dev cm = true -> c_resp cm = ROlder -> 0 < c_ts cm ->
  exists d r0, aget d (retired s) = Some r0 /\ aget d (owner s) = Some (key_of o) /\ c_ts cm <= r0.
Proof.
  intros HI Hpc H Hdev Hresp Hpos. unfold opstep, done, goto in H.
  destruct o as [k|k v tso|k tso|k e n tso|k d tso|k v|k pj tso]; destruct p; brk H; inversion H; subst; clear H;
    cbn in Hdev, Hresp, Hpos; try discriminate;
    try (match goal with
         | Hq : match ?t with Some _ => _ | None => _ end = (_, _, _) |- _ =>
             destruct t; [inversion Hq; subst; clear Hq | destruct (draw _ _) eqn:Hdraw; inversion Hq; subst; clear Hq]
         end);
    cbn [key_of pc_own oown] in *;
    repeat match goal with
           | Hb : _ && _ = true |- _ => apply andb_true_iff in Hb; destruct Hb
           end;
    repeat match goal with
           | Hb : (_ <=? _) = true |- _ => apply N.leb_le in Hb
           end.
  all: cbn [c_ts]; unfold oown in *.
  (* every remaining case has  ts <= rt s (g_id x)  for a held generation x of the key *)
  all: try (match goal with
            | |- exists d r0, aget d (retired ?s0) = Some r0 /\ aget d (owner ?s0) = Some ?kk /\ ?ts <= r0 =>
                match goal with
                | Hle : ts <= rt s0 (g_id ?x), Ho : own s0 kk ?x |- _ =>
                    destruct (rt_witness s0 kk x HI Ho ltac:(lia)) as [d0 [Hr0 Ho0]];
                    exists d0, (rt s0 (g_id x)); split; [exact Hr0 | split; [exact Ho0 | exact Hle]]
                end
            end).
  (* the observed generation is optional (increment, JSON patch): none -> the bound is 0 or the
     current generation read from the table *)
  all: try (match goal with
            | |- exists d r0, aget d (retired ?s0) = Some r0 /\ aget d (owner ?s0) = Some ?kk /\ ?ts <= r0 =>
                match goal with
                | Hpc0 : match ?ob with Some g => own s0 kk g | None => True end |- _ =>
                    destruct ob as [x0|];
                    [ match goal with
                      | Hle : ts <= rt s0 (g_id x0) |- _ =>
                          destruct (rt_witness s0 kk x0 HI Hpc0 ltac:(lia)) as [d0 [Hr0 Ho0]];
                          exists d0, (rt s0 (g_id x0)); split; [exact Hr0 | split; [exact Ho0 | exact Hle]]
                      end
                    | first [ lia
                            | match goal with
                              | Hg : aget kk (tbl s0) = Some ?g0, Hle : ts <= rt s0 (g_id ?g0) |- _ =>
                                  destruct (rt_witness s0 kk g0 HI (proj1 (si_tbl _ HI _ _ Hg)) ltac:(lia)) as [d0 [Hr0 Ho0]];
                                  exists d0, (rt s0 (g_id g0)); split; [exact Hr0 | split; [exact Ho0 | exact Hle]]
                              end ] ]
                end
            end).
  all: try lia.
Qed.

(* ---- timestamps are positive: explicit ones by assumption on the programs, automatic ones >= WALL ---- *)
Definition op_ts (o : op) : option N :=
  match o with
  | OGet _ | OIfAbsent _ _ => None
  | OUpsert _ _ t | ODelete _ t | OCas _ _ _ t | OIncr _ _ t | OPatch _ _ t => t
  end.
Definition explicit_pos (o : op) : Prop := match op_ts o with Some t => 0 < t | None => True end.

Definition pc_pos (p : pc) : Prop :=
  match p with
  | PUTop ts _ | PUGuard ts _ _ | PUIns ts _ | PDGuard ts _ | PCGuard ts _ _ _
  | PNCreate _ ts _ | PNGuard _ _ _ ts _ | PPTop ts _ _ | PPGuard ts _ _ _ _ => 0 < ts
  | _ => True
  end.

Lemma WALL_pos : 0 < WALL.
Proof. reflexivity. Qed.

Lemma resolve_pos s k tso ts ex s' : (match tso with Some t => 0 < t | None => True end) ->
  resolve s k tso = (ts, ex, s') -> 0 < ts.
Proof.
  unfold resolve. destruct tso as [t|]; intros Hp H.
  - inversion H. subst. exact Hp.
  - unfold draw in H. inversion H. pose proof WALL_pos. lia.
Qed.

Lemma draw_pos s k t s1 : draw s k = (t, s1) -> 0 < t.
Proof. unfold draw. intros H. inversion H. pose proof WALL_pos. lia. Qed.

Lemma opstep_pc_pos s o p s' p' c :
  explicit_pos o -> pc_pos p -> opstep s o p = (s', inl p', c) -> pc_pos p'.
Proof.
  intros He Hp H. unfold opstep, done, goto in H. unfold explicit_pos in He.
  destruct o as [k|k v tso|k tso|k e n tso|k d tso|k v|k pj tso]; destruct p; brk H; inversion H; subst; clear H;
    cbn in *; try exact I; try assumption;
    try (eapply resolve_pos; eassumption);
    try (eapply draw_pos; eassumption);
    try (match goal with
         | Hq : match ?t with Some _ => _ | None => _ end = (_, _, _) |- _ =>
             destruct t; [inversion Hq; subst; assumption | inversion Hq; subst; pose proof WALL_pos; lia]
         end).
Qed.

Lemma opstep_dev_pos s o p s' r cm :
  explicit_pos o -> pc_pos p -> opstep s o p = (s', r, Some cm) -> c_dev cm = true -> c_resp cm = ROlder -> 0 < c_ts cm.
Proof.
  intros He Hp H Hdev Hresp. unfold opstep, done, goto in H. unfold explicit_pos in He.
  destruct o as [k|k v tso|k tso|k e n tso|k d tso|k v|k pj tso]; destruct p; brk H; inversion H; subst; clear H;
    cbn in *; try discriminate; try assumption;
    try (match goal with
         | Hq : match ?t with Some _ => _ | None => _ end = (_, _, _) |- _ =>
             destruct t; [inversion Hq; subst; assumption | inversion Hq; subst; pose proof WALL_pos; lia]
         end).
Qed.

Lemma opstep_commit_op s o p s' r cm : opstep s o p = (s', r, Some cm) -> c_op cm = o.
Proof.
  intros H. unfold opstep, done, goto in H.
  destruct o; destruct p; brk H; inversion H; reflexivity.
Qed.

(* ---- whole executions ---- *)
Definition acc_delete (k r : N) (c : commit) : Prop :=
  (exists t, c_op c = ODelete k t) /\ c_resp c = RUnit /\ c_ts c = r.

Definition justified_log (log : list (nat * commit)) : Prop :=
  forall l1 i c l2, log = l1 ++ (i, c) :: l2 -> c_dev c = true -> c_resp c = ROlder ->
  exists j c', In (j, c') l1 /\ acc_delete (key_of (c_op c)) (c_ts c') c' /\ c_ts c <= c_ts c'.

Record JInv (w : world) : Prop := {
  j_s : SInv (w_sh w);
  j_pc : forall i th, nth_error (w_th w) i = Some th ->
         Forall explicit_pos (t_ops th) /\
         match t_ops th with o :: _ => pc_own (w_sh w) o (t_pc th) /\ pc_pos (t_pc th) | [] => True end;
  j_ret : forall id r, aget id (retired (w_sh w)) = Some r ->
          exists k, aget id (owner (w_sh w)) = Some k /\ exists j c', In (j, c') (w_log w) /\ acc_delete k r c';
  j_log : justified_log (w_log w)
}.

Lemma pc_own_start s o : pc_own s o PStart.
Proof. destruct o; exact I. Qed.

Lemma justified_snoc log i cm :
  justified_log log ->
  (c_dev cm = true -> c_resp cm = ROlder ->
   exists j c', In (j, c') log /\ acc_delete (key_of (c_op cm)) (c_ts c') c' /\ c_ts cm <= c_ts c') ->
  justified_log (log ++ [(i, cm)]).
Proof.
  intros HJ Hnew l1 i0 c l2 Heq Hd Hr.
  destruct l2 as [|x l2'] using rev_ind.
  - apply app_inj_tail in Heq. destruct Heq as [<- Hx]. inversion Hx. subst. exact (Hnew Hd Hr).
  - clear IHl2'. rewrite app_comm_cons, app_assoc in Heq. apply app_inj_tail in Heq. destruct Heq as [Heq _].
    exact (HJ l1 i0 c l2' Heq Hd Hr).
Qed.

Theorem tstep_JInv w i : JInv w -> JInv (tstep w i).
Proof.
  intros [HS Hpc Hret Hlog]. unfold tstep.
  destruct (nth_error (w_th w) i) as [th|] eqn:Hth; [|constructor; assumption].
  destruct (t_ops th) as [|o rest] eqn:Hops; [constructor; assumption|].
  destruct (opstep (w_sh w) o (t_pc th)) as [[s' r] c] eqn:Hstep.
  destruct (Hpc i th Hth) as [Hexp Hcur]. rewrite Hops in Hexp, Hcur. destruct Hcur as [Hown Hpos].
  inversion Hexp as [|? ? Heo Hexp']; subst.
  pose proof (opstep_shape _ _ _ _ _ _ Hstep) as Hsh.
  destruct (shape_SInv _ _ _ _ Hsh HS) as [HS' Hext].
  constructor; cbn [w_sh w_th w_log].
  - exact HS'.
  - intros j thj Hj. destruct (Nat.eq_dec i j) as [<-|Hne].
    + rewrite (nth_error_set_nth_same _ _ _ _ Hth) in Hj. inversion Hj. subst thj. clear Hj.
      destruct r as [p'|rs]; cbn [t_ops t_pc].
      * split; [exact Hexp|]. split; [exact (opstep_pc_own _ _ _ _ _ _ HS Hown Hstep) | exact (opstep_pc_pos _ _ _ _ _ _ Heo Hpos Hstep)].
      * split; [exact Hexp'|]. destruct rest as [|o2 rest2]; [exact I|]. split; [apply pc_own_start | exact I].
    + rewrite (nth_error_set_nth_other _ _ _ _ Hne) in Hj. destruct (Hpc j thj Hj) as [He2 Hc2].
      split; [exact He2|]. destruct (t_ops thj) as [|oj restj]; [exact I|].
      destruct Hc2 as [Ho2 Hp2]. split; [exact (pc_own_oext _ _ _ _ Ho2 Hext) | exact Hp2].
  - (* retired generations come from accepted deletes that are in the log *)
    intros id r0 Hid.
    assert (Hgrow : forall j c', In (j, c') (w_log w) ->
              In (j, c') (match c with Some c0 => w_log w ++ [(i, c0)] | None => w_log w end)).
    { intros j c' Hin. destruct c; [apply in_or_app; left; exact Hin | exact Hin]. }
    destruct Hsh as [s' c Hc _ | s1 e v ts ex rr Hc He | s1 v ts ex rr Hc Hn | e ts ex k t Ho He].
    + destruct (core_fields _ _ Hc) as (_ & R & _ & _ & O & _). rewrite R in Hid.
      destruct (Hret _ _ Hid) as [k [Hk [j [c' [Hin Ha]]]]]. exists k. split; [exact (Hext _ _ Hk)|].
      exists j, c'. split; [exact (Hgrow _ _ Hin) | exact Ha].
    + destruct (replace_fields s1 (key_of o) e v ts ex) as (_ & R & _ & _ & _ & _). rewrite R in Hid.
      destruct (core_fields _ _ Hc) as (_ & R1 & _ & _ & _ & _). rewrite R1 in Hid.
      destruct (Hret _ _ Hid) as [k [Hk [j [c' [Hin Ha]]]]]. exists k. split; [exact (Hext _ _ Hk)|].
      exists j, c'. split; [exact (Hgrow _ _ Hin) | exact Ha].
    + destruct (publish_fields s1 (key_of o) v ts ex) as (_ & R & _ & _ & _ & _). rewrite R in Hid.
      destruct (core_fields _ _ Hc) as (_ & R1 & _ & _ & _ & _). rewrite R1 in Hid.
      destruct (Hret _ _ Hid) as [k [Hk [j [c' [Hin Ha]]]]]. exists k. split; [exact (Hext _ _ Hk)|].
      exists j, c'. split; [exact (Hgrow _ _ Hin) | exact Ha].
    + destruct (retire_fields (w_sh w) k e ts ex) as (_ & R & _ & _ & O & _). rewrite R in Hid.
      destruct (N.eq_dec id (g_id e)) as [->|Hne].
      * rewrite aget_aset_same in Hid. inversion Hid. subst r0.
        exists k. split; [rewrite O; exact (proj1 (si_tbl _ HS _ _ He))|].
        exists i, (mkc o ts ex RUnit false). split; [apply in_or_app; right; left; reflexivity|].
        split; [exists t; exact Ho | split; reflexivity].
      * rewrite aget_aset_other in Hid by exact Hne.
        destruct (Hret _ _ Hid) as [k0 [Hk [j [c' [Hin Ha]]]]]. exists k0. split; [exact (Hext _ _ Hk)|].
        exists j, c'. split; [apply in_or_app; left; exact Hin | exact Ha].
  - (* the log stays justified *)
    destruct c as [cm|]; [|exact Hlog].
    apply justified_snoc; [exact Hlog|]. intros Hd Hr.
    pose proof (opstep_dev_pos _ _ _ _ _ _ Heo Hpos Hstep Hd Hr) as Hp.
    destruct (opstep_older_dev _ _ _ _ _ _ HS Hown Hstep Hd Hr Hp) as [d0 [r0 [Hr0 [Ho0 Hle]]]].
    destruct (Hret _ _ Hr0) as [k0 [Hk0 [j [c' [Hin Ha]]]]].
    rewrite Ho0 in Hk0. inversion Hk0. subst k0.
    rewrite (opstep_commit_op _ _ _ _ _ _ Hstep).
    exists j, c'. destruct Ha as (A1 & A2 & A3). split; [exact Hin|]. split; [|lia].
    split; [exact A1 | split; [exact A2 | reflexivity]].
Qed.

Lemma run_JInv sched : forall w, JInv w -> JInv (run w sched).
Proof. unfold run. induction sched as [|i t IH]; intros w H; cbn; [exact H | apply IH; apply tstep_JInv; exact H]. Qed.

Lemma finish_JInv fuel : forall w, JInv w -> JInv (finish fuel w).
Proof.
  induction fuel as [|f IH]; intros w H; cbn; [exact H|].
  destruct (first_unfinished (w_th w) 0); [apply IH; apply tstep_JInv; exact H | exact H].
Qed.

Lemma init_JInv shards progs : Forall (Forall explicit_pos) progs -> JInv (init_world shards progs).
Proof.
  intros Hp. constructor; cbn.
  - constructor; cbn; intros; discriminate.
  - intros i th H. rewrite nth_error_map in H. destruct (nth_error progs i) as [prog|] eqn:E; [|discriminate].
    inversion H. cbn. rewrite Forall_forall in Hp. split; [exact (Hp _ (nth_error_In _ _ E))|].
    destruct prog; [exact I | split; [apply pc_own_start | exact I]].
  - intros; discriminate.
  - intros l1 i c l2 H. destruct l1; discriminate.
Qed.

(* MAIN: in every execution, a call that was answered OlderTimestamp although the sequential spec
   would have accepted it is preceded in the commit log by an accepted delete of the same key with
   an equal or newer timestamp *)
Theorem older_refusals_are_justified shards progs sched fuel :
  Forall (Forall explicit_pos) progs ->
  justified_log (w_log (finish fuel (run (init_world shards progs) sched))).
Proof.
  intros Hp. apply j_log. apply finish_JInv. apply run_JInv. apply init_JInv. exact Hp.
Qed.

(* ---- the second permitted deviation: a compare-and-swap answered "no swap" although the value
   it would find now equals the expected one.  It happens only when the key was modified between
   the call's read and its guarded re-validation: the key's modification counter (ghost `ver`,
   bumped by every accepted insert / replace / delete of the key) moved. ---- *)
Definition kver (s : shared) (k : N) : N := nget k (ver s).

Lemma nget_aset_same k v l : nget k (aset k v l) = v.
Proof. unfold nget. rewrite aget_aset_same. reflexivity. Qed.
Lemma nget_aset_other k k' v l : k' <> k -> nget k' (aset k v l) = nget k' l.
Proof. intros H. unfold nget. rewrite aget_aset_other by exact H. reflexivity. Qed.

(* one step either leaves every table entry and counter alone, or is an accepted modification of
   its own key: that key's counter goes up by one, a commit that is not a refusal is logged, and
   nothing about the other keys changes *)
Lemma opstep_tblver s o p s' r c : opstep s o p = (s', r, c) ->
  (tbl s' = tbl s /\ ver s' = ver s) \/
  ((forall k, k <> key_of o -> aget k (tbl s') = aget k (tbl s) /\ kver s' k = kver s k) /\
   kver s' (key_of o) = kver s (key_of o) + 1 /\
   exists cm, c = Some cm /\ c_dev cm = false /\ c_op cm = o).
Proof.
  intros H. pose proof (opstep_commit_op s o p s' r) as Hop.
  destruct (opstep_shape _ _ _ _ _ _ H) as [s' c Hc _ | s1 e v ts ex rr Hc He | s1 v ts ex rr Hc Hn | e ts ex k t Ho He].
  - left. destruct (core_fields _ _ Hc) as (T & _ & _ & _ & _ & V). split; assumption.
  - right. destruct (core_fields _ _ Hc) as (T & _ & _ & _ & _ & V).
    destruct (replace_fields s1 (key_of o) e v ts ex) as (T' & _ & _ & _ & _ & V'). unfold kver.
    split; [|split].
    + intros k Hk. rewrite T', V', T, V. rewrite aget_aset_other by exact Hk. rewrite nget_aset_other by exact Hk. split; reflexivity.
    + rewrite V', V. apply nget_aset_same.
    + eexists. split; [reflexivity|]. split; [reflexivity | reflexivity].
  - right. destruct (core_fields _ _ Hc) as (T & _ & _ & _ & _ & V).
    destruct (publish_fields s1 (key_of o) v ts ex) as (T' & _ & _ & _ & _ & V'). unfold kver.
    split; [|split].
    + intros k Hk. rewrite T', V', T, V. rewrite aget_aset_other by exact Hk. rewrite nget_aset_other by exact Hk. split; reflexivity.
    + rewrite V', V. apply nget_aset_same.
    + eexists. split; [reflexivity|]. split; [reflexivity | reflexivity].
  - right. subst o. cbn [key_of].
    destruct (retire_fields s k e ts ex) as (T' & _ & _ & _ & _ & V'). unfold kver.
    split; [|split].
    + intros k0 Hk. rewrite T', V'. rewrite aget_adel_other by exact Hk. rewrite nget_aset_other by exact Hk. split; reflexivity.
    + rewrite V'. apply nget_aset_same.
    + eexists. split; [reflexivity|]. split; [reflexivity | reflexivity].
Qed.

(* a parked compare-and-swap remembers the counter it saw; while the counter has not moved the
   table still holds the generation it read *)
Definition pc_cas (s : shared) (o : op) (p : pc) : Prop :=
  match o, p with
  | OCas k _ _ _, PCGuard _ _ g v0 => v0 <= kver s k /\ (kver s k = v0 -> aget k (tbl s) = Some g)
  | _, _ => True
  end.

Lemma pc_cas_start s o : pc_cas s o PStart.
Proof. destruct o; exact I. Qed.

Lemma opstep_pc_cas s o p s' p' c : pc_cas s o p -> opstep s o p = (s', inl p', c) -> pc_cas s' o p'.
Proof.
  intros Hpc H. unfold opstep, done, goto in H.
  destruct o as [k|k v tso|k tso|k e n tso|k d tso|k v|k pj tso]; destruct p; brk H; inversion H; subst; clear H;
    cbn [pc_cas]; try exact I.
  all: match goal with
       | Hr : resolve ?s0 ?k ?tso = (_, _, ?s1), Hg : aget ?k (tbl ?s0) = Some ?g |- _ =>
           destruct (core_fields _ _ (core_resolve _ _ _ _ _ _ Hr)) as (T & _ & _ & _ & _ & V);
           unfold kver; rewrite V, T; split; [apply N.le_refl | intros _; exact Hg]
       end.
Qed.

Lemma pc_cas_other s o p s' o2 p2 r2 c2 :
  pc_cas s o p -> opstep s o2 p2 = (s', r2, c2) -> pc_cas s' o p.
Proof.
  intros Hpc H. destruct o as [k|k v tso|k tso|k e n tso|k d tso|k v|k pj tso]; destruct p; cbn [pc_cas] in *; try exact I.
  destruct Hpc as [Hle Hsame].
  destruct (opstep_tblver _ _ _ _ _ _ H) as [[T V]|[Hoth [Hinc _]]].
  - unfold kver in *. rewrite V, T. split; assumption.
  - destruct (N.eq_dec k (key_of o2)) as [->|Hne].
    + split; [lia | intros Heq; lia].
    + destruct (Hoth k Hne) as [Ht Hv]. rewrite Hv, Ht. split; assumption.
Qed.

(* the step-level statement *)
Lemma cas_refusal_means_modified s k e n tso ts ex g v0 s' r cm :
  table_ok s -> pc_ok s (OCas k e n tso) (PCGuard ts ex g v0) -> pc_cas s (OCas k e n tso) (PCGuard ts ex g v0) ->
  opstep s (OCas k e n tso) (PCGuard ts ex g v0) = (s', r, Some cm) -> c_dev cm = true ->
  v0 < kver s k.
Proof.
  intros Hok [Hheld _] [Hle Hsame] H Hdev. cbn [opstep] in H. unfold done in H.
  destruct (aget k (tbl s)) as [c0|] eqn:Hg.
  - destruct (negb (same c0 g)) eqn:Hs.
    + destruct (N.eq_dec (kver s k) v0) as [Heq|Hne]; [|lia].
      specialize (Hsame Heq). inversion Hsame. subst c0.
      unfold same in Hs. rewrite N.eqb_refl in Hs. discriminate.
    + destruct (ts <=? g_ts c0); inversion H; subst; cbn in Hdev; discriminate.
  - inversion H. subst. cbn in Hdev. discriminate.
Qed.

(* whole executions: every thread parked in a compare-and-swap keeps the invariant *)
Definition CInvW (w : world) : Prop :=
  table_ok (w_sh w) /\
  forall i th, nth_error (w_th w) i = Some th ->
    match t_ops th with o :: _ => pc_ok (w_sh w) o (t_pc th) /\ pc_cas (w_sh w) o (t_pc th) | [] => True end.

Lemma tstep_CInvW w i : CInvW w -> CInvW (tstep w i).
Proof.
  intros [Htab Hth]. unfold tstep.
  destruct (nth_error (w_th w) i) as [th|] eqn:Hi; [|split; assumption].
  destruct (t_ops th) as [|o rest] eqn:Hops; [split; assumption|].
  destruct (opstep (w_sh w) o (t_pc th)) as [[s' r] c] eqn:Hstep.
  pose proof (Hth i th Hi) as Hcur. rewrite Hops in Hcur. destruct Hcur as [Hpc Hcas].
  destruct (opstep_sim _ _ _ _ _ _ Htab Hpc Hstep) as [Htab' [Hext [_ Hc]]].
  split; cbn [w_sh w_th]; [exact Htab'|].
  intros j thj Hj. destruct (Nat.eq_dec i j) as [<-|Hne].
  - rewrite (nth_error_set_nth_same _ _ _ _ Hi) in Hj. inversion Hj. subst thj. clear Hj.
    destruct r as [p'|rs]; cbn [t_ops t_pc].
    + destruct c as [cm|]; [destruct Hc as [Hr _]; discriminate|].
      destruct Hc as [_ [p0 [Hr Hp0]]]. inversion Hr. subst p0.
      split; [exact Hp0 | exact (opstep_pc_cas _ _ _ _ _ _ Hcas Hstep)].
    + destruct rest as [|o2 rest2]; [exact I|]. split; [apply pc_ok_start | apply pc_cas_start].
  - rewrite (nth_error_set_nth_other _ _ _ _ Hne) in Hj. pose proof (Hth j thj Hj) as H.
    destruct (t_ops thj) as [|oj restj]; [exact I|]. destruct H as [H1 H2].
    split; [exact (pc_ok_ext _ _ _ _ H1 Hext) | exact (pc_cas_other _ _ _ _ _ _ _ _ H2 Hstep)].
Qed.

Lemma run_CInvW sched : forall w, CInvW w -> CInvW (run w sched).
Proof. unfold run. induction sched as [|i t IH]; intros w H; cbn; [exact H | apply IH; apply tstep_CInvW; exact H]. Qed.

Lemma init_CInvW shards progs : CInvW (init_world shards progs).
Proof.
  split; cbn.
  - split; intros; discriminate.
  - intros i th H. rewrite nth_error_map in H. destruct (nth_error progs i) as [prog|]; [|discriminate].
    inversion H. cbn. destruct prog; [exact I | split; [apply pc_ok_start | apply pc_cas_start]].
Qed.

(* MAIN: in every execution, when a compare-and-swap is answered with the flagged "no swap", the
   key has been modified since that call read it: its modification counter is above the value the
   call saw at its read (every unit of that counter is an accepted, logged modification of the key:
   opstep_tblver) *)
Theorem cas_refusals_are_justified shards progs sched i :
  let w := run (init_world shards progs) sched in
  forall th k e n tso rest ts ex g v0 s' r cm,
  nth_error (w_th w) i = Some th -> t_ops th = OCas k e n tso :: rest -> t_pc th = PCGuard ts ex g v0 ->
  opstep (w_sh w) (OCas k e n tso) (PCGuard ts ex g v0) = (s', r, Some cm) -> c_dev cm = true ->
  v0 < kver (w_sh w) k.
Proof.
  intros w th k e n tso rest ts ex g v0 s' r cm Hi Hops Hpcq Hstep Hdev.
  destruct (run_CInvW sched _ (init_CInvW shards progs)) as [Htab Hth]. fold w in Htab, Hth.
  pose proof (Hth i th Hi) as H. rewrite Hops, Hpcq in H. destruct H as [H1 H2].
  exact (cas_refusal_means_modified _ _ _ _ _ _ _ _ _ _ _ _ Htab H1 H2 Hstep Hdev).
Qed.
