(* Proofs about the reference map Model/Lww.v. *)
From Coq Require Import List NArith ZArith Bool Lia.
From Feox Require Import Gen.Constants Model.Bytes Model.Lww.
Import ListNotations.
Local Open Scope N_scope.

Arguments N.add : simpl never.
Arguments N.sub : simpl never.
Arguments N.mul : simpl never.
Arguments N.ltb : simpl never.
Arguments N.leb : simpl never.
Arguments N.eqb : simpl never.

(* ---------------- key order ---------------- *)
Lemma list_eqb_refl l : list_eqb l l = true.
Proof. induction l; simpl; auto. rewrite N.eqb_refl. auto. Qed.

Lemma list_eqb_eq a : forall b, list_eqb a b = true <-> a = b.
Proof.
  induction a as [|x a IH]; intros [|y b]; simpl; split; try discriminate; auto.
  - rewrite andb_true_iff, N.eqb_eq, IH. intros [-> ->]; auto.
  - intros [= -> ->]. rewrite N.eqb_refl, (proj2 (IH b)); auto.
Qed.

Lemma list_eqb_sym a b : list_eqb a b = list_eqb b a.
Proof.
  destruct (list_eqb a b) eqn:E.
  - apply list_eqb_eq in E. subst. symmetry. apply list_eqb_refl.
  - destruct (list_eqb b a) eqn:E'; auto. apply list_eqb_eq in E'. subst. rewrite list_eqb_refl in E. discriminate.
Qed.

Lemma key_ltb_irrefl a : key_ltb a a = false.
Proof. induction a as [|x a IH]; simpl; auto. rewrite N.ltb_irrefl, N.eqb_refl, IH. reflexivity. Qed.

Lemma key_ltb_trans a : forall b c, key_ltb a b = true -> key_ltb b c = true -> key_ltb a c = true.
Proof.
  induction a as [|x a IH]; intros [|y b] [|z c]; simpl; try discriminate; auto.
  rewrite !orb_true_iff, !andb_true_iff, !N.ltb_lt, !N.eqb_eq.
  intros [H1|[H1 H1']] [H2|[H2 H2']].
  - left; lia.
  - left; lia.
  - left; lia.
  - right; split; [lia|eauto].
Qed.

Lemma key_ltb_asym a b : key_ltb a b = true -> key_ltb b a = false.
Proof.
  intros H. destruct (key_ltb b a) eqn:E; auto.
  pose proof (key_ltb_trans _ _ _ H E) as C. rewrite key_ltb_irrefl in C. discriminate.
Qed.

Lemma key_trichotomy a : forall b, key_ltb a b = true \/ a = b \/ key_ltb b a = true.
Proof.
  induction a as [|x a IH]; intros [|y b]; simpl; auto.
  destruct (N.lt_trichotomy x y) as [L|[E|L]].
  - left. apply orb_true_iff. left. apply N.ltb_lt; auto.
  - subst. rewrite N.ltb_irrefl, N.eqb_refl. simpl.
    destruct (IH b) as [H|[->|H]]; auto.
  - right; right. apply orb_true_iff. left. apply N.ltb_lt; auto.
Qed.

Lemma key_ltb_neq a b : key_ltb a b = true -> list_eqb a b = false.
Proof.
  intros H. destruct (list_eqb a b) eqn:E; auto. apply list_eqb_eq in E. subst.
  rewrite key_ltb_irrefl in H. discriminate.
Qed.

(* ---------------- sorted bindings ---------------- *)
Fixpoint sorted (l : list (list N * gen)) : Prop :=
  match l with
  | [] => True
  | (k, _) :: t => (forall k' g', In (k', g') t -> key_ltb k k' = true) /\ sorted t
  end.

Lemma find_In k l g : find k l = Some g -> In (k, g) l.
Proof.
  induction l as [|[k' g'] t IH]; simpl; [discriminate|].
  destruct (list_eqb k' k) eqn:E; [intros [= <-]; apply list_eqb_eq in E; subst; auto|auto].
Qed.

Lemma find_none_notin k l : find k l = None -> forall g, ~ In (k, g) l.
Proof.
  induction l as [|[k' g'] t IH]; simpl; [tauto|].
  destruct (list_eqb k' k) eqn:E; [discriminate|].
  intros H g [[= -> ->]|Hin]; [rewrite list_eqb_refl in E; discriminate|eapply IH; eauto].
Qed.

Lemma sorted_find_unique k l g : sorted l -> In (k, g) l -> find k l = Some g.
Proof.
  induction l as [|[k' g'] t IH]; simpl; [tauto|].
  intros (Hlt & Hs) [[= -> ->]|Hin]; [rewrite list_eqb_refl; auto|].
  specialize (Hlt _ _ Hin). rewrite (key_ltb_neq _ _ Hlt). auto.
Qed.

Lemma sorted_upsert k g l : sorted l -> sorted (upsert k g l) /\
  (forall k' g', In (k', g') (upsert k g l) <-> (k' = k /\ g' = g) \/ (In (k', g') l /\ k' <> k)).
Proof.
  induction l as [|[k0 g0] t IH]; simpl.
  - intros _. split; [split; auto; intros ? ? []|]. intros k' g'. split.
    + intros [[= <- <-]|[]]; auto.
    + intros [[-> ->]|[[] _]]; auto.
  - intros (Hlt & Hs). destruct (list_eqb k0 k) eqn:E.
    + apply list_eqb_eq in E. subst k0. split; [simpl; auto|].
      intros k' g'. simpl. split.
      * intros [[= <- <-]|Hin]; auto. right. split; auto.
        intros ->. specialize (Hlt _ _ Hin). rewrite key_ltb_irrefl in Hlt. discriminate.
      * intros [[-> ->]|[[[= -> ->]|Hin] Hne]]; auto. congruence.
    + destruct (key_ltb k k0) eqn:L.
      * split.
        { simpl. split; [|split; auto].
          intros k' g' [[= <- <-]|Hin]; auto. eapply key_ltb_trans; eauto. }
        intros k' g'. simpl. split.
        { intros [[= <- <-]|[[= <- <-]|Hin]]; auto.
          - right. split; auto. intros ->. rewrite key_ltb_irrefl in L. discriminate.
          - right. split; auto. intros ->. specialize (Hlt _ _ Hin).
            rewrite (key_ltb_asym _ _ Hlt) in L. discriminate. }
        { intros [[-> ->]|[[[= -> ->]|Hin] Hne]]; auto. }
      * destruct (IH Hs) as (S' & I'). split.
        { simpl. split; auto. intros k' g' Hin. apply I' in Hin. destruct Hin as [[-> ->]|[Hin _]]; eauto.
          destruct (key_trichotomy k0 k) as [H|[H|H]]; auto; [subst; rewrite list_eqb_refl in E; discriminate|congruence]. }
        intros k' g'. simpl. rewrite I'. split.
        { intros [[= <- <-]|[[-> ->]|[Hin Hne]]]; auto.
          right. split; auto. intros ->. rewrite list_eqb_refl in E. discriminate. }
        { intros [[-> ->]|[[[= -> ->]|Hin] Hne]]; auto. }
Qed.

Lemma sorted_remove k l : sorted l -> sorted (remove k l) /\
  (forall k' g', In (k', g') (remove k l) <-> In (k', g') l /\ k' <> k).
Proof.
  induction l as [|[k0 g0] t IH]; simpl.
  - intros _. split; auto. intros; tauto.
  - intros (Hlt & Hs). destruct (list_eqb k0 k) eqn:E.
    + apply list_eqb_eq in E. subst k0. split; auto. intros k' g'. split.
      * intros Hin. split; auto. intros ->. specialize (Hlt _ _ Hin). rewrite key_ltb_irrefl in Hlt. discriminate.
      * intros [[[= -> ->]|Hin] Hne]; [congruence|auto].
    + destruct (IH Hs) as (S' & I'). split.
      * simpl. split; auto. intros k' g' Hin. apply I' in Hin. destruct Hin; eauto.
      * intros k' g'. simpl. rewrite I'. split.
        { intros [[= <- <-]|[Hin Hne]]; auto. split; auto. intros ->. rewrite list_eqb_refl in E. discriminate. }
        { intros [[[= -> ->]|Hin] Hne]; auto. }
Qed.

(* ---------------- memory accounting ---------------- *)
Lemma sum_mem_upsert_new c k g l : sorted l -> find k l = None ->
  sum_mem c (upsert k g l) = sum_mem c l + rsize c k (g_val g).
Proof.
  induction l as [|[k0 g0] t IH]; simpl; intros Hs Hf; [lia|].
  destruct Hs as (Hlt & Hs). rewrite list_eqb_sym in Hf.
  destruct (list_eqb k k0) eqn:E; [discriminate|]. rewrite list_eqb_sym, E.
  destruct (key_ltb k k0); simpl; [lia|]. rewrite IH; auto. lia.
Qed.

Lemma sum_mem_upsert_old c k g old l : sorted l -> find k l = Some old ->
  sum_mem c (upsert k g l) + rsize c k (g_val old) = sum_mem c l + rsize c k (g_val g).
Proof.
  induction l as [|[k0 g0] t IH]; simpl; intros Hs Hf; [discriminate|].
  destruct Hs as (Hlt & Hs).
  destruct (list_eqb k0 k) eqn:E.
  - injection Hf as <-. apply list_eqb_eq in E. subst. simpl. lia.
  - destruct (key_ltb k k0) eqn:L.
    + (* k would sort before k0 yet occurs later: impossible *)
      exfalso. apply find_In in Hf. specialize (Hlt _ _ Hf). rewrite (key_ltb_asym _ _ Hlt) in L. discriminate.
    + simpl. specialize (IH Hs Hf). lia.
Qed.

Lemma sum_mem_remove c k old l : sorted l -> find k l = Some old ->
  sum_mem c (remove k l) + rsize c k (g_val old) = sum_mem c l.
Proof.
  induction l as [|[k0 g0] t IH]; simpl; intros Hs Hf; [discriminate|].
  destruct Hs as (Hlt & Hs).
  destruct (list_eqb k0 k) eqn:E.
  - injection Hf as <-. apply list_eqb_eq in E. subst. lia.
  - simpl. specialize (IH Hs Hf). lia.
Qed.

Record Inv (c : cfg) (s : st) : Prop := {
  inv_sorted : sorted (kv s);
  inv_mem : mem s = sum_mem c (kv s)
}.

Lemma Inv_init c : Inv c init.
Proof. constructor; simpl; auto. Qed.

Lemma reserve_spec c m a m' : reserve c m a = Some m' -> m' = m + a.
Proof.
  unfold reserve. destruct (limit c) as [lim|]; [|intros [= <-]; auto].
  destruct (N.eqb_spec a 0); [intros [= <-]; lia|]. destruct (lim <? m + a); [discriminate|intros [= <-]; auto].
Qed.

Lemma reserve_limit c m a m' lim : limit c = Some lim -> reserve c m a = Some m' -> m <= lim -> m' <= lim.
Proof.
  unfold reserve. intros ->. destruct (N.eqb_spec a 0); [intros [= <-]; auto|].
  destruct (N.ltb_spec lim (m + a)); [discriminate|intros [= <-]; auto].
Qed.

Lemma replace_mem_spec c m old new m' : replace_mem c m old new = Some m' -> old <= m -> m' + old = m + new.
Proof.
  unfold replace_mem. destruct (reserve c m (new - old)) as [m1|] eqn:R; [|discriminate].
  apply reserve_spec in R. intros [= <-] Hle. destruct (N.ltb_spec new old); lia.
Qed.

Lemma sum_ge_find c k old l : find k l = Some old -> rsize c k (g_val old) <= sum_mem c l.
Proof.
  induction l as [|[k0 g0] t IH]; simpl; [discriminate|].
  destruct (list_eqb k0 k) eqn:E; [intros [= <-]; apply list_eqb_eq in E; subst; lia|].
  intros H. specialize (IH H). lia.
Qed.

Lemma replace_Inv c s e k old ts t v exp ok s' o :
  Inv c s -> find k (kv s) = Some old -> replace c s e k old ts t v exp ok = (s', o) -> Inv c s'.
Proof.
  intros [Hs Hm] Hf. unfold replace.
  destruct (t <=? g_ts old); [intros [= <- _]; constructor; auto|].
  destruct (replace_mem c (mem s) _ _) as [m'|] eqn:R; [|intros [= <- _]; constructor; auto].
  intros [= <- _]. constructor; simpl.
  - apply sorted_upsert; auto.
  - pose proof (sum_mem_upsert_old c k (mkgen v t exp) old (kv s) Hs Hf) as U. simpl in U.
    apply replace_mem_spec in R; [|rewrite Hm; eapply sum_ge_find; eauto]. lia.
Qed.

Lemma create_Inv c s e k ts t v exp ok s' o :
  Inv c s -> find k (kv s) = None -> create c s e k ts t v exp ok = (s', o) -> Inv c s'.
Proof.
  intros [Hs Hm] Hf. unfold create.
  destruct (reserve c (mem s) _) as [m'|] eqn:R; [|intros [= <- _]; constructor; auto].
  intros [= <- _]. constructor; simpl.
  - apply sorted_upsert; auto.
  - rewrite (sum_mem_upsert_new c k (mkgen v t exp) (kv s) Hs Hf). simpl. apply reserve_spec in R. lia.
Qed.

Lemma resolve_ts_kv s e ts t s1 : resolve_ts s e ts = TsOk t s1 -> kv s1 = kv s /\ mem s1 = mem s.
Proof.
  unfold resolve_ts. destruct (explicit ts); [intros [= _ <-]; auto|].
  destruct (auto_ok _ _ _ _); [intros [= _ <-]; auto|discriminate].
Qed.

Lemma Inv_same c s s1 : Inv c s -> kv s1 = kv s -> mem s1 = mem s -> Inv c s1.
Proof. intros [A B] E1 E2. constructor; rewrite ?E1, ?E2; auto. Qed.

Lemma remove_Inv c s k old clk :
  Inv c s -> find k (kv s) = Some old ->
  Inv c (mkst (remove k (kv s)) (mem s - rsize c k (g_val old)) clk).
Proof.
  intros [Hs Hm] Hf. constructor; simpl.
  - apply sorted_remove; auto.
  - pose proof (sum_mem_remove c k old (kv s) Hs Hf). lia.
Qed.

(* every call preserves: bindings sorted & unique, memory_usage = sum over live keys of (R + |k| + |v|) *)
Theorem step_Inv c s o e : Inv c s -> Inv c (fst (step c s o e)).
Proof.
  intros HI. destruct o; cbn [step].
  - (* Insert *)
    destruct (ttl_api && negb (ttl_on c)); simpl; auto.
    destruct (ttl_api && negb (ttl_write_supported c)); simpl; auto.
    destruct (validate_kv c k v); simpl; auto.
    destruct (resolve_ts s e ts) as [t s1|] eqn:R; simpl; auto.
    destruct (resolve_ts_kv _ _ _ _ _ R) as (E1 & E2). pose proof (Inv_same c s s1 HI E1 E2) as HI1.
    destruct (find k (kv s1)) as [old|] eqn:F.
    + destruct (replace _ _ _ _ _ _ _ _ _ _) as [s' o'] eqn:RP. simpl. eapply replace_Inv; eauto.
    + destruct (create _ _ _ _ _ _ _ _ _) as [s' o'] eqn:CR. simpl. eapply create_Inv; eauto.
  - destruct (validate_key k); simpl; auto. destruct (find k (kv s)); simpl; auto.
    destruct (expired _ _ _ _); simpl; auto.
  - destruct (validate_key k); simpl; auto. destruct (find k (kv s)); simpl; auto.
  - simpl; auto.
  - simpl; auto.
  - (* Delete *)
    destruct (validate_key k); simpl; auto.
    destruct (resolve_ts s e ts) as [t s1|] eqn:R; simpl; auto.
    destruct (resolve_ts_kv _ _ _ _ _ R) as (E1 & E2). pose proof (Inv_same c s s1 HI E1 E2) as HI1.
    destruct (find k (kv s1)) as [old|] eqn:F; simpl; auto.
    destruct (t <=? g_ts old); simpl; auto. apply remove_Inv; auto.
  - (* Incr *)
    destruct (_ && _); simpl; auto. destruct (validate_new_key c k); simpl; auto.
    destruct (find k (kv s)) as [old|] eqn:F.
    + match goal with |- context [if ?b then (s, OErr Older) else _] => destruct b end; simpl; auto.
      destruct (expired c old (e_tb e) (e_ta e)); simpl; auto.
      * (* expired: retire then create *)
        pose proof (remove_Inv c s k old (clock_set (e_shard e) (e_clk e) (clocks s)) HI F) as HR.
        assert (FN : find k (remove k (kv s)) = None).
        { destruct (find k (remove k (kv s))) eqn:E; auto. apply find_In in E.
          apply (proj2 (sorted_remove k (kv s) (inv_sorted c s HI))) in E. destruct E; congruence. }
        destruct (explicit ts) as [t0|].
        -- destruct (le_now t0 _ _); simpl; auto.
           ++ destruct (_ <=? _); simpl; auto.
           ++ destruct (negb _); simpl; auto.
              match goal with |- context [reserve c ?m ?a] => destruct (reserve c m a) as [m'|] eqn:RS end; simpl; auto.
              constructor; simpl.
              ** apply sorted_upsert. apply sorted_remove. apply HI.
              ** rewrite sum_mem_upsert_new; auto; [|apply sorted_remove; apply HI]. simpl.
                 apply reserve_spec in RS. destruct HR as [_ HM]. simpl in *. lia.
        -- destruct (_ && _); simpl; auto.
           match goal with |- context [reserve c ?m ?a] => destruct (reserve c m a) as [m'|] eqn:RS end; simpl; auto.
           constructor; simpl.
           ** apply sorted_upsert. apply sorted_remove. apply HI.
           ** rewrite sum_mem_upsert_new; auto; [|apply sorted_remove; apply HI]. simpl.
              apply reserve_spec in RS. destruct HR as [_ HM]. simpl in *. lia.
      * destruct (negb _); simpl; auto.
        destruct (resolve_ts s e ts) as [t s1|] eqn:R; simpl; auto.
        destruct (resolve_ts_kv _ _ _ _ _ R) as (E1 & E2). pose proof (Inv_same c s s1 HI E1 E2) as HI1.
        destruct (replace _ _ _ _ _ _ _ _ _ _) as [s' o'] eqn:RP. simpl.
        eapply replace_Inv; eauto. rewrite E1; auto.
    + destruct (resolve_ts s e ts) as [t s1|] eqn:R; simpl; auto.
      destruct (resolve_ts_kv _ _ _ _ _ R) as (E1 & E2). pose proof (Inv_same c s s1 HI E1 E2) as HI1.
      destruct (create _ _ _ _ _ _ _ _ _) as [s' o'] eqn:CR. simpl. eapply create_Inv; eauto. rewrite E1; auto.
  - (* InsertIfAbsent *)
    destruct (validate_kv c k v); simpl; auto. destruct (find k (kv s)) eqn:F; simpl; auto.
    destruct (reserve c (mem s) _) as [m'|] eqn:RS; simpl; auto.
    destruct (resolve_ts s e None) as [t s1|] eqn:R; simpl; auto.
    destruct (resolve_ts_kv _ _ _ _ _ R) as (E1 & E2). destruct HI as [Hs Hm].
    constructor; simpl; rewrite E1.
    + apply sorted_upsert; auto.
    + rewrite sum_mem_upsert_new; auto. simpl. apply reserve_spec in RS. lia.
  - (* Cas *)
    destruct (_ && _); simpl; auto. destruct (validate_kv c k v); simpl; auto.
    destruct (find k (kv s)) as [old|] eqn:F; simpl; auto.
    destruct (expired _ _ _ _); simpl; auto. destruct (negb _); simpl; auto.
    destruct (resolve_ts s e ts) as [t s1|] eqn:R; simpl; auto.
    destruct (resolve_ts_kv _ _ _ _ _ R) as (E1 & E2). pose proof (Inv_same c s s1 HI E1 E2) as HI1.
    destruct (replace _ _ _ _ _ _ _ _ _ _) as [s' o'] eqn:RP. simpl. eapply replace_Inv; eauto. rewrite E1; auto.
  - (* JsonPatch *)
    destruct (validate_key k); simpl; auto.
    destruct (resolve_ts s e ts) as [t s1|] eqn:R; simpl; auto.
    destruct (resolve_ts_kv _ _ _ _ _ R) as (E1 & E2). pose proof (Inv_same c s s1 HI E1 E2) as HI1.
    destruct (find k (kv s1)) as [old|] eqn:F; simpl; auto.
    destruct (t <=? g_ts old); simpl; auto. destruct (expired _ _ _ _); simpl; auto.
    destruct (e_patched e) as [v|]; simpl; auto. destruct (validate_kv c k v); simpl; auto.
    destruct (replace _ _ _ _ _ _ _ _ _ _) as [s' o'] eqn:RP. simpl. eapply replace_Inv; eauto.
  - (* UpdateTtl *)
    destruct (negb (ttl_on c)); simpl; auto. destruct (negb _); simpl; auto.
    destruct (validate_key k); simpl; auto. destruct (find k (kv s)) as [old|] eqn:F; simpl; auto.
    destruct (expired _ _ _ _); simpl; auto.
    destruct (g_ts old =? U64M); simpl; [apply (Inv_same c s); auto|].
    destruct (negb _); simpl; auto. destruct (negb _); simpl; auto.
    destruct HI as [Hs Hm]. constructor; simpl.
    + apply sorted_upsert; auto.
    + pose proof (sum_mem_upsert_old c k (mkgen (g_val old) (N.max (e_clk e) (g_ts old + 1)) (e_aux e)) old (kv s) Hs F) as U.
      simpl in U. lia.
  - (* GetTtl *)
    destruct (negb _); simpl; auto. destruct (validate_key k); simpl; auto.
    destruct (find k (kv s)); simpl; auto. destruct (_ =? 0); simpl; auto.
    destruct (le_now _ _ _); simpl; auto. destruct (_ && _); simpl; auto.
  - destruct (_ || _); simpl; auto. destruct (range_collect _ _ _ _ _ _ _); simpl; auto.
  - simpl; auto.
Qed.

Definition frun (c : cfg) (s : st) (ops : list (op * env)) : st :=
  fold_left (fun s oe => fst (step c s (fst oe) (snd oe))) ops s.

Theorem frun_Inv c ops : forall s, Inv c s -> Inv c (frun c s ops).
Proof.
  induction ops as [|[o e] t IH]; intros s HI; simpl; auto. apply IH. apply step_Inv; auto.
Qed.

Lemma drop_expired_sub c l tb ta r : drop_expired c l tb ta = Some r ->
  (forall k g, In (k, g) r -> In (k, g) l) /\ (sorted l -> sorted r).
Proof.
  revert r; induction l as [|[k g] t IH]; simpl; intros r.
  - intros [= <-]. split; auto.
  - destruct (expired c g tb ta); destruct (drop_expired c t tb ta) as [r'|]; try discriminate;
      intros [= <-]; destruct (IH _ eq_refl) as (A & B).
    + split; [intros; right; auto|intros (_ & Hs); auto].
    + split; [intros k' g' [[= <- <-]|Hin]; [left|right]; auto|].
      intros (Hlt & Hs). split; auto. intros k' g' Hin. eauto.
Qed.

Theorem reopen_Inv c s tb ta shards clk s' :
  Inv c s -> reopen c s tb ta shards clk = ReOk s' -> Inv c s'.
Proof.
  intros [Hs Hm]. unfold reopen. destruct (drop_expired c (kv s) tb ta) as [l|] eqn:D; [|discriminate].
  destruct (clocks_cover _ _ _); [|discriminate]. intros [= <-]. constructor; simpl; auto.
  apply (proj2 (drop_expired_sub _ _ _ _ _ D)); auto.
Qed.

(* ---------------- errors leave the contents alone ---------------- *)
Definition is_err (o : out) : bool := match o with OErr _ => true | _ => false end.

Lemma replace_err c s e k old ts t v exp ok s' o :
  is_err ok = false -> replace c s e k old ts t v exp ok = (s', o) -> is_err o = true -> s' = s.
Proof.
  intros Hok. unfold replace. destruct (t <=? g_ts old); [intros [= <- _]; auto|].
  destruct (replace_mem _ _ _ _); [|intros [= <- _]; auto].
  intros [= _ <-] H. congruence.
Qed.

Lemma create_err c s e k ts t v exp ok s' o :
  is_err ok = false -> create c s e k ts t v exp ok = (s', o) -> is_err o = true -> s' = s.
Proof.
  intros Hok. unfold create. destruct (reserve _ _ _); [|intros [= <- _]; auto].
  intros [= _ <-] H. congruence.
Qed.

Ltac use_rerr RP H :=
  let X := fresh in pose proof (fun Hok => replace_err _ _ _ _ _ _ _ _ _ _ _ _ Hok RP H) as X;
  rewrite X by reflexivity.
Ltac use_cerr CR H :=
  let X := fresh in pose proof (fun Hok => create_err _ _ _ _ _ _ _ _ _ _ _ Hok CR H) as X;
  rewrite X by reflexivity.

(* A call that returns an error leaves every binding and the memory counter unchanged -- with one
   documented exception: an increment that found an expired (already invisible) generation has
   retired it before failing. *)
Theorem error_leaves_contents c s o e :
  is_err (snd (step c s o e)) = true ->
  (kv (fst (step c s o e)) = kv s /\ mem (fst (step c s o e)) = mem s) \/
  (exists k delta ts ttl old, o = Incr k delta ts ttl /\ find k (kv s) = Some old /\
     expired c old (e_tb e) (e_ta e) = Yes /\ kv (fst (step c s o e)) = remove k (kv s)).
Proof.
  destruct o; cbn [step].
  - destruct (ttl_api && negb (ttl_on c)); simpl; auto.
    destruct (ttl_api && negb (ttl_write_supported c)); simpl; auto.
    destruct (validate_kv c k v); simpl; auto.
    destruct (resolve_ts s e ts) as [t s1|] eqn:R; simpl; auto.
    destruct (resolve_ts_kv _ _ _ _ _ R) as (E1 & E2).
    destruct (find k (kv s1)) as [old|] eqn:F.
    + destruct (replace _ _ _ _ _ _ _ _ _ _) as [s' o'] eqn:RP. simpl. intros H.
      use_rerr RP H. auto.
    + destruct (create _ _ _ _ _ _ _ _ _) as [s' o'] eqn:CR. simpl. intros H.
      use_cerr CR H. auto.
  - destruct (validate_key k); simpl; auto. destruct (find k (kv s)); simpl; auto.
    destruct (expired _ _ _ _); simpl; auto.
  - destruct (validate_key k); simpl; auto. destruct (find k (kv s)); simpl; auto.
  - simpl; auto.
  - simpl; auto.
  - destruct (validate_key k); simpl; auto.
    destruct (resolve_ts s e ts) as [t s1|] eqn:R; simpl; auto.
    destruct (resolve_ts_kv _ _ _ _ _ R) as (E1 & E2).
    destruct (find k (kv s1)) as [old|] eqn:F; simpl; auto.
    destruct (t <=? g_ts old); simpl; auto. discriminate.
  - destruct (_ && _); simpl; auto. destruct (validate_new_key c k); simpl; auto.
    destruct (find k (kv s)) as [old|] eqn:F.
    + match goal with |- context [if ?b then (s, OErr Older) else _] => destruct b end; simpl; auto.
      destruct (expired c old (e_tb e) (e_ta e)) eqn:EX; simpl; auto.
      * destruct (explicit ts) as [t0|].
        -- destruct (le_now t0 _ _); simpl; auto.
           ++ destruct (_ <=? _); simpl; auto. intros _. right. exists k, delta, ts, ttl, old. auto.
           ++ destruct (negb _); simpl; auto.
              match goal with |- context [reserve c ?m ?a] => destruct (reserve c m a) as [m'|] end; simpl; [discriminate|].
              intros _. right. exists k, delta, ts, ttl, old. auto.
        -- destruct (_ && _); simpl; auto.
           match goal with |- context [reserve c ?m ?a] => destruct (reserve c m a) as [m'|] end; simpl; [discriminate|].
           intros _. right. exists k, delta, ts, ttl, old. auto.
      * destruct (negb _); simpl; auto.
        destruct (resolve_ts s e ts) as [t s1|] eqn:R; simpl; auto.
        destruct (resolve_ts_kv _ _ _ _ _ R) as (E1 & E2).
        destruct (replace _ _ _ _ _ _ _ _ _ _) as [s' o'] eqn:RP. simpl. intros H.
        use_rerr RP H. auto.
    + destruct (resolve_ts s e ts) as [t s1|] eqn:R; simpl; auto.
      destruct (resolve_ts_kv _ _ _ _ _ R) as (E1 & E2).
      destruct (create _ _ _ _ _ _ _ _ _) as [s' o'] eqn:CR. simpl. intros H.
      use_cerr CR H. auto.
  - destruct (validate_kv c k v); simpl; auto. destruct (find k (kv s)) eqn:F; simpl; auto.
    destruct (reserve c (mem s) _) as [m'|] eqn:RS; simpl; auto.
    destruct (resolve_ts s e None) as [t s1|] eqn:R; simpl; auto. discriminate.
  - destruct (_ && _); simpl; auto. destruct (validate_kv c k v); simpl; auto.
    destruct (find k (kv s)) as [old|] eqn:F; simpl; auto.
    destruct (expired _ _ _ _); simpl; auto. destruct (negb _); simpl; auto.
    destruct (resolve_ts s e ts) as [t s1|] eqn:R; simpl; auto.
    destruct (resolve_ts_kv _ _ _ _ _ R) as (E1 & E2).
    destruct (replace _ _ _ _ _ _ _ _ _ _) as [s' o'] eqn:RP. simpl. intros H.
    use_rerr RP H. auto.
  - destruct (validate_key k); simpl; auto.
    destruct (resolve_ts s e ts) as [t s1|] eqn:R; simpl; auto.
    destruct (resolve_ts_kv _ _ _ _ _ R) as (E1 & E2).
    destruct (find k (kv s1)) as [old|] eqn:F; simpl; auto.
    destruct (t <=? g_ts old); simpl; auto. destruct (expired _ _ _ _); simpl; auto.
    destruct (e_patched e) as [v|]; simpl; auto. destruct (validate_kv c k v); simpl; auto.
    destruct (replace _ _ _ _ _ _ _ _ _ _) as [s' o'] eqn:RP. simpl. intros H.
    use_rerr RP H. auto.
  - destruct (negb (ttl_on c)); simpl; auto. destruct (negb _); simpl; auto.
    destruct (validate_key k); simpl; auto. destruct (find k (kv s)) as [old|] eqn:F; simpl; auto.
    destruct (expired _ _ _ _); simpl; auto.
    destruct (g_ts old =? U64M); simpl; auto.
    destruct (negb _); simpl; auto. destruct (negb _); simpl; auto. discriminate.
  - destruct (negb _); simpl; auto. destruct (validate_key k); simpl; auto.
    destruct (find k (kv s)); simpl; auto. destruct (_ =? 0); simpl; auto.
    destruct (le_now _ _ _); simpl; auto. destruct (_ && _); simpl; auto.
  - destruct (_ || _); simpl; auto. destruct (range_collect _ _ _ _ _ _ _); simpl; auto.
  - simpl; auto.
Qed.

(* ---------------- the limit is never exceeded by an admitted write ---------------- *)
Lemma replace_mem_limit c m old new m' lim :
  limit c = Some lim -> replace_mem c m old new = Some m' -> m <= lim -> m' <= lim.
Proof.
  intros HL. unfold replace_mem. destruct (reserve c m (new - old)) as [m1|] eqn:R; [|discriminate].
  intros [= <-] H. pose proof (reserve_limit c m _ m1 lim HL R H). destruct (new <? old); lia.
Qed.

Theorem limit_respected c s o e lim :
  limit c = Some lim -> mem s <= lim -> mem (fst (step c s o e)) <= lim.
Proof.
  intros HL HM.
  assert (RP : forall s0 k old ts t v exp ok, mem s0 <= lim -> mem (fst (replace c s0 e k old ts t v exp ok)) <= lim).
  { intros. unfold replace. destruct (_ <=? _); simpl; auto.
    destruct (replace_mem _ _ _ _) eqn:R; simpl; auto. eapply replace_mem_limit; eauto. }
  assert (CR : forall s0 k ts t v exp ok, mem s0 <= lim -> mem (fst (create c s0 e k ts t v exp ok)) <= lim).
  { intros. unfold create. destruct (reserve _ _ _) eqn:R; simpl; auto. eapply reserve_limit; eauto. }
  assert (TS : forall ts t s1, resolve_ts s e ts = TsOk t s1 -> mem s1 <= lim).
  { intros ts t s1 R. destruct (resolve_ts_kv _ _ _ _ _ R) as (_ & ->). auto. }
  destruct o; cbn [step].
  - destruct (ttl_api && negb (ttl_on c)); simpl; auto.
    destruct (ttl_api && negb (ttl_write_supported c)); simpl; auto.
    destruct (validate_kv c k v); simpl; auto.
    destruct (resolve_ts s e ts) as [t s1|] eqn:R; simpl; auto.
    destruct (find k (kv s1)); eauto.
  - destruct (validate_key k); simpl; auto. destruct (find k (kv s)); simpl; auto.
    destruct (expired _ _ _ _); simpl; auto.
  - destruct (validate_key k); simpl; auto. destruct (find k (kv s)); simpl; auto.
  - simpl; auto.
  - simpl; auto.
  - destruct (validate_key k); simpl; auto.
    destruct (resolve_ts s e ts) as [t s1|] eqn:R; simpl; auto.
    destruct (find k (kv s1)) as [old|] eqn:F; simpl; eauto.
    destruct (t <=? g_ts old); simpl; eauto. specialize (TS _ _ _ R). lia.
  - destruct (_ && _); simpl; auto. destruct (validate_new_key c k); simpl; auto.
    destruct (find k (kv s)) as [old|] eqn:F.
    + match goal with |- context [if ?b then (s, OErr Older) else _] => destruct b end; simpl; auto.
      destruct (expired c old (e_tb e) (e_ta e)) eqn:EX; simpl; auto.
      * destruct (explicit ts) as [t0|].
        -- destruct (le_now t0 _ _); simpl; auto.
           ++ destruct (_ <=? _); simpl; auto. lia.
           ++ destruct (negb _); simpl; auto.
              match goal with |- context [reserve c ?m ?a] => destruct (reserve c m a) as [m'|] eqn:RS end; simpl; [|lia].
              eapply reserve_limit; eauto. lia.
        -- destruct (_ && _); simpl; auto.
           match goal with |- context [reserve c ?m ?a] => destruct (reserve c m a) as [m'|] eqn:RS end; simpl; [|lia].
           eapply reserve_limit; eauto. lia.
      * destruct (negb _); simpl; auto.
        destruct (resolve_ts s e ts) as [t s1|] eqn:R; simpl; eauto.
    + destruct (resolve_ts s e ts) as [t s1|] eqn:R; simpl; eauto.
  - destruct (validate_kv c k v); simpl; auto. destruct (find k (kv s)) eqn:F; simpl; auto.
    destruct (reserve c (mem s) _) as [m'|] eqn:RS; simpl; auto.
    destruct (resolve_ts s e None) as [t s1|] eqn:R; simpl; auto. eapply reserve_limit; eauto.
  - destruct (_ && _); simpl; auto. destruct (validate_kv c k v); simpl; auto.
    destruct (find k (kv s)) as [old|] eqn:F; simpl; auto.
    destruct (expired _ _ _ _); simpl; auto. destruct (negb _); simpl; auto.
    destruct (resolve_ts s e ts) as [t s1|] eqn:R; simpl; eauto.
  - destruct (validate_key k); simpl; auto.
    destruct (resolve_ts s e ts) as [t s1|] eqn:R; simpl; auto.
    destruct (find k (kv s1)) as [old|] eqn:F; simpl; eauto.
    destruct (t <=? g_ts old); simpl; eauto. destruct (expired _ _ _ _); simpl; eauto.
    destruct (e_patched e) as [v|]; simpl; eauto. destruct (validate_kv c k v); simpl; eauto.
  - destruct (negb (ttl_on c)); simpl; auto. destruct (negb _); simpl; auto.
    destruct (validate_key k); simpl; auto. destruct (find k (kv s)) as [old|] eqn:F; simpl; auto.
    destruct (expired _ _ _ _); simpl; auto.
    destruct (g_ts old =? U64M); simpl; auto.
    destruct (negb _); simpl; auto. destruct (negb _); simpl; auto.
  - destruct (negb _); simpl; auto. destruct (validate_key k); simpl; auto.
    destruct (find k (kv s)); simpl; auto. destruct (_ =? 0); simpl; auto.
    destruct (le_now _ _ _); simpl; auto. destruct (_ && _); simpl; auto.
  - destruct (_ || _); simpl; auto. destruct (range_collect _ _ _ _ _ _ _); simpl; auto.
  - simpl; auto.
Qed.

(* ---------------- range queries are exact (C14, sequential) ---------------- *)
Definition in_range (a b k : list N) : bool := negb (key_ltb k a) && negb (key_ltb b k).
Definition visible_now (c : cfg) (g : gen) (tb ta : N) : bool :=
  match expired c g tb ta with No => true | _ => false end.
Definition range_spec (c : cfg) (l : list (list N * gen)) (a b : list N) (tb ta : N) : list (list N * list N) :=
  map (fun kg => (fst kg, g_val (snd kg)))
      (filter (fun kg => in_range a b (fst kg) && visible_now c (snd kg) tb ta) l).

Lemma range_spec_past c l a b tb ta k0 :
  key_ltb b k0 = true -> (forall k g, In (k, g) l -> key_ltb k0 k = true) -> range_spec c l a b tb ta = [].
Proof.
  intros Hb Hl. unfold range_spec. induction l as [|[k g] t IH]; simpl; auto.
  assert (key_ltb b k = true) by (eapply key_ltb_trans; [exact Hb|apply (Hl k g); left; auto]).
  unfold in_range at 1. simpl. rewrite H. rewrite andb_false_r. simpl. apply IH. intros; eapply Hl; right; eauto.
Qed.

Theorem range_exact c l a b tb ta : sorted l ->
  (forall k g, In (k, g) l -> expired c g tb ta <> Unknown) ->
  forall lim, range_collect c l a b lim tb ta = Some (firstn lim (range_spec c l a b tb ta)).
Proof.
  induction l as [|[k g] t IH]; intros Hs Hd lim.
  - simpl. destruct lim; reflexivity.
  - destruct Hs as (Hlt & Hs).
    assert (Hd' : forall k' g', In (k', g') t -> expired c g' tb ta <> Unknown) by (intros; eapply Hd; right; eauto).
    cbn [range_collect]. destruct lim as [|lim']; [reflexivity|].
    unfold range_spec. cbn [filter map fst snd]. unfold in_range at 1. cbn [fst].
    destruct (key_ltb k a) eqn:KA; cbn [negb andb].
    + apply IH; auto.
    + destruct (key_ltb b k) eqn:KB; cbn [negb andb].
      * fold (range_spec c t a b tb ta). rewrite (range_spec_past c t a b tb ta k KB Hlt). reflexivity.
      * unfold visible_now at 1. cbn [snd].
        pose proof (Hd k g (or_introl eq_refl)) as HD.
        destruct (expired c g tb ta) eqn:EX; [|..]; cbn [map firstn fst snd].
        -- apply IH; auto.
        -- fold (range_spec c t a b tb ta). rewrite (IH Hs Hd' lim'). reflexivity.
        -- congruence.
Qed.

(* results are in strictly ascending key order and inside the bounds *)
Lemma range_spec_in c l a b tb ta k v : In (k, v) (range_spec c l a b tb ta) ->
  in_range a b k = true /\ exists g, In (k, g) l /\ v = g_val g /\ expired c g tb ta = No.
Proof.
  unfold range_spec. rewrite in_map_iff. intros ([k' g] & [= <- <-] & Hin).
  apply filter_In in Hin. destruct Hin as (Hin & Hc). apply andb_true_iff in Hc. destruct Hc as (A & B).
  simpl in A, B. split; auto. exists g. repeat split; auto. unfold visible_now in B.
  destruct (expired c g tb ta); auto; discriminate.
Qed.

(* ---------------- expiry is exact (C11, sequential) ---------------- *)
Lemma expired_yes c g tb ta : ttl_on c = true -> 0 < g_exp g -> g_exp g < tb -> expired c g tb ta = Yes.
Proof.
  intros H1 H2 H3. unfold expired, lt_now. rewrite H1. simpl.
  destruct (N.eqb_spec (g_exp g) 0); [lia|]. destruct (N.ltb_spec (g_exp g) tb); [auto|lia].
Qed.

Lemma expired_no c g tb ta : tb <= ta -> (ttl_on c = false \/ g_exp g = 0 \/ ta <= g_exp g) -> expired c g tb ta = No.
Proof.
  intros W H. unfold expired, lt_now. destruct (ttl_on c); simpl; auto.
  destruct (N.eqb_spec (g_exp g) 0); auto.
  destruct H as [H|[H|H]]; [discriminate|congruence|].
  destruct (N.ltb_spec (g_exp g) tb); [lia|]. destruct (N.leb_spec ta (g_exp g)); [auto|lia].
Qed.

(* once the expiry instant has passed no value-reading call returns the value *)
Theorem never_visible_after c s e k g :
  sorted (kv s) ->
  ttl_on c = true -> find k (kv s) = Some g -> 0 < g_exp g -> g_exp g < e_tb e -> validate_key k = None ->
  snd (step c s (Get k) e) = OErr KeyNotFound /\
  (forall x v ts ttl, is_err (snd (step c s (Cas k x v ts ttl) e)) = true \/ snd (step c s (Cas k x v ts ttl) e) = OBool false) /\
  (forall ttl, ttl_write_supported c = true -> snd (step c s (UpdateTtl k ttl) e) = OErr KeyNotFound) /\
  (forall a b v, ~ In (k, v) (range_spec c (kv s) a b (e_tb e) (e_ta e))).
Proof.
  intros HS HT HF H0 HX HV. pose proof (expired_yes c g (e_tb e) (e_ta e) HT H0 HX) as EX.
  split; [|split; [|split]].
  - cbn [step]. rewrite HV, HF, EX. reflexivity.
  - intros. cbn [step]. destruct (_ && _); simpl; auto. destruct (validate_kv c k v); simpl; auto.
    rewrite HF, EX. simpl. auto.
  - intros ttl HW. cbn [step]. rewrite HT, HW, HV, HF, EX. reflexivity.
  - intros a b v Hin. apply range_spec_in in Hin. destruct Hin as (_ & g' & Hin & _ & EN).
    pose proof (sorted_find_unique k (kv s) g' HS Hin) as U. rewrite HF in U. injection U as <-. congruence.
Qed.

(* while the newest generation is unexpired (or has no expiry) a read returns it *)
Theorem never_hidden_before c s e k g :
  e_tb e <= e_ta e -> find k (kv s) = Some g -> validate_key k = None ->
  (ttl_on c = false \/ g_exp g = 0 \/ e_ta e <= g_exp g) ->
  snd (step c s (Get k) e) = OVal (g_val g).
Proof.
  intros W HF HV H. cbn [step]. rewrite HV, HF, (expired_no c g _ _ W H). reflexivity.
Qed.

(* no call other than an accepted delete of that very key removes a key whose newest generation
   is unexpired *)
Lemma find_some_In k (l : list (list N * gen)) : find k l <> None <-> exists g, In (k, g) l.
Proof.
  split.
  - destruct (find k l) eqn:E; [intros _; eexists; apply find_In; eauto|congruence].
  - intros (g & Hin) E. eapply find_none_notin; eauto.
Qed.

Lemma keep_upsert k l k' g' : sorted l -> find k l <> None -> find k (upsert k' g' l) <> None.
Proof.
  intros Hs H. apply find_some_In in H. destruct H as (g0 & Hin). apply find_some_In.
  destruct (list_eqb k k') eqn:E.
  - apply list_eqb_eq in E. subst. exists g'. apply (proj2 (sorted_upsert k' g' l Hs)). auto.
  - exists g0. apply (proj2 (sorted_upsert k' g' l Hs)). right. split; auto.
    intros ->. rewrite list_eqb_refl in E. discriminate.
Qed.

Lemma keep_remove k l k' : sorted l -> find k l <> None -> k <> k' -> find k (remove k' l) <> None.
Proof.
  intros Hs H Hne. apply find_some_In in H. destruct H as (g0 & Hin). apply find_some_In.
  exists g0. apply (proj2 (sorted_remove k' l Hs)). auto.
Qed.

Lemma replace_keeps c s e k0 old ts t v exp ok k :
  sorted (kv s) -> find k (kv s) <> None -> find k (kv (fst (replace c s e k0 old ts t v exp ok))) <> None.
Proof.
  intros Hs H. unfold replace. destruct (_ <=? _); simpl; auto. destruct (replace_mem _ _ _ _); simpl; auto.
  apply keep_upsert; auto.
Qed.

Lemma create_keeps c s e k0 ts t v exp ok k :
  sorted (kv s) -> find k (kv s) <> None -> find k (kv (fst (create c s e k0 ts t v exp ok))) <> None.
Proof.
  intros Hs H. unfold create. destruct (reserve _ _ _); simpl; auto. apply keep_upsert; auto.
Qed.

Theorem unexpired_not_removed c s o e k g :
  Inv c s -> e_tb e <= e_ta e -> find k (kv s) = Some g ->
  (ttl_on c = false \/ g_exp g = 0 \/ e_ta e <= g_exp g) ->
  (forall ts, o <> Delete k ts) ->
  find k (kv (fst (step c s o e))) <> None.
Proof.
  intros [HS _] W HF HE HD.
  assert (HN : find k (kv s) <> None) by congruence.
  assert (TS : forall ts t s1, resolve_ts s e ts = TsOk t s1 -> sorted (kv s1) /\ find k (kv s1) <> None).
  { intros ts t s1 R. destruct (resolve_ts_kv _ _ _ _ _ R) as (-> & _). auto. }
  destruct o; cbn [step].
  - destruct (ttl_api && negb (ttl_on c)); simpl; auto.
    destruct (ttl_api && negb (ttl_write_supported c)); simpl; auto.
    destruct (validate_kv c k0 v); simpl; auto.
    destruct (resolve_ts s e ts) as [t s1|] eqn:R; simpl; auto. destruct (TS _ _ _ R).
    destruct (find k0 (kv s1)); [apply replace_keeps|apply create_keeps]; auto.
  - destruct (validate_key k0); simpl; auto. destruct (find k0 (kv s)); simpl; auto.
    destruct (expired _ _ _ _); simpl; auto.
  - destruct (validate_key k0); simpl; auto. destruct (find k0 (kv s)); simpl; auto.
  - simpl; auto.
  - simpl; auto.
  - destruct (validate_key k0); simpl; auto.
    destruct (resolve_ts s e ts) as [t s1|] eqn:R; simpl; auto. destruct (TS _ _ _ R).
    destruct (find k0 (kv s1)) as [old|] eqn:F; simpl; auto.
    destruct (t <=? g_ts old); simpl; auto. apply keep_remove; auto. intros ->. apply (HD ts). reflexivity.
  - destruct (_ && _); simpl; auto. destruct (validate_new_key c k0); simpl; auto.
    destruct (find k0 (kv s)) as [old|] eqn:F.
    + match goal with |- context [if ?b then (s, OErr Older) else _] => destruct b end; simpl; auto.
      destruct (expired c old (e_tb e) (e_ta e)) eqn:EX; simpl; auto.
      * (* the expired key is not k: k's generation is unexpired *)
        assert (NE : k <> k0).
        { intros ->. rewrite HF in F. injection F as <-. rewrite (expired_no c g _ _ W HE) in EX. discriminate. }
        assert (KR : find k (remove k0 (kv s)) <> None) by (apply keep_remove; auto).
        assert (SR : sorted (remove k0 (kv s))) by (apply sorted_remove; auto).
        destruct (explicit ts) as [t0|].
        -- destruct (le_now t0 _ _); simpl; auto.
           ++ destruct (_ <=? _); simpl; auto.
           ++ destruct (negb _); simpl; auto.
              match goal with |- context [reserve c ?m ?a] => destruct (reserve c m a) as [m'|] end; simpl; auto.
              apply keep_upsert; auto.
        -- destruct (_ && _); simpl; auto.
           match goal with |- context [reserve c ?m ?a] => destruct (reserve c m a) as [m'|] end; simpl; auto.
           apply keep_upsert; auto.
      * destruct (negb _); simpl; auto.
        destruct (resolve_ts s e ts) as [t s1|] eqn:R; simpl; auto. destruct (TS _ _ _ R).
        apply replace_keeps; auto.
    + destruct (resolve_ts s e ts) as [t s1|] eqn:R; simpl; auto. destruct (TS _ _ _ R).
      apply create_keeps; auto.
  - destruct (validate_kv c k0 v); simpl; auto. destruct (find k0 (kv s)) eqn:F; simpl; auto.
    destruct (reserve c (mem s) _) as [m'|] eqn:RS; simpl; auto.
    destruct (resolve_ts s e None) as [t s1|] eqn:R; simpl; auto. destruct (TS _ _ _ R).
    apply keep_upsert; auto.
  - destruct (_ && _); simpl; auto. destruct (validate_kv c k0 v); simpl; auto.
    destruct (find k0 (kv s)) as [old|] eqn:F; simpl; auto.
    destruct (expired _ _ _ _); simpl; auto. destruct (negb _); simpl; auto.
    destruct (resolve_ts s e ts) as [t s1|] eqn:R; simpl; auto. destruct (TS _ _ _ R).
    apply replace_keeps; auto.
  - destruct (validate_key k0); simpl; auto.
    destruct (resolve_ts s e ts) as [t s1|] eqn:R; simpl; auto. destruct (TS _ _ _ R).
    destruct (find k0 (kv s1)) as [old|] eqn:F; simpl; auto.
    destruct (t <=? g_ts old); simpl; auto. destruct (expired _ _ _ _); simpl; auto.
    destruct (e_patched e) as [v|]; simpl; auto. destruct (validate_kv c k0 v); simpl; auto.
    apply replace_keeps; auto.
  - destruct (negb (ttl_on c)); simpl; auto. destruct (negb _); simpl; auto.
    destruct (validate_key k0); simpl; auto. destruct (find k0 (kv s)) as [old|] eqn:F; simpl; auto.
    destruct (expired _ _ _ _); simpl; auto.
    destruct (g_ts old =? U64M); simpl; auto.
    destruct (negb _); simpl; auto. destruct (negb _); simpl; auto. apply keep_upsert; auto.
  - destruct (negb _); simpl; auto. destruct (validate_key k0); simpl; auto.
    destruct (find k0 (kv s)); simpl; auto. destruct (_ =? 0); simpl; auto.
    destruct (le_now _ _ _); simpl; auto. destruct (_ && _); simpl; auto.
  - destruct (_ || _); simpl; auto. destruct (range_collect _ _ _ _ _ _ _); simpl; auto.
  - simpl; auto.
Qed.

(* a TTL-only update keeps the value *)
Theorem ttl_only_update_keeps_value c s e k ttl old :
  find k (kv s) = Some old -> snd (step c s (UpdateTtl k ttl) e) = OUnit -> sorted (kv s) ->
  exists g, find k (kv (fst (step c s (UpdateTtl k ttl) e))) = Some g /\ g_val g = g_val old /\ g_ts old < g_ts g.
Proof.
  intros HF. cbn [step].
  destruct (negb (ttl_on c)); simpl; [discriminate|]. destruct (negb _); simpl; [discriminate|].
  destruct (validate_key k); simpl; [discriminate|]. rewrite HF.
  destruct (expired _ _ _ _); simpl; try discriminate.
  destruct (g_ts old =? U64M); simpl; [discriminate|].
  destruct (negb _); simpl; [discriminate|]. destruct (negb _); simpl; [discriminate|].
  intros _ HS. eexists. split.
  - apply sorted_find_unique; [apply sorted_upsert; auto|]. apply (proj2 (sorted_upsert _ _ _ HS)). left; auto.
  - simpl. split; auto. lia.
Qed.

(* reopening keeps every unexpired key and drops the expired ones *)
Theorem reopen_keeps_unexpired c s tb ta shards clk s' k g :
  tb <= ta -> reopen c s tb ta shards clk = ReOk s' -> In (k, g) (kv s) ->
  (ttl_on c = false \/ g_exp g = 0 \/ ta <= g_exp g) -> In (k, g) (kv s').
Proof.
  intros W. unfold reopen. destruct (drop_expired c (kv s) tb ta) as [l|] eqn:D; [|discriminate].
  destruct (clocks_cover _ _ _); [|discriminate]. intros [= <-] Hin HE. simpl.
  revert l D. induction (kv s) as [|[k0 g0] t IH]; simpl in *; [tauto|]. intros l.
  destruct (expired c g0 tb ta) eqn:EX; destruct (drop_expired c t tb ta) as [r|]; try discriminate; intros [= <-].
  - destruct Hin as [[= -> ->]|Hin]; [rewrite (expired_no c g _ _ W HE) in EX; discriminate|eauto].
  - destruct Hin as [[= -> ->]|Hin]; [left; auto|right; eauto].
Qed.

(* ---------------- last-writer-wins (C01) ---------------- *)
(* an insert over an existing key takes effect iff its timestamp is greater than the current one *)
Theorem insert_effect_iff c s e k v t old :
  sorted (kv s) -> find k (kv s) = Some old -> validate_kv c k v = None ->
  let r := step c s (Insert k v (Some t) 0 false) e in
  t <> 0 ->
  (t <= g_ts old -> r = (s, OErr Older)) /\
  (g_ts old < t -> snd r = OBool false -> find k (kv (fst r)) = Some (mkgen v t 0)).
Proof.
  intros HS HF HV r Ht. subst r. cbn [step]. simpl andb. cbv iota. rewrite HV.
  unfold resolve_ts, explicit. destruct (N.eqb_spec t 0); [congruence|]. rewrite HF.
  assert (E : (if ttl_on c then expiry_of t 0 else 0) = 0) by (destruct (ttl_on c); reflexivity). rewrite E.
  unfold replace. split.
  - intros H. destruct (N.leb_spec t (g_ts old)); [reflexivity|lia].
  - intros H. destruct (N.leb_spec t (g_ts old)); [lia|].
    destruct (replace_mem _ _ _ _); simpl; [|discriminate]. intros _.
    apply sorted_find_unique; [apply sorted_upsert; auto|]. apply (proj2 (sorted_upsert _ _ _ HS)). left; auto.
Qed.

(* a delete takes effect iff its timestamp is greater than the current one *)
Theorem delete_effect_iff c s e k t old :
  sorted (kv s) -> find k (kv s) = Some old -> validate_key k = None -> t <> 0 ->
  let r := step c s (Delete k (Some t)) e in
  (t <= g_ts old -> r = (s, OErr Older)) /\
  (g_ts old < t -> snd r = OUnit /\ find k (kv (fst r)) = None).
Proof.
  intros HS HF HV Ht r. subst r. cbn [step]. rewrite HV.
  unfold resolve_ts, explicit. destruct (N.eqb_spec t 0); [congruence|]. rewrite HF. split.
  - intros H. destruct (N.leb_spec t (g_ts old)); [reflexivity|lia].
  - intros H. destruct (N.leb_spec t (g_ts old)); [lia|]. simpl. split; auto.
    destruct (find k (remove k (kv s))) eqn:E; auto. apply find_In in E.
    apply (proj2 (sorted_remove k (kv s) HS)) in E. destruct E; congruence.
Qed.

(* a read returns the latest accepted value *)
Theorem get_returns_binding c s e k g :
  find k (kv s) = Some g -> validate_key k = None -> expired c g (e_tb e) (e_ta e) = No ->
  step c s (Get k) e = (s, OVal (g_val g)).
Proof. intros HF HV EX. cbn [step]. rewrite HV, HF, EX. reflexivity. Qed.

(* ---------------- clocks (C12) ---------------- *)
(* an automatically issued timestamp exceeds everything the shard has seen, unless the shard is saturated *)
Theorem auto_exceeds last clk tb ta : auto_ok last clk tb ta = true -> last <> U64M -> last < clk.
Proof.
  unfold auto_ok. destruct (N.eqb_spec last U64M); [congruence|]. intros H _.
  apply andb_true_iff in H. destruct H as (H & _). apply andb_true_iff in H. destruct H as (H & _).
  apply N.ltb_lt; auto.
Qed.

(* with the shard clock at or above the key's current timestamp (the invariant the store maintains by
   observing every published explicit timestamp and every recovered one) and not saturated, an
   automatically timestamped insert, delete, swap, patch or increment is never answered Older *)
Lemma validate_key_not_older k : validate_key k <> Some Older.
Proof. unfold validate_key. destruct (_ || _); discriminate. Qed.
Lemma validate_kv_not_older c k v : validate_kv c k v <> Some Older.
Proof.
  unfold validate_kv, validate_new_key, validate_value.
  destruct (_ || _); [discriminate|]. destruct (_ || _); [destruct (_ || _); discriminate|].
  destruct (_ && _); [destruct (_ || _); discriminate|discriminate].
Qed.

Theorem auto_never_older c s e k old :
  find k (kv s) = Some old ->
  g_ts old <= clock_get (e_shard e) (clocks s) -> clock_get (e_shard e) (clocks s) <> U64M ->
  (forall v ttl api, snd (step c s (Insert k v None ttl api) e) <> OErr Older) /\
  snd (step c s (Delete k None) e) <> OErr Older /\
  (forall x v ttl, snd (step c s (Cas k x v None ttl) e) <> OErr Older) /\
  snd (step c s (JsonPatch k None) e) <> OErr Older.
Proof.
  intros HF HC HS.
  assert (R : forall t s1, resolve_ts s e None = TsOk t s1 -> g_ts old < t /\ kv s1 = kv s).
  { unfold resolve_ts. simpl. intros t s1. destruct (auto_ok _ _ _ _) eqn:A; [|discriminate].
    intros [= <- <-]. split; auto. pose proof (auto_exceeds _ _ _ _ A HS). lia. }
  assert (RP : forall s1 t v exp ok, g_ts old < t -> ok <> OErr Older ->
               snd (replace c s1 e k old None t v exp ok) <> OErr Older).
  { intros. unfold replace. destruct (N.leb_spec t (g_ts old)); [lia|].
    destruct (replace_mem _ _ _ _); simpl; auto. discriminate. }
  split; [|split; [|split]].
  - intros v ttl api. cbn [step].
    destruct (api && negb (ttl_on c)); simpl; [discriminate|].
    destruct (api && negb (ttl_write_supported c)); simpl; [discriminate|].
    destruct (validate_kv c k v) eqn:V; simpl; [intros [= ->]; eapply validate_kv_not_older; eauto|].
    destruct (resolve_ts s e None) as [t s1|] eqn:RT; simpl; [|discriminate].
    destruct (R _ _ eq_refl) as (LT & ->). rewrite HF. apply RP; auto. discriminate.
  - cbn [step]. destruct (validate_key k) eqn:V; simpl; [intros [= ->]; eapply validate_key_not_older; eauto|].
    destruct (resolve_ts s e None) as [t s1|] eqn:RT; simpl; [|discriminate].
    destruct (R _ _ eq_refl) as (LT & ->). rewrite HF. destruct (N.leb_spec t (g_ts old)); [lia|]. simpl. discriminate.
  - intros x v ttl. cbn [step]. destruct (_ && _); simpl; [discriminate|].
    destruct (validate_kv c k v) eqn:V; simpl; [intros [= ->]; eapply validate_kv_not_older; eauto|]. rewrite HF.
    destruct (expired _ _ _ _); simpl; try discriminate. destruct (negb _); simpl; [discriminate|].
    destruct (resolve_ts s e None) as [t s1|] eqn:RT; simpl; [|discriminate].
    destruct (R _ _ eq_refl) as (LT & _). apply RP; auto. discriminate.
  - cbn [step]. destruct (validate_key k) eqn:V; simpl; [intros [= ->]; eapply validate_key_not_older; eauto|].
    destruct (resolve_ts s e None) as [t s1|] eqn:RT; simpl; [|discriminate].
    destruct (R _ _ eq_refl) as (LT & ->). rewrite HF. destruct (N.leb_spec t (g_ts old)); [lia|].
    destruct (expired _ _ _ _); simpl; try discriminate.
    destruct (e_patched e) as [v|]; simpl; [|discriminate]. destruct (validate_kv c k v) eqn:V2; simpl; [intros [= ->]; eapply validate_kv_not_older; eauto|].
    apply RP; auto. discriminate.
Qed.

(* a failing call with an explicit timestamp leaves the clocks unchanged *)
Theorem failed_explicit_not_absorbed c s e k v t ttl api :
  t <> 0 -> is_err (snd (step c s (Insert k v (Some t) ttl api) e)) = true ->
  clocks (fst (step c s (Insert k v (Some t) ttl api) e)) = clocks s.
Proof.
  intros Ht. cbn [step].
  destruct (api && negb (ttl_on c)); simpl; auto.
  destruct (api && negb (ttl_write_supported c)); simpl; auto.
  destruct (validate_kv c k v); simpl; auto.
  unfold resolve_ts, explicit. destruct (N.eqb_spec t 0); [congruence|].
  destruct (find k (kv s)) as [old|].
  - unfold replace. destruct (_ <=? _); simpl; auto. destruct (replace_mem _ _ _ _); simpl; auto. discriminate.
  - unfold create. destruct (reserve _ _ _); simpl; auto. discriminate.
Qed.

(* the near-maximal timestamp saturates a shard: the unrestricted statement is false (known finding F2) *)
Example clock_saturation_refuted :
  let c := mkcfg false false 3 None 168 in
  let a := [97] in let b := [98] in
  let e1 := mkenv 5 (U64M - 1) 1000 1001 0 None in     (* insert A at 2^64-2 (explicit) *)
  let e2 := mkenv 5 U64M 1002 1003 0 None in           (* automatic write on A: shard -> 2^64-1 *)
  let e3 := mkenv 5 U64M 1004 1005 0 None in           (* first automatic write on B (same shard) *)
  let e4 := mkenv 5 U64M 1006 1007 0 None in           (* second automatic write on B *)
  let s1 := fst (step c init (Insert a [1] (Some (U64M - 1)) 0 false) e1) in
  let s2 := fst (step c s1 (Insert a [2] None 0 false) e2) in
  let s3 := fst (step c s2 (Insert b [3] None 0 false) e3) in
  snd (step c s3 (Insert b [4] None 0 false) e4) = OErr Older.
Proof. vm_compute. reflexivity. Qed.
