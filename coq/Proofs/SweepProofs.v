(* C11, concurrent clause: whatever the interleaving of the sweeper, lazy retirements, writers and
   the clock, expiry removes only the key's current generation and only once it has expired. *)
From Coq Require Import List NArith Bool Lia.
From Feox Require Import Model.Sched Model.Sweep Proofs.SchedProofs.
Import ListNotations.
Local Open Scope N_scope.

Lemma expired_mono g t t' : t <= t' -> expired_at g t = true -> expired_at g t' = true.
Proof.
  unfold expired_at. intros Hle H. apply andb_true_iff in H. destruct H as [H1 H2].
  apply andb_true_iff. split; [exact H1|]. apply N.ltb_lt in H2. apply N.ltb_lt. lia.
Qed.

Lemma unexpired_mono g t t' : t <= t' -> expired_at g t' = false -> expired_at g t = false.
Proof.
  intros Hle H. destruct (expired_at g t) eqn:E; [|reflexivity].
  rewrite (expired_mono _ _ _ Hle E) in H. discriminate.
Qed.

Definition picked_ok (s : sstate) (k : N) (g : sgen) : Prop :=
  sg_id g < ss_nid s /\ forall c, aget k (ss_tbl s) = Some c -> sg_id c = sg_id g -> c = g.

Record SwInv (s : sstate) : Prop := {
  sw_snow : ss_snow s <= ss_now s;
  sw_tbl : forall k c, aget k (ss_tbl s) = Some c -> sg_id c < ss_nid s;
  sw_cand : forall k g, aget k (ss_cand s) = Some g -> picked_ok s k g;
  sw_lazy : forall i k g t, aget i (ss_lazy s) = Some (k, g, t) -> t <= ss_now s /\ picked_ok s k g;
  sw_log : forall r, In r (ss_log s) -> expired_at (r_gen r) (r_clock r) = true
}.

Lemma sinit_inv : SwInv sinit.
Proof. split; cbn; intros; try discriminate; try lia; contradiction. Qed.

(* the guarded block: either nothing happens, or the current generation of k, expired at the
   wall clock, is removed and logged *)
Lemma guarded_remove_spec s k g clock sw :
  clock <= ss_now s -> picked_ok s k g ->
  let s' := guarded_remove s k g clock sw in
  s' = s \/
  (exists c, aget k (ss_tbl s) = Some c /\ expired_at c (ss_now s) = true /\
     s' = mkss (adel k (ss_tbl s)) (ss_now s) (ss_nid s) (ss_snow s) (ss_cand s) (ss_lazy s)
               (mkrem k c (ss_now s) sw :: ss_log s)).
Proof.
  intros Hclock [_ Huniq]. unfold guarded_remove. cbv zeta.
  destruct (aget k (ss_tbl s)) as [c|] eqn:Hc; [|left; reflexivity].
  destruct ((sg_id c =? sg_id g) && expired_at (if sw then g else c) clock) eqn:Hcond; [|left; reflexivity].
  right. apply andb_true_iff in Hcond. destruct Hcond as [Hid Hexp]. apply N.eqb_eq in Hid.
  pose proof (Huniq c eq_refl Hid) as ->.
  exists g. split; [reflexivity|]. split; [|reflexivity].
  destruct sw; exact (expired_mono _ _ _ Hclock Hexp).
Qed.

Lemma picked_ok_ext s s' k g :
  picked_ok s k g -> ss_nid s <= ss_nid s' ->
  (forall c, aget k (ss_tbl s') = Some c -> aget k (ss_tbl s) = Some c \/ sg_id c >= ss_nid s) ->
  picked_ok s' k g.
Proof.
  intros [Hlt Hu] Hn Ht. split; [lia|]. intros c Hc Hid.
  destruct (Ht c Hc) as [H|H]; [exact (Hu c H Hid) | lia].
Qed.

(* how one event changes the table *)
Lemma sstep_table s e s' o : SwInv s -> sstep s e = (s', o) ->
  ss_now s <= ss_now s' /\ ss_nid s <= ss_nid s' /\
  forall k,
    aget k (ss_tbl s') = aget k (ss_tbl s) \/
    (client_write_on k e = true /\ forall c, aget k (ss_tbl s') = Some c -> sg_id c = ss_nid s /\ ss_nid s < ss_nid s') \/
    (exists g, aget k (ss_tbl s) = Some g /\ aget k (ss_tbl s') = None /\ expired_at g (ss_now s) = true /\
               exists sw, ss_log s' = mkrem k g (ss_now s) sw :: ss_log s).
Proof.
  intros I H. destruct e as [d|k0 ex v|k0 ex|k0|k0| |k0|i k0|i|k0 d0]; cbn [sstep] in H.
  - inversion H; subst; cbn. repeat split; try lia. intros; left; reflexivity.
  - inversion H; subst; cbn. repeat split; try lia. intros k.
    destruct (N.eq_dec k k0) as [->|Hne].
    + right; left. cbn. rewrite N.eqb_refl. split; [reflexivity|]. intros c Hc. rewrite aget_aset_same in Hc. inversion Hc. cbn. split; [reflexivity | lia].
    + left. apply aget_aset_other. exact Hne.
  - destruct (aget k0 (ss_tbl s)) as [g|] eqn:Hg; [destruct (expired_at g (ss_now s))|];
      inversion H; subst; cbn; repeat split; try lia; intros k; try (left; reflexivity).
    destruct (N.eq_dec k k0) as [->|Hne].
    + right; left. rewrite N.eqb_refl. split; [reflexivity|]. intros c Hc. rewrite aget_aset_same in Hc. inversion Hc. cbn. split; [reflexivity | lia].
    + left. apply aget_aset_other. exact Hne.
  - destruct (aget k0 (ss_tbl s)) as [g|] eqn:Hg; inversion H; subst; cbn; repeat split; try lia; intros k; try (left; reflexivity).
    destruct (N.eq_dec k k0) as [->|Hne].
    + right; left. rewrite N.eqb_refl. split; [reflexivity|]. intros c Hc. rewrite aget_adel_same in Hc. discriminate.
    + left. apply aget_adel_other. exact Hne.
  - destruct (aget k0 (ss_tbl s)); inversion H; subst; repeat split; try lia; intros; left; reflexivity.
  - inversion H; subst; cbn. repeat split; try lia. intros; left; reflexivity.
  - destruct (aget k0 (ss_cand s)) as [g|] eqn:Hg; [|inversion H; subst; repeat split; try lia; intros; left; reflexivity].
    destruct (expired_at g (ss_snow s)) eqn:He; [|inversion H; subst; cbn; repeat split; try lia; intros; left; reflexivity].
    set (s1 := mkss (ss_tbl s) (ss_now s) (ss_nid s) (ss_snow s) (adel k0 (ss_cand s)) (ss_lazy s) (ss_log s)) in *.
    assert (Hp : picked_ok s1 k0 g) by (exact (sw_cand s I k0 g Hg)).
    destruct (guarded_remove_spec s1 k0 g (ss_snow s) true (sw_snow s I) Hp) as [E|[c [Hc [Hex E]]]];
      cbv zeta in E; inversion H; subst s' o; rewrite E; cbn.
    + repeat split; try lia. intros; left; reflexivity.
    + repeat split; try lia. intros k. destruct (N.eq_dec k k0) as [->|Hne].
      * right; right. exists c. cbn in Hc, Hex. split; [exact Hc|]. split; [apply aget_adel_same|]. split; [exact Hex|]. exists true. reflexivity.
      * left. apply aget_adel_other. exact Hne.
  - destruct (aget k0 (ss_tbl s)) as [g|]; [destruct (expired_at g (ss_now s))|]; inversion H; subst; cbn; repeat split; try lia; intros; left; reflexivity.
  - destruct (aget i (ss_lazy s)) as [[[k0 g] t]|] eqn:Hl; [|inversion H; subst; repeat split; try lia; intros; left; reflexivity].
    set (s1 := mkss (ss_tbl s) (ss_now s) (ss_nid s) (ss_snow s) (ss_cand s) (adel i (ss_lazy s)) (ss_log s)) in *.
    destruct (sw_lazy s I i k0 g t Hl) as [Ht Hp0].
    assert (Hp : picked_ok s1 k0 g) by exact Hp0.
    destruct (guarded_remove_spec s1 k0 g t false Ht Hp) as [E|[c [Hc [Hex E]]]];
      cbv zeta in E; inversion H; subst s' o; rewrite E; cbn.
    + repeat split; try lia. intros; left; reflexivity.
    + repeat split; try lia. intros k. destruct (N.eq_dec k k0) as [->|Hne].
      * right; right. exists c. cbn in Hc, Hex. split; [exact Hc|]. split; [apply aget_adel_same|]. split; [exact Hex|]. exists false. reflexivity.
      * left. apply aget_adel_other. exact Hne.
  - destruct (aget k0 (ss_tbl s)) as [g|] eqn:Hg; [destruct (expired_at g (ss_now s))|];
      inversion H; subst; cbn; repeat split; try lia; intros k; try (left; reflexivity);
      (destruct (N.eq_dec k k0) as [->|Hne];
       [right; left; rewrite N.eqb_refl; split; [reflexivity|]; intros c Hc; rewrite aget_aset_same in Hc; inversion Hc; cbn; split; [reflexivity | lia]
       | left; apply aget_aset_other; exact Hne]).
Qed.

Lemma guarded_remove_fields s k g clock sw :
  let s' := guarded_remove s k g clock sw in
  ss_now s' = ss_now s /\ ss_nid s' = ss_nid s /\ ss_snow s' = ss_snow s /\ ss_cand s' = ss_cand s /\ ss_lazy s' = ss_lazy s.
Proof.
  unfold guarded_remove. cbv zeta. destruct (aget k (ss_tbl s)) as [c|]; [|repeat split].
  destruct ((sg_id c =? sg_id g) && expired_at (if sw then g else c) clock); repeat split.
Qed.

(* the sweeper's and the callers' private state after one event *)
Lemma sstep_private s e s' o : SwInv s -> sstep s e = (s', o) ->
  ss_snow s' <= ss_now s' /\
  (forall k g, aget k (ss_cand s') = Some g -> aget k (ss_cand s) = Some g \/ aget k (ss_tbl s') = Some g) /\
  (forall i k g t, aget i (ss_lazy s') = Some (k, g, t) ->
      aget i (ss_lazy s) = Some (k, g, t) \/ (aget k (ss_tbl s') = Some g /\ t <= ss_now s')).
Proof.
  intros I H. pose proof (sw_snow s I) as Hsn.
  destruct e as [d|k0 ex v|k0 ex|k0|k0| |k0|i0 k0|i0|k0 d0]; cbn [sstep] in H.
  - inversion H; subst; cbn. split; [lia|]. split; intros; left; assumption.
  - inversion H; subst; cbn. split; [lia|]. split; intros; left; assumption.
  - destruct (aget k0 (ss_tbl s)) as [g|]; [destruct (expired_at g (ss_now s))|]; inversion H; subst; cbn;
      (split; [lia|]; split; intros; left; assumption).
  - destruct (aget k0 (ss_tbl s)); inversion H; subst; cbn; (split; [lia|]; split; intros; left; assumption).
  - destruct (aget k0 (ss_tbl s)); inversion H; subst; cbn; (split; [lia|]; split; intros; left; assumption).
  - inversion H; subst; cbn. split; [lia|]. split; [intros; right; assumption | intros; left; assumption].
  - destruct (aget k0 (ss_cand s)) as [g|] eqn:Hg; [|inversion H; subst; split; [lia|]; split; intros; left; assumption].
    set (s1 := mkss (ss_tbl s) (ss_now s) (ss_nid s) (ss_snow s) (adel k0 (ss_cand s)) (ss_lazy s) (ss_log s)) in *.
    assert (Hs' : ss_now s' = ss_now s /\ ss_snow s' = ss_snow s /\ ss_cand s' = adel k0 (ss_cand s) /\ ss_lazy s' = ss_lazy s).
    { destruct (expired_at g (ss_snow s)); inversion H; subst s' o.
      - destruct (guarded_remove_fields s1 k0 g (ss_snow s) true) as (A & _ & B & C & D). cbv zeta in *. rewrite A, B, C, D. repeat split.
      - repeat split. }
    destruct Hs' as (A & B & C & D). rewrite A, B, C, D. split; [lia|]. split.
    + intros k g0 Hk. left. exact (proj1 (aget_adel_some _ _ _ _ Hk)).
    + intros; left; assumption.
  - destruct (aget k0 (ss_tbl s)) as [g|] eqn:Hg; [destruct (expired_at g (ss_now s))|]; inversion H; subst; cbn;
      (split; [lia|]; split; [intros; left; assumption|]); try (intros; left; assumption).
    intros i k g1 t Hi. destruct (N.eq_dec i i0) as [->|Hne].
    + rewrite aget_aset_same in Hi. inversion Hi; subst. right. split; [exact Hg | lia].
    + rewrite aget_aset_other in Hi by exact Hne. left. exact Hi.
  - destruct (aget i0 (ss_lazy s)) as [[[k0 g] t]|] eqn:Hl; [|inversion H; subst; split; [lia|]; split; intros; left; assumption].
    set (s1 := mkss (ss_tbl s) (ss_now s) (ss_nid s) (ss_snow s) (ss_cand s) (adel i0 (ss_lazy s)) (ss_log s)) in *.
    inversion H; subst s' o.
    destruct (guarded_remove_fields s1 k0 g t false) as (A & _ & B & C & D). cbv zeta in *. rewrite A, B, C, D. cbn.
    split; [lia|]. split; [intros; left; assumption|].
    intros i k g1 t1 Hi. left. exact (proj1 (aget_adel_some _ _ _ _ Hi)).
  - destruct (aget k0 (ss_tbl s)) as [g|]; [destruct (expired_at g (ss_now s))|]; inversion H; subst; cbn;
      (split; [lia|]; split; intros; left; assumption).
Qed.

Lemma sstep_log s e s' o : SwInv s -> sstep s e = (s', o) ->
  forall r, In r (ss_log s') -> In r (ss_log s) \/ expired_at (r_gen r) (r_clock r) = true.
Proof.
  intros I H r Hr. destruct (sstep_table _ _ _ _ I H) as (_ & _ & Ht).
  (* the log changes only together with a removal *)
  destruct e as [d|k0 ex v|k0 ex|k0|k0| |k0|i0 k0|i0|k0 d0]; cbn [sstep] in H.
  - inversion H; subst; left; exact Hr.
  - inversion H; subst; left; exact Hr.
  - destruct (aget k0 (ss_tbl s)) as [g|]; [destruct (expired_at g (ss_now s))|]; inversion H; subst; left; exact Hr.
  - destruct (aget k0 (ss_tbl s)); inversion H; subst; left; exact Hr.
  - destruct (aget k0 (ss_tbl s)); inversion H; subst; left; exact Hr.
  - inversion H; subst; left; exact Hr.
  - destruct (aget k0 (ss_cand s)) as [g|] eqn:Hg; [|inversion H; subst; left; exact Hr].
    destruct (expired_at g (ss_snow s)) eqn:He; [|inversion H; subst; left; exact Hr].
    set (s1 := mkss (ss_tbl s) (ss_now s) (ss_nid s) (ss_snow s) (adel k0 (ss_cand s)) (ss_lazy s) (ss_log s)) in *.
    destruct (guarded_remove_spec s1 k0 g (ss_snow s) true (sw_snow s I) (sw_cand s I k0 g Hg)) as [E|[c [Hc [Hex E]]]];
      cbv zeta in E; inversion H; subst s' o; rewrite E in Hr; cbn in Hr.
    + left; exact Hr.
    + destruct Hr as [<-|Hr]; [right; exact Hex | left; exact Hr].
  - destruct (aget k0 (ss_tbl s)) as [g|]; [destruct (expired_at g (ss_now s))|]; inversion H; subst; left; exact Hr.
  - destruct (aget i0 (ss_lazy s)) as [[[k0 g] t]|] eqn:Hl; [|inversion H; subst; left; exact Hr].
    set (s1 := mkss (ss_tbl s) (ss_now s) (ss_nid s) (ss_snow s) (ss_cand s) (adel i0 (ss_lazy s)) (ss_log s)) in *.
    destruct (sw_lazy s I i0 k0 g t Hl) as [Htl Hp0].
    destruct (guarded_remove_spec s1 k0 g t false Htl Hp0) as [E|[c [Hc [Hex E]]]];
      cbv zeta in E; inversion H; subst s' o; rewrite E in Hr; cbn in Hr.
    + left; exact Hr.
    + destruct Hr as [<-|Hr]; [right; exact Hex | left; exact Hr].
  - destruct (aget k0 (ss_tbl s)) as [g|]; [destruct (expired_at g (ss_now s))|]; inversion H; subst; left; exact Hr.
Qed.

Lemma sstep_inv s e s' o : SwInv s -> sstep s e = (s', o) -> SwInv s'.
Proof.
  intros I H.
  destruct (sstep_table _ _ _ _ I H) as (Hnow & Hnid & Ht).
  destruct (sstep_private _ _ _ _ I H) as (Hsn & Hc & Hl).
  assert (Hsub : forall k c, aget k (ss_tbl s') = Some c -> aget k (ss_tbl s) = Some c \/ (ss_nid s <= sg_id c /\ sg_id c < ss_nid s')).
  { intros k c Hk. destruct (Ht k) as [E|[[_ E]|[g [_ [E _]]]]].
    - left. rewrite <- E. exact Hk.
    - right. destruct (E c Hk). lia.
    - rewrite E in Hk. discriminate. }
  assert (Htbl' : forall k c, aget k (ss_tbl s') = Some c -> sg_id c < ss_nid s').
  { intros k c Hk. destruct (Hsub k c Hk) as [E|E]; [pose proof (sw_tbl s I k c E); lia | lia]. }
  assert (Hext : forall k g, picked_ok s k g -> picked_ok s' k g).
  { intros k g Hp. apply (picked_ok_ext s s' k g Hp Hnid). intros c Hk.
    destruct (Hsub k c Hk) as [E|E]; [left; exact E | right; lia]. }
  assert (Hcur : forall k g, aget k (ss_tbl s') = Some g -> picked_ok s' k g).
  { intros k g Hk. split; [exact (Htbl' k g Hk)|]. intros c Hc' _. rewrite Hk in Hc'. inversion Hc'. reflexivity. }
  split.
  - exact Hsn.
  - exact Htbl'.
  - intros k g Hk. destruct (Hc k g Hk) as [E|E]; [exact (Hext k g (sw_cand s I k g E)) | exact (Hcur k g E)].
  - intros i k g t Hi. destruct (Hl i k g t Hi) as [E|[E Et]].
    + destruct (sw_lazy s I i k g t E) as [A B]. split; [lia | exact (Hext k g B)].
    + split; [exact Et | exact (Hcur k g E)].
  - intros r Hr. destruct (sstep_log _ _ _ _ I H r Hr) as [E|E]; [exact (sw_log s I r E) | exact E].
Qed.

Lemma srun_inv es : forall s, SwInv s -> SwInv (sfinal s es).
Proof.
  unfold sfinal. induction es as [|e t IH]; intros s I; cbn; [exact I|].
  destruct (sstep s e) as [s1 o] eqn:H. specialize (IH s1 (sstep_inv _ _ _ _ I H)).
  destruct (srun s1 t) as [s2 os]. exact IH.
Qed.

Lemma sfinal_cons s e t : sfinal s (e :: t) = sfinal (fst (sstep s e)) t.
Proof. unfold sfinal. cbn. destruct (sstep s e) as [s1 o]. cbn. destruct (srun s1 t). reflexivity. Qed.

Lemma srun_now_mono es : forall s, SwInv s -> ss_now s <= ss_now (sfinal s es).
Proof.
  induction es as [|e t IH]; intros s I; [unfold sfinal; cbn; lia|].
  rewrite sfinal_cons. destruct (sstep s e) as [s1 o] eqn:H. cbn.
  destruct (sstep_table _ _ _ _ I H) as (Hn & _). specialize (IH s1 (sstep_inv _ _ _ _ I H)). lia.
Qed.

(* MAIN 1: while nobody writes or deletes the key, its current generation stays in the table for
   as long as it is unexpired -- through any number of sweeper batches, lazy retirements by other
   callers, writes to other keys and clock ticks, in any order *)
Theorem unexpired_generation_survives es : forall s k g,
  SwInv s -> forallb (fun e => negb (client_write_on k e)) es = true ->
  aget k (ss_tbl s) = Some g ->
  expired_at g (ss_now (sfinal s es)) = false ->
  aget k (ss_tbl (sfinal s es)) = Some g.
Proof.
  induction es as [|e t IH]; intros s k g I Hes Hg Hun; [exact Hg|].
  cbn [forallb] in Hes. apply andb_true_iff in Hes. destruct Hes as [He Ht].
  rewrite sfinal_cons in *. destruct (sstep s e) as [s1 o] eqn:H. cbn [fst] in *.
  pose proof (sstep_inv _ _ _ _ I H) as I1.
  apply (IH s1 k g I1 Ht); [|exact Hun].
  destruct (sstep_table _ _ _ _ I H) as (Hn & _ & Htb).
  destruct (Htb k) as [E|[[E _]|[g0 [E0 [_ [Ex _]]]]]].
  - rewrite E. exact Hg.
  - rewrite E in He. discriminate.
  - rewrite Hg in E0. inversion E0; subst g0.
    pose proof (srun_now_mono t s1 I1) as Hm.
    rewrite (expired_mono g (ss_now s) (ss_now (sfinal s1 t)) ltac:(lia) Ex) in Hun. discriminate.
Qed.

(* ... and a read at the end returns its value *)
Corollary unexpired_key_is_readable es s k g :
  SwInv s -> forallb (fun e => negb (client_write_on k e)) es = true ->
  aget k (ss_tbl s) = Some g -> expired_at g (ss_now (sfinal s es)) = false ->
  snd (sstep (sfinal s es) (EGet k)) = SVal (Some (sg_val g)).
Proof.
  intros I Hes Hg Hun. cbn [sstep]. rewrite (unexpired_generation_survives es s k g I Hes Hg Hun). rewrite Hun. reflexivity.
Qed.

(* MAIN 2: every removal by expiry ever made, by the sweeper or lazily, took out a generation that
   was expired at the wall clock of the removal *)
Theorem expiry_removes_only_expired es r :
  In r (ss_log (sfinal sinit es)) -> expired_at (r_gen r) (r_clock r) = true.
Proof. intros H. exact (sw_log _ (srun_inv es sinit sinit_inv) r H). Qed.

(* MAIN 3: one event changes a key's entry only by a client's write to that key, or by removing
   its current, expired generation (which is logged) *)
Theorem entry_changes_only_by_write_or_expiry es e k :
  let s := sfinal sinit es in
  let s' := fst (sstep s e) in
  aget k (ss_tbl s') = aget k (ss_tbl s) \/ client_write_on k e = true \/
  (exists g, aget k (ss_tbl s) = Some g /\ aget k (ss_tbl s') = None /\ expired_at g (ss_now s) = true).
Proof.
  cbv zeta. destruct (sstep (sfinal sinit es) e) as [s' o] eqn:H. cbn [fst].
  destruct (sstep_table _ _ _ _ (srun_inv es sinit sinit_inv) H) as (_ & _ & Ht).
  destruct (Ht k) as [E|[[E _]|[g (A & B & C & _)]]]; [left; exact E | right; left; exact E | right; right; exists g; repeat split; assumption].
Qed.

(* MAIN 4: no older generation ever reappears: the identities a key's entry goes through only
   grow, and a key removed by expiry stays absent until a client writes it again *)
Theorem generations_only_move_forward es : forall s k g g',
  SwInv s -> aget k (ss_tbl s) = Some g -> aget k (ss_tbl (sfinal s es)) = Some g' -> sg_id g <= sg_id g'.
Proof.
  assert (G : forall l s k g', SwInv s -> aget k (ss_tbl (sfinal s l)) = Some g' ->
                 aget k (ss_tbl s) = Some g' \/ ss_nid s <= sg_id g').
  { clear es. intros l. induction l as [|e t IH]; intros s k g' I Hf; [left; exact Hf|].
    rewrite sfinal_cons in Hf. destruct (sstep s e) as [s1 o] eqn:H. cbn [fst] in Hf.
    pose proof (sstep_inv _ _ _ _ I H) as I1.
    destruct (sstep_table _ _ _ _ I H) as (_ & Hnid & Htb).
    destruct (IH s1 k g' I1 Hf) as [E|E]; [|right; lia].
    destruct (Htb k) as [E1|[[_ E1]|[g0 (_ & E1 & _)]]].
    - left. rewrite <- E1. exact E.
    - right. destruct (E1 g' E). lia.
    - rewrite E1 in E. discriminate. }
  intros s k g g' I Hg Hf. destruct (G es s k g' I Hf) as [E|E].
  - rewrite Hg in E. inversion E. lia.
  - pose proof (sw_tbl s I k g Hg). lia.
Qed.

Theorem expired_key_stays_absent es : forall s k,
  SwInv s -> aget k (ss_tbl s) = None ->
  forallb (fun e => negb (client_write_on k e)) es = true ->
  aget k (ss_tbl (sfinal s es)) = None.
Proof.
  induction es as [|e t IH]; intros s k I Hn Hes; [exact Hn|].
  cbn [forallb] in Hes. apply andb_true_iff in Hes. destruct Hes as [He Ht].
  rewrite sfinal_cons. destruct (sstep s e) as [s1 o] eqn:H. cbn [fst].
  apply (IH s1 k (sstep_inv _ _ _ _ I H)); [|exact Ht].
  destruct (sstep_table _ _ _ _ I H) as (_ & _ & Htb).
  destruct (Htb k) as [E|[[E _]|[g0 (E & _)]]].
  - rewrite E. exact Hn.
  - rewrite E in He. discriminate.
  - rewrite Hn in E. discriminate.
Qed.

(* MAIN 5: a read never returns a generation that is expired at the clock of the read *)
Theorem get_never_returns_expired s k v :
  snd (sstep s (EGet k)) = SVal (Some v) ->
  exists g, aget k (ss_tbl s) = Some g /\ expired_at g (ss_now s) = false /\ sg_val g = v.
Proof.
  cbn [sstep]. destruct (aget k (ss_tbl s)) as [g|]; cbn; [|discriminate].
  destruct (expired_at g (ss_now s)) eqn:E; intros H; inversion H. exists g. repeat split. exact E.
Qed.
