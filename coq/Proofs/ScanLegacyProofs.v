(* Data areas without retirement-marker runs -- what a legacy (v1 / v2) file at rest looks like, and
   what a read-only open with nothing journaled scans (C15: the migration source) -- in either
   mode: records with pairwise distinct keys and free blocks in any order. *)
From Coq Require Import List NArith Bool Lia Arith.
From Feox Require Import Gen.Constants Model.Bytes Model.Crc32c Model.Codec Proofs.CodecProofs
                         Model.FreeSpace Proofs.FreeSpaceProofs Model.MetaJournal Model.Recovery Model.Migration
                         Proofs.ScanAcceptsProofs Proofs.ScanQuiescentProofs Proofs.ScanGenerationsProofs Proofs.ScanExpiryProofs.
Import ListNotations.
Local Open Scope N_scope.
Local Transparent FEOX_BLOCK_SIZE FEOX_DATA_START_BLOCK.

Definition plain_ok (version : N) (it : item) : Prop :=
  match it with IRec r => rec_ok version r | IMark _ => False | IFree => True end.

Lemma idx_upsert_length_fresh x l : idx_find (e_key x) l = None -> length (idx_upsert x l) = S (length l).
Proof.
  induction l as [|y t IH]; cbn [idx_find idx_upsert]; intros H; [reflexivity|].
  destruct (list_eqb (e_key y) (e_key x)); [discriminate|]. destruct (key_ltb (e_key x) (e_key y)); [reflexivity|].
  cbn [length]. rewrite IH by exact H. reflexivity.
Qed.

Lemma gap_keeps_ambiguous st sector st4 :
  (if rs_last_end st <? sector then fs_release st (rs_last_end st) (sector - rs_last_end st) else Ok st) = Ok st4 ->
  rs_ambiguous st4 = rs_ambiguous st.
Proof.
  destruct (rs_last_end st <? sector); [|intros [= <-]; reflexivity].
  unfold fs_release. destruct (release _ _ _) as [[x|e] f']; [|discriminate]. intros [= <-]. reflexivity.
Qed.

Lemma plain_item_ok version it : plain_ok version it -> item_ok version it.
Proof. destruct it; cbn; tauto. Qed.

Section Plain.
Variable c : rcfg.
Variable version total : N.
Variable jl : list (N * N).
Variable img : image.
Hypothesis Hmode : c_ro c = false \/ jl = [].

Theorem scan_reads_a_data_area_without_markers : forall its fuel sector st,
  Forall (plain_ok version) its -> distinct_keys (recs_of its) ->
  (forall r, In r (recs_of its) -> idx_find (r_key r) (rs_idx st) = None) ->
  SInv total sector st ->
  skipn (N.to_nat sector) img = ilayout version sector its ->
  total = sector + isum version its ->
  (length its < fuel)%nat ->
  exists st',
    scan fuel c version total img sector st jl = Ok st' /\
    SInv total total st' /\ rs_last_end st <= rs_last_end st' /\
    (forall r s, In (r, s) (placed version sector its) -> idx_find (r_key r) (rs_idx st') = Some (entry_of version r s)) /\
    (forall k e, idx_find k (rs_idx st) = Some e -> (forall r, In r (recs_of its) -> list_eqb (r_key r) k = false) ->
                 idx_find k (rs_idx st') = Some e) /\
    rs_count st' = rs_count st + N.of_nat (length (recs_of its)) /\
    rs_retired st' = rs_retired st /\
    length (rs_idx st') = (length (rs_idx st) + length (recs_of its))%nat /\
    (isorted (rs_idx st) -> isorted (rs_idx st')) /\
    rs_ambiguous st' = rs_ambiguous st /\
    (forall b, free (rs_fs st') b <->
               free (rs_fs st) b \/ (rs_last_end st <= b < rs_last_end st' /\ ~ covered version sector its b)) /\
    (forall b, rs_last_end st' <= b -> ~ covered version sector its b).
Proof.
  induction its as [|it t IH]; intros fuel sector st Hok Hd Hfresh SI Himg Htot Hfuel.
  - cbn [isum] in Htot. exists st.
    assert (Sc : scan fuel c version total img sector st jl = Ok st)
      by (destruct fuel; cbn [scan]; destruct (N.leb_spec total sector); try lia; reflexivity).
    split; [exact Sc|]. split; [destruct SI; constructor; try assumption; lia|].
    split; [lia|]. split; [intros r s []|]. split; [intros k e Hk _; exact Hk|]. split; [cbn; lia|].
    split; [reflexivity|]. split; [cbn [recs_of length]; lia|]. split; [tauto|]. split; [reflexivity|]. split.
    + intros b. split; [intros Hb; left; exact Hb|intros [Hb|[Hb _]]; [exact Hb|lia]].
    + intros b _ [].
  - pose proof (Forall_inv Hok) as Hit. pose proof (Forall_inv_tail Hok) as Ht.
    pose proof (isize_pos version it (plain_item_ok _ _ Hit)) as SP.
    cbn [isum] in Htot. destruct fuel as [|f]; [cbn in Hfuel; lia|]. cbn [scan].
    destruct (N.leb_spec total sector); [lia|]. rewrite Himg. cbn [ilayout].
    assert (Hskip : skipn (N.to_nat (sector + isize version it)) img = ilayout version (sector + isize version it) t).
    { replace (N.to_nat (sector + isize version it)) with (N.to_nat sector + N.to_nat (isize version it))%nat by lia.
      rewrite skipn_add, Himg. cbn [ilayout]. rewrite skipn_app, iblocks_length, Nat.sub_diag by exact (plain_item_ok _ _ Hit). cbn [skipn].
      rewrite skipn_all2 by (rewrite iblocks_length by exact (plain_item_ok _ _ Hit); lia). reflexivity. }
    assert (Hf' : (length t < f)%nat) by (cbn [length] in Hfuel; lia).
    destruct it as [r|n|].
    + (* a record *)
      cbn [recs_of] in Hd, Hfresh. destruct Hd as [Hd1 Hd2]. cbn [isize] in *.
      destruct (gap_release total sector st SI ltac:(lia)) as (st4 & G & Gi & Gc & Gr & GI & GD & GF).
      destruct Hit as (K0 & Kmax & Hf & V0 & Vmax & Ts & Ex).
      assert (Hin : sector + extent_blocks version (N.of_nat (length (r_key r))) (N.of_nat (length (r_value r))) <= total).
      { fold (need_of version r). lia. }
      cbn [iblocks].
      rewrite (scan_step_accepts_encoded_record version sector r K0 Hf V0 Vmax Ts Ex c total st jl _ Kmax Hin st4 Hmode
                 (Hfresh r (or_introl eq_refl)) G).
      cbn [bind]. fold (need_of version r). destruct (N.leb_spec (sector + need_of version r) sector); [lia|].
      set (st1 := mkrs (idx_upsert (mkentry (r_key r) (r_ts r) (if has_expiry version then r_exp r else 0) (N.of_nat (length (r_value r))) sector) (rs_idx st4))
                       (rs_fs st4) (rs_count st4 + 1)
                       (wrap64 (rs_mem st4 + record_size c (N.of_nat (length (r_key r))) (N.of_nat (length (r_value r)))))
                       (wrap64 (rs_disk st4 + need_of version r * FEOX_BLOCK_SIZE)) (rs_retired st4) (sector + need_of version r) (rs_ambiguous st4)).
      assert (SI1 : SInv total (sector + need_of version r) st1).
      { destruct SI as [I D Lo Hi Fr]. constructor; cbn [st1 rs_fs rs_last_end]; try assumption; try lia.
        intros b Hb. apply GF in Hb. destruct Hb as [Hb|Hb]; [specialize (Fr b Hb); lia|lia]. }
      assert (Hfresh1 : forall r', In r' (recs_of t) -> idx_find (r_key r') (rs_idx st1) = None).
      { intros r' Hr'. cbn [st1 rs_idx]. rewrite idx_find_upsert_other; [rewrite Gi; apply Hfresh; right; exact Hr'|].
        cbn [e_key]. apply Hd1. exact Hr'. }
      destruct (IH f (sector + need_of version r) st1 Ht Hd2 Hfresh1 SI1 Hskip ltac:(lia) Hf')
        as (st' & Sc & SI' & Mono & Found & Kept & Cnt & Ret & Len & Srt & Amb & Fr' & Beyond).
      cbn [st1 rs_last_end rs_count rs_retired rs_fs rs_idx] in Mono, Cnt, Ret, Fr', Kept.
      exists st'. split; [exact Sc|]. split; [exact SI'|]. destruct SI as [I D Lo Hi Fr].
      split; [lia|]. split.
      * intros r' s' Hpl. cbn [placed] in Hpl. destruct Hpl as [E|Hpl].
        -- inversion E; subst r' s'. apply Kept.
           ++ change (r_key r) with (e_key (mkentry (r_key r) (r_ts r) (if has_expiry version then r_exp r else 0) (N.of_nat (length (r_value r))) sector)) at 1.
              apply idx_find_upsert_same.
           ++ intros r' Hr'. rewrite list_eqb_sym. apply Hd1. exact Hr'.
        -- apply Found. exact Hpl.
      * split.
        -- intros k e Hk Hn. apply Kept.
           ++ rewrite idx_find_upsert_other; [rewrite Gi; exact Hk|]. cbn [e_key]. apply Hn. left. reflexivity.
           ++ intros r' Hr'. apply Hn. right. exact Hr'.
        -- split; [cbn [recs_of length]; rewrite Cnt, Gc; lia|]. split; [rewrite Ret; exact Gr|].
           split; [rewrite Len; cbn [st1 rs_idx recs_of length]; rewrite idx_upsert_length_fresh by (cbn [e_key]; rewrite Gi; apply Hfresh; left; reflexivity); rewrite Gi; lia|].
           split; [intros Hs; apply Srt; cbn [st1 rs_idx]; apply isorted_upsert; rewrite Gi; exact Hs|].
           split; [rewrite Amb; cbn [st1 rs_ambiguous]; exact (gap_keeps_ambiguous _ _ _ G)|]. split.
           ++ intros b. rewrite Fr'. rewrite GF. cbn [covered]. split.
              ** intros [[Hx|Hx]|[Hx1 Hx2]].
                 --- left. exact Hx.
                 --- right. split; [lia|]. intros [Hc|Hc]; [lia|]. apply covered_ge in Hc. lia.
                 --- right. split; [lia|]. intros [Hc|Hc]; [lia|contradiction].
              ** intros [Hx|[H1 H2]]; [left; left; exact Hx|].
                 destruct (N.lt_ge_cases b sector) as [Hb|Hb]; [left; right; lia|].
                 destruct (N.lt_ge_cases b (sector + need_of version r)) as [Hb2|Hb2]; [exfalso; apply H2; left; lia|].
                 right. split; [lia|]. intros Hc. apply H2. right. exact Hc.
           ++ intros b Hb [Hc|Hc]; [lia|]. exact (Beyond b Hb Hc).
    + (* no marker runs here *) destruct Hit.
    + (* a free block *)
      cbn [recs_of isize iblocks] in *. cbn [app].
      rewrite (scan_step_skips_a_zero_block c version total sector st jl _ Hmode).
      cbn [bind]. destruct (N.leb_spec (sector + 1) sector); [lia|].
      assert (SI1 : SInv total (sector + 1) st) by (destruct SI; constructor; try assumption; lia).
      destruct (IH f (sector + 1) st Ht Hd Hfresh SI1 Hskip ltac:(lia) Hf')
        as (st' & Sc & SI' & Mono & Found & Kept & Cnt & Ret & Len & Srt & Amb & Fr' & Beyond).
      exists st'. repeat (split; [assumption|]). split.
      * intros b. rewrite Fr'. cbn [covered]. tauto.
      * intros b Hb [[]|Hc]. exact (Beyond b Hb Hc).
Qed.


End Plain.

(* ---- where each placed record's bytes are ---- *)
Lemma placed_skipn version img : forall its sector r s,
  Forall (item_ok version) its ->
  skipn (N.to_nat sector) img = ilayout version sector its ->
  In (r, s) (placed version sector its) ->
  exists rest, skipn (N.to_nat s) img = chunk_blocks (encode_extent version s r) (N.to_nat (need_of version r)) ++ rest.
Proof.
  induction its as [|it t IH]; intros sector r s Hok Himg Hin; [destruct Hin|].
  pose proof (Forall_inv Hok) as Hit. pose proof (Forall_inv_tail Hok) as Ht.
  assert (Hskip : skipn (N.to_nat (sector + isize version it)) img = ilayout version (sector + isize version it) t).
  { replace (N.to_nat (sector + isize version it)) with (N.to_nat sector + N.to_nat (isize version it))%nat by lia.
    rewrite skipn_add, Himg. cbn [ilayout]. rewrite skipn_app, iblocks_length, Nat.sub_diag by exact Hit. cbn [skipn].
    rewrite skipn_all2 by (rewrite iblocks_length by exact Hit; lia). reflexivity. }
  destruct it as [r0|n|]; cbn [placed isize] in Hin, Hskip.
  - destruct Hin as [E|Hin].
    + injection E as -> ->. eexists. rewrite Himg. cbn [ilayout iblocks]. reflexivity.
    + exact (IH _ _ _ Ht Hskip Hin).
  - exact (IH _ _ _ Ht Hskip Hin).
  - exact (IH _ _ _ Ht Hskip Hin).
Qed.

Lemma placed_in_recs version : forall its sector r s, In (r, s) (placed version sector its) -> In r (recs_of its).
Proof.
  induction its as [|it t IH]; intros sector r s H; [destruct H|]. destruct it as [r0|n|]; cbn [placed recs_of] in *.
  - destruct H as [E|H]; [left; congruence|right; exact (IH _ _ _ H)].
  - exact (IH _ _ _ H).
  - exact (IH _ _ _ H).
Qed.

Lemma recs_are_placed version : forall its sector r, In r (recs_of its) -> exists s, In (r, s) (placed version sector its).
Proof.
  induction its as [|it t IH]; intros sector r H; [destruct H|]. destruct it as [r0|n|]; cbn [placed recs_of] in *.
  - destruct H as [E|H]; [exists sector; left; congruence|]. destruct (IH (sector + need_of version r0) r H) as (s & Hs). exists s. right. exact Hs.
  - exact (IH _ _ H).
  - exact (IH _ _ H).
Qed.

Lemma placed_length version : forall its sector, length (placed version sector its) = length (recs_of its).
Proof.
  induction its as [|it t IH]; intros sector; [reflexivity|]. destruct it as [r0|n|]; cbn [placed recs_of length]; rewrite ?IH; reflexivity.
Qed.

Definition entries_of (version sector : N) (its : list item) : list entry :=
  map (fun p => entry_of version (fst p) (snd p)) (placed version sector its).

Lemma entries_nodup version : forall its sector, distinct_keys (recs_of its) -> NoDup (entries_of version sector its).
Proof.
  unfold entries_of. induction its as [|it t IH]; intros sector Hd; [constructor|].
  destruct it as [r0|n|]; cbn [placed recs_of map] in *; try (apply IH; exact Hd).
  destruct Hd as [Hd1 Hd2]. constructor; [|apply IH; exact Hd2].
  intros Hin. apply in_map_iff in Hin. destruct Hin as ([r' s'] & E & Hp). cbn [fst snd] in E.
  apply placed_in_recs in Hp. specialize (Hd1 r' Hp).
  assert (K : r_key r' = r_key r0) by (unfold entry_of in E; congruence).
  rewrite K, list_eqb_refl in Hd1. discriminate.
Qed.

(* strictly increasing keys *)
Fixpoint ksorted (l : list (list N)) : Prop :=
  match l with
  | [] => True
  | k :: t => (forall k', In k' t -> key_ltb k k' = true) /\ ksorted t
  end.

Lemma isorted_keys l : isorted l -> ksorted (map e_key l).
Proof.
  induction l as [|e t IH]; cbn [isorted ksorted map]; intros H; [exact I|]. destruct H as [H1 H2]. split; [|exact (IH H2)].
  intros k' Hk. apply in_map_iff in Hk. destruct Hk as (e' & <- & He'). exact (H1 e' He').
Qed.

(* ---- the whole file, opened read-only (the migration source) ---- *)
Theorem read_only_open_of_a_file_without_markers allow img m jgen jslot its :
  (17 <= length img)%nat ->
  let total := N.of_nat (length img) in
  let mb := if select_meta (nth_block img 0) (nth_block img (N.to_nat FEOX_METADATA_BACKUP_BLOCK))
            then nth_block img (N.to_nat FEOX_METADATA_BACKUP_BLOCK) else nth_block img 0 in
  list_eqb (firstn 8 mb) SIGNATURE = true -> decode_meta mb = Some m ->
  decode_journal (slot_bytes img 0) (slot_bytes img 1) total = Some (jgen, jslot, []) ->
  total * FEOX_BLOCK_SIZE < U64 ->
  Forall (plain_ok (m_version m)) its -> distinct_keys (recs_of its) ->
  skipn (N.to_nat FEOX_DATA_START_BLOCK) img = ilayout (m_version m) FEOX_DATA_START_BLOCK its ->
  exists o,
    open_image (ro_cfg allow) img = (Ok o, img) /\
    o_version o = m_version m /\ o_ambiguous o = 0 /\ isorted (o_idx o) /\
    (forall e, In e (o_idx o) <-> In e (entries_of (m_version m) FEOX_DATA_START_BLOCK its)).
Proof.
  intros Hlen total mb Hsig Hdec Hj Hu Hok Hd Himg.
  set (version := m_version m) in *.
  assert (Hok' : Forall (item_ok version) its) by (eapply Forall_impl; [|exact Hok]; intros it; apply plain_item_ok).
  assert (Hlay : length (ilayout version FEOX_DATA_START_BLOCK its) = N.to_nat (isum version its)) by (apply ilayout_length; exact Hok').
  assert (Htot : total = FEOX_DATA_START_BLOCK + isum version its).
  { pose proof (f_equal (@length block) Himg) as L. rewrite skipn_length, Hlay in L. unfold total. unfold FEOX_DATA_START_BLOCK in *. lia. }
  assert (Hfuel : (length its < S (length img))%nat).
  { pose proof (items_le_blocks _ _ Hok'). unfold total, FEOX_DATA_START_BLOCK in Htot. lia. }
  set (st0 := mkrs [] (mkfs [] (total * FEOX_BLOCK_SIZE) 0 0) 0 0 0 [] FEOX_DATA_START_BLOCK 0).
  assert (SI0 : SInv total FEOX_DATA_START_BLOCK st0).
  { assert (Hpos : 16 < total) by (unfold total; lia).
    constructor.
    - constructor; cbn.
      + unfold dev_sectors. cbn. rewrite N.div_mul by (unfold FEOX_BLOCK_SIZE; lia). unfold FEOX_DATA_START_BLOCK. lia.
      + exact Hu.
      + exact I.
      + reflexivity.
      + reflexivity.
    - unfold dev_sectors. cbn. apply N.div_mul. unfold FEOX_BLOCK_SIZE. lia.
    - cbn. lia.
    - cbn. lia.
    - intros b Hb. exfalso. exact (freel_nil b Hb). }
  destruct (scan_reads_a_data_area_without_markers (ro_cfg allow) version total [] img (or_intror eq_refl)
              its (S (length img)) FEOX_DATA_START_BLOCK st0 Hok Hd (fun r _ => eq_refl) SI0 Himg Htot Hfuel)
    as (st' & Sc & SI' & Mono & Found & _ & Cnt & Ret & Len & Srt & Amb & Fr' & Beyond).
  destruct (gap_release total total st' SI' (N.le_refl _)) as (st'' & G & Gi & Gc & Gr & _ & _ & GF).
  unfold open_image. fold total.
  destruct (Nat.ltb_spec (length img) 17); [lia|].
  fold mb. rewrite Hsig. cbn [negb]. rewrite Hdec, Hj. cbn [ro_cfg c_ro c_now sort_by_start fold_right].
  fold version. fold st0. change (mkcfg true allow None 0) with (ro_cfg allow). rewrite Sc. cbn [bind negb].
  rewrite G.
  eexists. split; [reflexivity|]. cbn [o_version o_ambiguous o_idx].
  split; [reflexivity|]. split; [rewrite (gap_keeps_ambiguous _ _ _ G), Amb; reflexivity|].
  rewrite Gi. split; [apply Srt; exact I|].
  assert (Incl : incl (entries_of version FEOX_DATA_START_BLOCK its) (rs_idx st')).
  { intros e He. unfold entries_of in He. apply in_map_iff in He. destruct He as ([r s] & <- & Hp). cbn [fst snd].
    exact (proj1 (idx_find_In _ _ _ (Found r s Hp))). }
  intros e. split; [|apply Incl].
  apply (NoDup_length_incl (entries_nodup version its FEOX_DATA_START_BLOCK Hd)); [|exact Incl].
  unfold entries_of. rewrite map_length, placed_length, Len. cbn [st0 rs_idx length]. lia.
Qed.

(* ---- C15: what a migration of such a source reports ---- *)

Definition mrec_of (version : N) (r : rec) : mrecord :=
  mkmrec (r_key r) (Some (r_value r)) (r_ts r) (if has_expiry version then r_exp r else 0).

Theorem migration_reports_exactly_the_records_of_the_source allow src m jgen jslot its :
  (17 <= length src)%nat ->
  let total := N.of_nat (length src) in
  let mb := if select_meta (nth_block src 0) (nth_block src (N.to_nat FEOX_METADATA_BACKUP_BLOCK))
            then nth_block src (N.to_nat FEOX_METADATA_BACKUP_BLOCK) else nth_block src 0 in
  list_eqb (firstn 8 mb) SIGNATURE = true -> decode_meta mb = Some m -> m_version m < 3 ->
  decode_journal (slot_bytes src 0) (slot_bytes src 1) total = Some (jgen, jslot, []) ->
  total * FEOX_BLOCK_SIZE < U64 ->
  Forall (plain_ok (m_version m)) its -> distinct_keys (recs_of its) ->
  (forall r, In r (recs_of its) -> N.of_nat (length (r_key r)) <= MAX_RECOVERABLE_KEY_SIZE) ->
  skipn (N.to_nat FEOX_DATA_START_BLOCK) src = ilayout (m_version m) FEOX_DATA_START_BLOCK its ->
  exists rep,
    migrate_spec src allow false = inl rep /\
    rep_version rep = m_version m /\ rep_ambiguous rep = 0 /\
    (forall x, In x (rep_records rep) <-> exists r, In r (recs_of its) /\ x = mrec_of (m_version m) r) /\
    ksorted (map mr_key (rep_records rep)).
Proof.
  intros Hlen total mb Hsig Hdec Hv Hj Hu Hok Hd Hk Himg.
  destruct (read_only_open_of_a_file_without_markers allow src m jgen jslot its Hlen Hsig Hdec Hj Hu Hok Hd Himg)
    as (o & E & Ev & Ea & Es & Eidx).
  set (version := m_version m) in *.
  assert (Hok' : Forall (item_ok version) its) by (eapply Forall_impl; [|exact Hok]; intros it; apply plain_item_ok).
  assert (ValP : forall r s, In (r, s) (placed version FEOX_DATA_START_BLOCK its) ->
             mkmrec (e_key (entry_of version r s)) (read_value version src (entry_of version r s))
                    (e_ts (entry_of version r s)) (e_exp (entry_of version r s)) = mrec_of version r).
  { intros r s Hp. pose proof (placed_in_recs _ _ _ _ _ Hp) as Hr.
    destruct (placed_skipn version src its _ r s Hok' Himg Hp) as (rest & Hs).
    assert (Rk : rec_ok version r).
    { rewrite Forall_forall in Hok. clear - Hok Hr. induction its as [|it t IH]; [destruct Hr|].
      destruct it as [r0|n|]; cbn [recs_of] in Hr.
      - destruct Hr as [<-|Hr]; [exact (Hok _ (or_introl eq_refl))|]. apply IH; [intros x Hx; apply Hok; right; exact Hx|exact Hr].
      - apply IH; [intros x Hx; apply Hok; right; exact Hx|exact Hr].
      - apply IH; [intros x Hx; apply Hok; right; exact Hx|exact Hr]. }
    destruct Rk as (K0 & Kmax & Hf & V0 & Vmax & Ts & Ex).
    unfold entry_of, mrec_of. cbn [e_key e_ts e_exp].
    rewrite (read_value_returns_the_value version s r K0 Hf V0 Vmax Ts Ex src rest Hs). reflexivity. }
  assert (Val : forall e, In e (o_idx o) -> exists r, In r (recs_of its) /\ e_key e = r_key r /\
             mkmrec (e_key e) (read_value version src e) (e_ts e) (e_exp e) = mrec_of version r).
  { intros e He. apply Eidx in He. unfold entries_of in He. apply in_map_iff in He. destruct He as ([r s] & <- & Hp). cbn [fst snd].
    exists r. split; [exact (placed_in_recs _ _ _ _ _ Hp)|]. split; [reflexivity|exact (ValP r s Hp)]. }
  unfold migrate_spec. rewrite E. cbn [fst]. rewrite Ev. fold version.
  destruct (N.leb_spec 3 version) as [H3|_]; [lia|].
  assert (Hex : existsb (fun e => MAX_RECOVERABLE_KEY_SIZE <? N.of_nat (length (e_key e))) (o_idx o) = false).
  { destruct (existsb _ _) eqn:X; [|reflexivity]. apply existsb_exists in X. destruct X as (e & He & Hlt).
    destruct (Val e He) as (r & Hr & Ke & _). rewrite Ke in Hlt. specialize (Hk r Hr). apply N.ltb_lt in Hlt. lia. }
  rewrite Hex. eexists. split; [reflexivity|]. cbn [rep_version rep_ambiguous rep_records].
  split; [reflexivity|]. split; [exact Ea|]. split.
  - intros x. rewrite in_map_iff. split.
    + intros (e & <- & He). destruct (Val e He) as (r & Hr & _ & Eq). exists r. split; [exact Hr|exact Eq].
    + intros (r & Hr & ->). destruct (recs_are_placed version its FEOX_DATA_START_BLOCK r Hr) as (s & Hp).
      exists (entry_of version r s). assert (He : In (entry_of version r s) (o_idx o)).
      { apply Eidx. unfold entries_of. apply in_map_iff. exists (r, s). split; [reflexivity|exact Hp]. }
      split; [exact (ValP r s Hp)|exact He].
  - rewrite map_map. cbn [mr_key]. apply isorted_keys. exact Es.
Qed.

(* ---- non-vacuity: a concrete version-2 file (two records around a free block) ---- *)
Definition ex_meta := mkmeta 2 0 0 (18*4096) 4096 0 0 0 1 (zeros 48).
Definition ex_rec1 := mkrec [107;49] [1;2;3] 5 77.
Definition ex_rec2 := mkrec [107;48] [9] 6 0.
Definition ex_its := [IRec ex_rec1; IFree; IRec ex_rec2].
Definition ex_src : image :=
  ((encode_meta ex_meta ++ zeros (BLOCK - length (encode_meta ex_meta))) :: repeat (zeros BLOCK) 15) ++ ilayout 2 16 ex_its.
Definition ex_mb := if select_meta (nth_block ex_src 0) (nth_block ex_src (N.to_nat FEOX_METADATA_BACKUP_BLOCK))
            then nth_block ex_src (N.to_nat FEOX_METADATA_BACKUP_BLOCK) else nth_block ex_src 0.
Lemma ex1 : Nat.leb 17 (length ex_src) = true. Proof. vm_compute. reflexivity. Qed.
Lemma ex2 : list_eqb (firstn 8 ex_mb) SIGNATURE = true. Proof. vm_compute. reflexivity. Qed.
Lemma ex3 : decode_meta ex_mb = Some ex_meta. Proof. vm_compute. reflexivity. Qed.
Lemma ex4 : decode_journal (slot_bytes ex_src 0) (slot_bytes ex_src 1) (N.of_nat (length ex_src)) = Some (0, 1, []). Proof. vm_compute. reflexivity. Qed.
Lemma ex5 : (N.of_nat (length ex_src) * FEOX_BLOCK_SIZE <? U64) = true. Proof. vm_compute. reflexivity. Qed.
Lemma ex6 : skipn (N.to_nat FEOX_DATA_START_BLOCK) ex_src = ilayout (m_version ex_meta) FEOX_DATA_START_BLOCK ex_its. Proof. vm_compute. reflexivity. Qed.
Lemma rec_ok_dec version r :
  (0 <? N.of_nat (length (r_key r))) && (N.of_nat (length (r_key r)) <=? MAX_KEY_SIZE) &&
  Nat.leb (6 + length (r_key r) + 16 + (if has_expiry version then 8 else 0)) BLOCK &&
  (0 <? N.of_nat (length (r_value r))) && (N.of_nat (length (r_value r)) <=? MAX_VALUE_SIZE) &&
  (r_ts r <? 2 ^ 64) && (r_exp r <? 2 ^ 64) = true -> rec_ok version r.
Proof.
  intros H. repeat (apply andb_true_iff in H; destruct H as [H ?]).
  repeat split; try (apply N.ltb_lt; assumption); try (apply N.leb_le; assumption). apply Nat.leb_le. assumption.
Qed.
Lemma ex7 : Forall (plain_ok (m_version ex_meta)) ex_its.
Proof.
  unfold ex_its. apply Forall_cons; [apply rec_ok_dec; vm_compute; reflexivity|].
  apply Forall_cons; [exact I|]. apply Forall_cons; [apply rec_ok_dec; vm_compute; reflexivity|]. apply Forall_nil.
Qed.
Lemma ex8 : distinct_keys (recs_of ex_its).
Proof. cbn [ex_its recs_of distinct_keys]. split; [intros r' [<-|[]]; vm_compute; reflexivity|]. split; [intros r' []|exact I]. Qed.
Lemma ex9 : forall r, In r (recs_of ex_its) -> N.of_nat (length (r_key r)) <= MAX_RECOVERABLE_KEY_SIZE.
Proof. intros r [<-|[<-|[]]]; apply N.leb_le; vm_compute; reflexivity. Qed.

Example a_legacy_file_meets_the_premises :
  let src := ex_src in let m := ex_meta in let its := ex_its in
  let total := N.of_nat (length src) in
  let mb := if select_meta (nth_block src 0) (nth_block src (N.to_nat FEOX_METADATA_BACKUP_BLOCK))
            then nth_block src (N.to_nat FEOX_METADATA_BACKUP_BLOCK) else nth_block src 0 in
  (17 <= length src)%nat /\
  list_eqb (firstn 8 mb) SIGNATURE = true /\ decode_meta mb = Some m /\ m_version m < 3 /\
  decode_journal (slot_bytes src 0) (slot_bytes src 1) total = Some (0, 1, []) /\
  total * FEOX_BLOCK_SIZE < U64 /\
  Forall (plain_ok (m_version m)) its /\ distinct_keys (recs_of its) /\
  (forall r, In r (recs_of its) -> N.of_nat (length (r_key r)) <= MAX_RECOVERABLE_KEY_SIZE) /\
  skipn (N.to_nat FEOX_DATA_START_BLOCK) src = ilayout (m_version m) FEOX_DATA_START_BLOCK its.
Proof.
  cbv zeta. fold ex_mb.
  split; [apply Nat.leb_le; exact ex1|]. split; [exact ex2|]. split; [exact ex3|]. split; [reflexivity|].
  split; [exact ex4|]. split; [apply N.ltb_lt; exact ex5|]. split; [exact ex7|]. split; [exact ex8|]. split; [exact ex9|exact ex6].
Qed.
