(* What a positive answer of the retirement gate means, and that its memo bits stay sound. *)
From Coq Require Import List NArith Bool Lia Arith.
From Feox Require Import Model.Gate.
Import ListNotations.
Local Open Scope N_scope.

(* from node c on, the chain reaches a durable generation or ends in a deleted one *)
Inductive good (l : list gnode) : nat -> Prop :=
| good_durable c n : nth_error l c = Some n -> 0 < gn_sector n -> good l c
| good_next c n s : nth_error l c = Some n -> gn_succ n = Some s -> good l s -> good l c
| good_deleted c n : nth_error l c = Some n -> gn_succ n = None -> gn_ref n = 0 -> good l c.

(* successors are created later: the chain is acyclic *)
Definition forward (l : list gnode) : Prop :=
  forall i n s, nth_error l i = Some n -> gn_succ n = Some s -> (i < s)%nat /\ (s < length l)%nat.

(* a memo bit is only ever set on a node whose successor chain is good *)
Definition memo_ok (l : list gnode) : Prop :=
  forall i n, nth_error l i = Some n -> gn_safe n = true -> exists s, gn_succ n = Some s /\ good l s.

Lemma gwalk_sound fuel : forall l cur path p, memo_ok l ->
  gwalk fuel l cur path = Some p -> good l cur /\ exists q, p = q ++ path /\ forall i, In i q -> exists n s, nth_error l i = Some n /\ gn_succ n = Some s /\ good l s.
Proof.
  induction fuel as [|f IH]; intros l cur path p M H; cbn [gwalk] in H; [discriminate|].
  destruct (nth_error l cur) as [c|] eqn:E; [|discriminate].
  destruct ((0 <? gn_sector c) || gn_safe c) eqn:D.
  - inversion H; subst p. split; [|exists []; split; [reflexivity | intros i []]].
    apply orb_true_iff in D. destruct D as [D|D].
    + apply N.ltb_lt in D. exact (good_durable l cur c E D).
    + destruct (M cur c E D) as [s [Hs Hg]]. exact (good_next l cur c s E Hs Hg).
  - destruct (gn_succ c) as [s|] eqn:S.
    + destruct (IH l s (cur :: path) p M H) as [G [q [Hq Hall]]].
      split; [exact (good_next l cur c s E S G)|].
      exists (q ++ [cur]). split; [rewrite Hq, <- app_assoc; reflexivity|].
      intros i Hi. apply in_app_or in Hi. destruct Hi as [Hi|[<-|[]]]; [exact (Hall i Hi)|].
      exists c, s. split; [exact E | split; [exact S | exact G]].
    + destruct (gn_ref c =? 0) eqn:R; [|discriminate]. inversion H; subst p. apply N.eqb_eq in R.
      split; [exact (good_deleted l cur c E S R) | exists []; split; [reflexivity | intros i []]].
Qed.

Lemma gwalk_complete : forall fuel l cur path, forward l -> (length l <= fuel + cur)%nat ->
  gwalk fuel l cur path = None -> ~ good l cur.
Proof.
  induction fuel as [|f IH]; intros l cur path F Hf H G.
  - assert (Hn : nth_error l cur = None) by (apply nth_error_None; lia).
    inversion G as [c n E _|c n s E _ _|c n E _ _]; subst; congruence.
  - cbn [gwalk] in H. destruct (nth_error l cur) as [c|] eqn:E.
    2:{ inversion G; congruence. }
    destruct ((0 <? gn_sector c) || gn_safe c) eqn:D; [discriminate|]. apply orb_false_iff in D. destruct D as [D1 D2]. apply N.ltb_ge in D1.
    destruct (gn_succ c) as [s|] eqn:S.
    + destruct (F cur c s E S) as [Hlt _].
      apply (IH l s (cur :: path) F ltac:(lia) H).
      inversion G as [c0 n E0 P|c0 n s0 E0 S0 G0|c0 n E0 S0 R0]; subst; rewrite E in E0; inversion E0; subst n; [lia | congruence | congruence].
    + destruct (gn_ref c =? 0) eqn:R; [discriminate|]. apply N.eqb_neq in R.
      inversion G as [c0 n E0 P|c0 n s0 E0 S0 G0|c0 n E0 S0 R0]; subst; rewrite E in E0; inversion E0; subst n; [lia | congruence | congruence].
Qed.

(* marking memo bits changes nothing else *)
Lemma nth_mark l i j : nth_error (mark l i) j =
  match nth_error l j with
  | Some n => Some (if Nat.eqb i j then mkgn (gn_sector n) (gn_ref n) (gn_succ n) true else n)
  | None => None
  end.
Proof.
  revert i j. induction l as [|n t IH]; intros i j; [destruct i, j; reflexivity|].
  destruct i, j; cbn; try reflexivity; [destruct (nth_error t j); reflexivity | apply IH].
Qed.

Lemma good_mark l i c : good l c <-> good (mark l i) c.
Proof.
  split.
  - induction 1 as [c n E P|c n s E S G IH|c n E S R].
    + eapply good_durable; [rewrite nth_mark, E; reflexivity|]. destruct (Nat.eqb i c); exact P.
    + eapply good_next; [rewrite nth_mark, E; reflexivity | destruct (Nat.eqb i c); exact S | exact IH].
    + eapply good_deleted; [rewrite nth_mark, E; reflexivity | destruct (Nat.eqb i c); exact S | destruct (Nat.eqb i c); exact R].
  - induction 1 as [c n E P|c n s E S G IH|c n E S R]; rewrite nth_mark in E; destruct (nth_error l c) as [n0|] eqn:E0; try discriminate; inversion E; subst n.
    + eapply good_durable; [exact E0|]. destruct (Nat.eqb i c); exact P.
    + eapply good_next; [exact E0 | destruct (Nat.eqb i c); exact S | exact IH].
    + eapply good_deleted; [exact E0 | destruct (Nat.eqb i c); exact S | destruct (Nat.eqb i c); exact R].
Qed.

Lemma memo_ok_mark l i : memo_ok l -> (forall n, nth_error l i = Some n -> exists s, gn_succ n = Some s /\ good l s) -> memo_ok (mark l i).
Proof.
  intros M Hi j n E Hs. rewrite nth_mark in E. destruct (nth_error l j) as [n0|] eqn:E0; [|discriminate]. inversion E; subst n. clear E.
  destruct (Nat.eqb i j) eqn:Eq.
  - apply Nat.eqb_eq in Eq. subst j. destruct (Hi n0 E0) as [s [A B]]. exists s. split; [exact A | apply good_mark; exact B].
  - destruct (M j n0 E0 Hs) as [s [A B]]. exists s. split; [exact A | apply good_mark; exact B].
Qed.

Lemma memo_ok_marks path : forall l, memo_ok l ->
  (forall i, In i path -> forall n, nth_error l i = Some n -> exists s, gn_succ n = Some s /\ good l s) -> memo_ok (fold_left mark path l).
Proof.
  induction path as [|i t IH]; intros l M H; [exact M|]. cbn [fold_left]. apply IH.
  - apply memo_ok_mark; [exact M | exact (H i (or_introl eq_refl))].
  - intros j Hj n E. rewrite nth_mark in E. destruct (nth_error l j) as [n0|] eqn:E0; [|discriminate].
    destruct (H j (or_intror Hj) n0 E0) as [s [A B]]. inversion E; subst n. exists s. split; [destruct (Nat.eqb i j); exact A | apply good_mark; exact B].
Qed.

(* MAIN 1: a positive answer means that the generation was deleted outright, or that its successor
   chain reaches a generation that is on the device or ends in a deleted one; the memo bits stay
   sound *)
Theorem gate_true_means_superseded_durably_or_deleted l x l' :
  memo_ok l -> gate l x = (true, l') ->
  memo_ok l' /\
  forall me, nth_error l x = Some me -> gn_succ me = None \/ exists s, gn_succ me = Some s /\ good l s.
Proof.
  intros M H. unfold gate in H. destruct (nth_error l x) as [me|] eqn:E.
  2:{ inversion H; subst. split; [exact M | intros me Hme; discriminate]. }
  destruct (gn_safe me) eqn:S.
  { inversion H; subst. split; [exact M|]. intros me0 Hme. inversion Hme; subst me0. right. exact (M x me E S). }
  destruct (gn_succ me) as [s|] eqn:Su.
  2:{ inversion H; subst. split; [exact M|]. intros me0 Hme. inversion Hme; subst me0. left. exact Su. }
  destruct (gwalk (length l) l s []) as [path|] eqn:W; [|discriminate].
  assert (El : l' = fold_left mark (x :: path) l) by congruence. subst l'. clear H.
  destruct (gwalk_sound _ _ _ _ _ M W) as [G [q [Hq Hall]]]. rewrite app_nil_r in Hq. subst q.
  split.
  - apply memo_ok_marks; [exact M|]. intros i [<-|Hi] n En.
    + rewrite E in En. inversion En; subst n. exists s. split; [exact Su | exact G].
    + destruct (Hall i Hi) as [n0 [s0 [A [B C]]]]. rewrite A in En. inversion En; subst n. exists s0. split; assumption.
  - intros me0 Hme. inversion Hme; subst me0. right. exists s. split; [exact Su | exact G].
Qed.

(* MAIN 2: the gate refuses only when the chain ends in a live generation that is not on the device *)
Theorem gate_false_means_successor_not_durable l x l' :
  forward l -> gate l x = (false, l') ->
  l' = l /\ exists me s, nth_error l x = Some me /\ gn_succ me = Some s /\ ~ good l s.
Proof.
  intros F H. unfold gate in H. destruct (nth_error l x) as [me|] eqn:E; [|discriminate].
  destruct (gn_safe me); [discriminate|]. destruct (gn_succ me) as [s|] eqn:Su; [|discriminate].
  destruct (gwalk (length l) l s []) as [path|] eqn:W; [discriminate|]. inversion H; subst l'. split; [reflexivity|].
  exists me, s. split; [reflexivity|]. split; [exact Su|]. apply (gwalk_complete (length l) l s [] F ltac:(lia) W).
Qed.

(* what `good` says in plain terms *)
Inductive reach (l : list gnode) : nat -> nat -> Prop :=
| reach_refl c : reach l c c
| reach_step c n s d : nth_error l c = Some n -> gn_succ n = Some s -> reach l s d -> reach l c d.

Theorem good_unfolds l c : good l c ->
  exists d n, reach l c d /\ nth_error l d = Some n /\ (0 < gn_sector n \/ (gn_succ n = None /\ gn_ref n = 0)).
Proof.
  induction 1 as [c n E P|c n s E S G IH|c n E S R].
  - exists c, n. split; [apply reach_refl | split; [exact E | left; exact P]].
  - destruct IH as [d [nd [Rd [Ed Hd]]]]. exists d, nd. split; [exact (reach_step l c n s d E S Rd) | split; assumption].
  - exists c, n. split; [apply reach_refl | split; [exact E | right; split; assumption]].
Qed.

(* ---- the memo bits stay sound while the store evolves ---- *)
Inductive gev :=
| GPublish (i : nat) (sector : N)      (* the flusher wrote generation i: sector set, non-zero *)
| GDelete (i : nat)                    (* generation i, current and live, is deleted *)
| GSupersede (i : nat).                (* generation i, current and live, is replaced by a new one (appended) *)

Fixpoint gupdate (l : list gnode) (i : nat) (f : gnode -> gnode) : list gnode :=
  match l, i with
  | [], _ => []
  | n :: t, O => f n :: t
  | n :: t, S k => n :: gupdate t k f
  end.

Definition gstep (l : list gnode) (e : gev) : list gnode :=
  match e with
  | GPublish i sector => if 0 <? sector then gupdate l i (fun n => mkgn sector (gn_ref n) (gn_succ n) (gn_safe n)) else l
  | GDelete i =>
      match nth_error l i with
      | Some n => if negb (gn_ref n =? 0) && match gn_succ n with None => true | Some _ => false end
                  then gupdate l i (fun n => mkgn (gn_sector n) 0 None (gn_safe n)) else l
      | None => l
      end
  | GSupersede i =>
      match nth_error l i with
      | Some n => if negb (gn_ref n =? 0) && match gn_succ n with None => true | Some _ => false end
                  then gupdate l i (fun n => mkgn (gn_sector n) 0 (Some (length l)) (gn_safe n)) ++ [mkgn 0 1 None false] else l
      | None => l
      end
  end.

Lemma nth_gupdate l i f j : nth_error (gupdate l i f) j =
  match nth_error l j with Some n => Some (if Nat.eqb i j then f n else n) | None => None end.
Proof.
  revert i j. induction l as [|n t IH]; intros i j; [destruct i, j; reflexivity|].
  destruct i, j; cbn; try reflexivity; [destruct (nth_error t j); reflexivity | apply IH].
Qed.

Lemma length_gupdate l i f : length (gupdate l i f) = length l.
Proof. revert i. induction l as [|n t IH]; intros i; [destruct i; reflexivity|]. destruct i; cbn; [reflexivity | rewrite IH; reflexivity]. Qed.

Lemma good_gstep l e c0 : good l c0 -> good (gstep l e) c0.
Proof.
  intros G. destruct e as [i sector|i|i]; cbn [gstep].
  - destruct (0 <? sector) eqn:P; [|exact G]. apply N.ltb_lt in P.
    induction G as [c n E Pn|c n s E S G IH|c n E S R].
    + eapply good_durable; [rewrite nth_gupdate, E; reflexivity|]. destruct (Nat.eqb i c); cbn; assumption.
    + eapply good_next; [rewrite nth_gupdate, E; reflexivity | destruct (Nat.eqb i c); exact S | exact IH].
    + destruct (Nat.eqb i c) eqn:Eq.
      * eapply good_durable; [rewrite nth_gupdate, E, Eq; reflexivity | exact P].
      * eapply good_deleted; [rewrite nth_gupdate, E, Eq; reflexivity | exact S | exact R].
  - destruct (nth_error l i) as [ni|] eqn:Ei; [|exact G].
    destruct (negb (gn_ref ni =? 0) && match gn_succ ni with None => true | Some _ => false end) eqn:C; [|exact G].
    apply andb_true_iff in C. destruct C as [C1 C2]. destruct (gn_succ ni) eqn:Si; [discriminate|].
    induction G as [c n E Pn|c n s E S G IH|c n E S R].
    + eapply good_durable; [rewrite nth_gupdate, E; reflexivity|]. destruct (Nat.eqb i c); cbn; assumption.
    + destruct (Nat.eqb i c) eqn:Eq; [apply Nat.eqb_eq in Eq; subst c; rewrite Ei in E; inversion E; subst n; congruence|].
      eapply good_next; [rewrite nth_gupdate, E, Eq; reflexivity | exact S | exact IH].
    + destruct (Nat.eqb i c) eqn:Eq.
      * eapply good_deleted; [rewrite nth_gupdate, E, Eq; reflexivity | reflexivity | reflexivity].
      * eapply good_deleted; [rewrite nth_gupdate, E, Eq; reflexivity | exact S | exact R].
  - destruct (nth_error l i) as [ni|] eqn:Ei; [|exact G].
    destruct (negb (gn_ref ni =? 0) && match gn_succ ni with None => true | Some _ => false end) eqn:C; [|exact G].
    apply andb_true_iff in C. destruct C as [C1 C2]. destruct (gn_succ ni) eqn:Si; [discriminate|]. apply negb_true_iff in C1. apply N.eqb_neq in C1.
    assert (Hn : forall c n, nth_error l c = Some n ->
              nth_error (gupdate l i (fun n0 => mkgn (gn_sector n0) 0 (Some (length l)) (gn_safe n0)) ++ [mkgn 0 1 None false]) c =
              Some (if Nat.eqb i c then mkgn (gn_sector n) 0 (Some (length l)) (gn_safe n) else n)).
    { intros c n E. rewrite nth_error_app1; [rewrite nth_gupdate, E; reflexivity|]. rewrite length_gupdate. apply nth_error_Some. congruence. }
    induction G as [c n E Pn|c n s E S G IH|c n E S R].
    + eapply good_durable; [rewrite (Hn c n E); reflexivity|]. destruct (Nat.eqb i c); cbn; assumption.
    + destruct (Nat.eqb i c) eqn:Eq; [apply Nat.eqb_eq in Eq; subst c; rewrite Ei in E; inversion E; subst n; congruence|].
      eapply good_next; [rewrite (Hn c n E), Eq; reflexivity | exact S | exact IH].
    + destruct (Nat.eqb i c) eqn:Eq; [apply Nat.eqb_eq in Eq; subst c; rewrite Ei in E; inversion E; subst n; congruence|].
      eapply good_deleted; [rewrite (Hn c n E), Eq; reflexivity | exact S | exact R].
Qed.

(* MAIN 3: publishing, deleting and superseding generations never invalidate a memo bit *)
Theorem memo_stays_sound l e : memo_ok l -> memo_ok (gstep l e).
Proof.
  intros M j n E Hs.
  assert (Key : exists n0, nth_error l j = Some n0 /\ gn_safe n0 = true /\ (gn_succ n0 = gn_succ n \/ gn_succ n0 = None)).
  { destruct e as [i sector|i|i]; cbn [gstep] in E.
    - destruct (0 <? sector); [|exists n; split; [exact E | split; [exact Hs | left; reflexivity]]].
      rewrite nth_gupdate in E. destruct (nth_error l j) as [n0|]; [|discriminate]. exists n0. split; [reflexivity|].
      inversion E; subst n. destruct (Nat.eqb i j); cbn in *; split; try assumption; left; reflexivity.
    - destruct (nth_error l i) as [ni|] eqn:Ei; [|exists n; split; [exact E | split; [exact Hs | left; reflexivity]]].
      destruct (negb (gn_ref ni =? 0) && match gn_succ ni with None => true | Some _ => false end) eqn:C; [|exists n; split; [exact E | split; [exact Hs | left; reflexivity]]].
      rewrite nth_gupdate in E. destruct (nth_error l j) as [n0|] eqn:E0; [|discriminate]. exists n0. split; [reflexivity|].
      inversion E; subst n. destruct (Nat.eqb i j) eqn:Eq; cbn in *; split; try assumption; [|left; reflexivity].
      apply Nat.eqb_eq in Eq. subst j. rewrite Ei in E0. inversion E0; subst n0. apply andb_true_iff in C. destruct C as [_ C2]. destruct (gn_succ ni); [discriminate | right; reflexivity].
    - destruct (nth_error l i) as [ni|] eqn:Ei; [|exists n; split; [exact E | split; [exact Hs | left; reflexivity]]].
      destruct (negb (gn_ref ni =? 0) && match gn_succ ni with None => true | Some _ => false end) eqn:C; [|exists n; split; [exact E | split; [exact Hs | left; reflexivity]]].
      destruct (Nat.lt_ge_cases j (length l)) as [Hlt|Hge].
      + rewrite nth_error_app1 in E by (rewrite length_gupdate; exact Hlt). rewrite nth_gupdate in E.
        destruct (nth_error l j) as [n0|] eqn:E0; [|discriminate]. exists n0. split; [reflexivity|].
        inversion E; subst n. destruct (Nat.eqb i j) eqn:Eq; cbn in *; split; try assumption; [|left; reflexivity].
        apply Nat.eqb_eq in Eq. subst j. rewrite Ei in E0. inversion E0; subst n0. apply andb_true_iff in C. destruct C as [_ C2]. destruct (gn_succ ni); [discriminate | right; reflexivity].
      + rewrite nth_error_app2 in E by (rewrite length_gupdate; exact Hge). rewrite length_gupdate in E.
        destruct (j - length l)%nat as [|k]; cbn in E; [inversion E; subst n; cbn in Hs; discriminate | destruct k; discriminate]. }
  destruct Key as [n0 [E0 [S0 Hsucc]]]. destruct (M j n0 E0 S0) as [s [A B]].
  destruct Hsucc as [Hsame|Hnone]; [|congruence]. exists s. split; [congruence | apply good_gstep; exact B].
Qed.
