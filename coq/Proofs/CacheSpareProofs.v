(* C16, last clause: eviction does not take recently referenced entries when unreferenced ones
   suffice.  Over Model/Cache.v: if evicting every unreferenced entry would bring the usage to the
   low watermark, evict_entries finishes within its first CLOCK pass, and a pass only clears the
   reference bit of a referenced entry -- every referenced entry is still there afterwards. *)
From Coq Require Import List NArith Bool Lia.
From Feox Require Import Gen.Constants Model.Bytes Model.Cache Proofs.CacheProofs.
Import ListNotations.
Local Open Scope N_scope.

Arguments N.add : simpl never.
Arguments N.sub : simpl never.
Arguments N.leb : simpl never.
Arguments N.ltb : simpl never.
Arguments N.eqb : simpl never.

Fixpoint usum (b : list centry) : N :=
  match b with [] => 0 | e :: t => (if ce_ref e then 0 else ce_size e) + usum t end.
Fixpoint utotal (l : list (N * list centry)) : N :=
  match l with [] => 0 | (_, b) :: t => usum b + utotal t end.

Definition kept (e : centry) (b' : list centry) : Prop :=
  exists e', In e' b' /\ ce_key e' = ce_key e /\ ce_val e' = ce_val e /\ ce_size e' = ce_size e.

Lemma kept_self e b : In e b -> kept e b.
Proof. intros H. exists e. repeat split; auto. Qed.

Lemma sweep_bucket_keeps_ref b : forall m target ev b' m' ev' done,
  sweep_bucket b m target ev = (b', m', ev', done) ->
  forall e, In e b -> ce_ref e = true -> kept e b'.
Proof.
  induction b as [|e0 t IH]; intros m target ev b' m' ev' done H e He Hr; [destruct He|].
  cbn [sweep_bucket] in H. destruct (ce_ref e0) eqn:R0.
  - destruct (m <=? target).
    + injection H as <- _ _ _. destruct He as [<-|He].
      * exists (mkce (ce_key e0) (ce_val e0) false (ce_size e0)). cbn. repeat split; auto.
      * apply kept_self. right. exact He.
    + destruct (sweep_bucket t m target ev) as [[[t' m1] ev1] d1] eqn:E. injection H as <- _ _ _.
      destruct He as [<-|He].
      * exists (mkce (ce_key e0) (ce_val e0) false (ce_size e0)). cbn. repeat split; auto.
      * destruct (IH _ _ _ _ _ _ _ E e He Hr) as (e' & A & B). exists e'. split; [right; exact A|exact B].
  - destruct He as [<-|He]; [congruence|].
    destruct (m - ce_size e0 <=? target).
    + injection H as <- _ _ _. apply kept_self. exact He.
    + exact (IH _ _ _ _ _ _ _ H e He Hr).
Qed.

Lemma sweep_bucket_notdone_usum b : forall m target ev b' m' ev',
  bsum b <= m -> sweep_bucket b m target ev = (b', m', ev', false) -> m' + usum b = m.
Proof.
  induction b as [|e0 t IH]; intros m target ev b' m' ev' Hle H; cbn [sweep_bucket] in H.
  - injection H as _ <- _ _. cbn. lia.
  - cbn [bsum] in Hle. cbn [usum]. destruct (ce_ref e0).
    + destruct (m <=? target); [discriminate|].
      destruct (sweep_bucket t m target ev) as [[[t' m1] ev1] d1] eqn:E. injection H as _ <- _ ->.
      assert (L : bsum t <= m) by lia. pose proof (IH _ _ _ _ _ _ L E). lia.
    + destruct (m - ce_size e0 <=? target); [discriminate|].
      assert (L : bsum t <= m - ce_size e0) by lia. pose proof (IH _ _ _ _ _ _ L H). lia.
Qed.

Lemma bget_bset_same i b l : sorted_idx l -> bget i (bset i b l) = b.
Proof.
  induction l as [|[k y] t IH]; intros HS; cbn.
  - destruct b; cbn; [reflexivity | rewrite N.eqb_refl; reflexivity].
  - destruct HS as (Hlt & HS'). destruct (N.eqb_spec k i) as [->|NE].
    + destruct b; cbn; [apply bget_above; intros k2 b2 Hk; exact (Hlt _ _ Hk) | rewrite N.eqb_refl; reflexivity].
    + destruct (N.ltb_spec i k).
      * destruct b; cbn.
        -- destruct (N.eqb_spec k i); [lia|]. destruct (N.ltb_spec i k); [reflexivity | lia].
        -- rewrite N.eqb_refl. reflexivity.
      * cbn. destruct (N.eqb_spec k i); [lia|]. destruct (N.ltb_spec i k); [lia|]. exact (IH HS').
Qed.

Lemma bget_bsum_le i l : sorted_idx l -> bsum (bget i l) <= total l.
Proof.
  induction l as [|[j x] t IH]; intros HS; cbn; [lia|].
  destruct HS as (_ & HS'). destruct (j =? i); [lia|]. destruct (i <? j); [cbn; lia|]. specialize (IH HS'). lia.
Qed.

Lemma sweep_pass_other order : forall all start m target ev all' m' ev' done vis,
  sorted_idx all -> sweep_pass order all start m target ev = (all', m', ev', done, vis) ->
  forall i, ~ In i (map fst order) -> bget i all' = bget i all.
Proof.
  induction order as [|[i0 b] t IH]; intros all start m target ev all' m' ev' done vis HS H i Hn; cbn [sweep_pass] in H.
  - injection H as <- _ _ _ _. reflexivity.
  - destruct (sweep_bucket b m target ev) as [[[b1 m1] ev1] d1] eqn:E.
    assert (NE : i0 <> i) by (intros ->; apply Hn; left; reflexivity).
    destruct d1.
    + injection H as <- _ _ _ _. apply bget_bset_other; assumption.
    + rewrite (IH _ _ _ _ _ _ _ _ _ _ (sorted_bset _ _ _ HS) H i (fun Hi => Hn (or_intror Hi))).
      apply bget_bset_other; assumption.
Qed.

Lemma sweep_pass_keeps_ref order : forall all start m target ev all' m' ev' done vis,
  sorted_idx all -> (forall i b, In (i, b) order -> bget i all = b) -> NoDup (map fst order) ->
  sweep_pass order all start m target ev = (all', m', ev', done, vis) ->
  forall i e, In e (bget i all) -> ce_ref e = true -> kept e (bget i all').
Proof.
  induction order as [|[i0 b] t IH]; intros all start m target ev all' m' ev' done vis HS HG ND H i e He Hr; cbn [sweep_pass] in H.
  - injection H as <- _ _ _ _. apply kept_self. exact He.
  - destruct (sweep_bucket b m target ev) as [[[b1 m1] ev1] d1] eqn:E.
    inversion ND as [|? ? Hni ND']; subst.
    assert (HS1 : sorted_idx (bset i0 b1 all)) by (apply sorted_bset; exact HS).
    assert (GB : bget i0 all = b) by (apply HG; left; reflexivity).
    assert (HG1 : forall k x, In (k, x) t -> bget k (bset i0 b1 all) = x).
    { intros k x Hin. assert (NE : i0 <> k).
      { intros ->. apply Hni. apply in_map_iff. exists (k, x). split; [reflexivity | exact Hin]. }
      rewrite bget_bset_other by assumption. apply HG. right. exact Hin. }
    destruct (N.eq_dec i i0) as [->|NE].
    + (* the bucket being swept: referenced entries stay (bit cleared); later buckets do not touch it *)
      rewrite GB in He. pose proof (sweep_bucket_keeps_ref _ _ _ _ _ _ _ _ E e He Hr) as K.
      destruct d1.
      * injection H as <- _ _ _ _. rewrite bget_bset_same by exact HS. exact K.
      * rewrite (sweep_pass_other _ _ _ _ _ _ _ _ _ _ _ HS1 H i0 Hni). rewrite bget_bset_same by exact HS. exact K.
    + assert (E1 : bget i (bset i0 b1 all) = bget i all) by (apply bget_bset_other; [exact HS|intros Z; apply NE; symmetry; exact Z]).
      destruct d1.
      * injection H as <- _ _ _ _. rewrite E1. apply kept_self. exact He.
      * apply (IH _ _ _ _ _ _ _ _ _ _ HS1 HG1 ND' H i e); [rewrite E1; exact He|exact Hr].
Qed.

Fixpoint osum (order : list (N * list centry)) : N :=
  match order with [] => 0 | (_, b) :: t => usum b + osum t end.

Lemma sweep_pass_notdone_usum order : forall all start m target ev all' m' ev' vis,
  BInv all m -> (forall i b, In (i, b) order -> bget i all = b) -> NoDup (map fst order) ->
  sweep_pass order all start m target ev = (all', m', ev', false, vis) -> m' + osum order = m.
Proof.
  induction order as [|[i0 b] t IH]; intros all start m target ev all' m' ev' vis HI HG ND H; cbn [sweep_pass] in H.
  - injection H as _ <- _ _. cbn. lia.
  - destruct (sweep_bucket b m target ev) as [[[b1 m1] ev1] d1] eqn:E. destruct d1; [discriminate|].
    assert (GB : bget i0 all = b) by (apply HG; left; reflexivity).
    destruct HI as (S & M & U).
    assert (LE : bsum b <= m) by (rewrite <- GB, M; apply bget_bsum_le; exact S).
    pose proof (sweep_bucket_notdone_usum _ _ _ _ _ _ _ LE E) as A1.
    destruct (sweep_bucket_spec _ _ _ _ _ _ _ _ LE E) as (A & B & C & D).
    assert (UB : keys_unique b) by (rewrite <- GB; apply bget_unique; auto).
    assert (HI1 : BInv (bset i0 b1 all) m1) by (apply (BInv_bset all m); [repeat split; auto|rewrite GB; lia|auto]).
    inversion ND as [|? ? Hni ND']; subst.
    assert (HG1 : forall k x, In (k, x) t -> bget k (bset i0 b1 all) = x).
    { intros k x Hin. assert (NE : i0 <> k).
      { intros ->. apply Hni. apply in_map_iff. exists (k, x). split; [reflexivity | exact Hin]. }
      rewrite bget_bset_other by assumption. apply HG. right. exact Hin. }
    pose proof (IH _ _ _ _ _ _ _ _ _ HI1 HG1 ND' H) as A2. cbn [osum]. lia.
Qed.

Lemma osum_filter_split (p : N * list centry -> bool) l :
  osum (filter p l) + osum (filter (fun x => negb (p x)) l) = utotal l.
Proof.
  induction l as [|[i b] t IH]; cbn; [reflexivity|]. destruct (p (i, b)); cbn; lia.
Qed.

Lemma osum_app a b : osum (a ++ b) = osum a + osum b.
Proof. induction a as [|[i x] t IH]; cbn; [reflexivity|]. rewrite IH. lia. Qed.

Lemma osum_rotate start l : osum (rotate_at start l) = utotal l.
Proof.
  unfold rotate_at. rewrite osum_app. rewrite <- (osum_filter_split (fun p => start <=? fst p) l). f_equal.
  f_equal. clear. induction l as [|[i b] t IH]; cbn; [reflexivity|].
  destruct (N.leb_spec start i); destruct (N.ltb_spec i start); cbn; try lia; rewrite IH; reflexivity.
Qed.

Theorem referenced_entries_are_spared c :
  CInv c -> cmem c <= low c + utotal (buckets c) ->
  forall i e, In e (bget i (buckets c)) -> ce_ref e = true -> kept e (bget i (buckets (cevict c))).
Proof.
  intros HI Hs i e He Hr. unfold cevict. destruct (cmem c <=? low c) eqn:E0; [apply kept_self; exact He|].
  destruct (evict_scans 3 (buckets c) (hand c) (cmem c) (low c) (evictions c)) as [[[bs h] m] ev] eqn:Es. cbn [buckets].
  apply CInv_BInv in HI. cbn [evict_scans] in Es. rewrite E0 in Es.
  set (start := hand c mod CACHE_BUCKETS) in *.
  destruct (sweep_pass (rotate_at start (buckets c)) (buckets c) start (cmem c) (low c) (evictions c))
    as [[[[bs1 m1] ev1] d1] v1] eqn:P1.
  assert (HG : forall j b, In (j, b) (rotate_at start (buckets c)) -> bget j (buckets c) = b).
  { intros j b Hin. apply bget_In; [apply HI|eapply In_rotate; eauto]. }
  pose proof (NoDup_rotate start _ (proj1 HI)) as ND.
  destruct d1.
  - injection Es as <- _ _ _. exact (sweep_pass_keeps_ref _ _ _ _ _ _ _ _ _ _ _ (proj1 HI) HG ND P1 i e He Hr).
  - exfalso. pose proof (sweep_pass_notdone_usum _ _ _ _ _ _ _ _ _ _ HI HG ND P1) as A. rewrite osum_rotate in A.
    destruct (sweep_pass_notdone _ _ _ _ _ _ _ _ _ _ (proj1 HI) HG ND P1) as (_ & Lt & _ & _).
    apply N.leb_gt in E0.
    destruct (rotate_at start (buckets c)) as [|p0 r0] eqn:Er.
    + cbn [sweep_pass] in P1. injection P1 as _ <- _ _. lia.
    + assert (low c < m1) by (apply Lt; discriminate). lia.
Qed.

(* the hypothesis is met by a cache whose unreferenced entries alone exceed the distance to the low
   watermark; and it is needed: with nothing unreferenced the sweep must take referenced entries *)
Theorem without_enough_unreferenced_some_referenced_entry_goes :
  exists c, CInv c /\ low c < cmem c /\ utotal (buckets c) = 0 /\ cmem (cevict c) < cmem c.
Proof.
  exists (mkcache [(3, [mkce [1] [2] true 10])] 0 8 4 10 0 0). split; [|vm_compute; repeat split; reflexivity].
  constructor; cbn.
  - split; [intros j b []|exact I].
  - reflexivity.
  - intros i b [[= <- <-]|[]]. cbn. split; [intros e' []|exact I].
Qed.
