(* Round trips of the checksummed metadata block and of a never-used journal (C10): what
   Metadata::encode writes, Metadata::from_bytes reads back, field for field. *)
From Coq Require Import List NArith Bool Lia Arith.
From Feox Require Import Gen.Constants Model.Bytes Model.Crc32c Model.Codec Proofs.CodecProofs Model.MetaJournal.
Import ListNotations.
Local Open Scope N_scope.

Lemma skipn_add' {A} a : forall b (l : list A), skipn (a + b) l = skipn b (skipn a l).
Proof. induction a as [|a IH]; intros b l; [reflexivity|]. destruct l; cbn; [destruct b; reflexivity|apply IH]. Qed.

Lemma sub_inner (l : list N) off k len : sub l (off + k) len = skipn k (sub l off (k + len)).
Proof. unfold sub. rewrite skipn_firstn_comm. replace (k + len - k)%nat with len by lia. rewrite skipn_add'. reflexivity. Qed.

Record meta_ok (m : meta) : Prop := {
  mo_version : 1 <= m_version m <= METADATA_VERSION;
  mo_records : m_records m < 2 ^ 64;
  mo_size : m_size m < 2 ^ 64;
  mo_device : 0 < m_device m <= MAX_DEVICE_SIZE;
  mo_block : m_block m = FEOX_BLOCK_SIZE;
  mo_frag : m_frag m < 2 ^ 32;
  mo_created : m_created m < 2 ^ 64;
  mo_updated : m_updated m < 2 ^ 64;
  mo_generation : m_generation m < 2 ^ 64;
  mo_tail : length (m_tail m) = 48%nat
}.

Lemma le4 x : x < 2 ^ 32 -> le_num [x mod 256; (x / 256) mod 256; (x / 256 / 256) mod 256; (x / 256 / 256 / 256) mod 256] = x.
Proof. intros H. change (le_num (le_bytes 4 x) = x). apply (le_num_le_bytes 4). exact H. Qed.

Lemma le8 x : x < 2 ^ 64 ->
  le_num [x mod 256; (x / 256) mod 256; (x / 256 / 256) mod 256; (x / 256 / 256 / 256) mod 256;
          (x / 256 / 256 / 256 / 256) mod 256; (x / 256 / 256 / 256 / 256 / 256) mod 256;
          (x / 256 / 256 / 256 / 256 / 256 / 256) mod 256; (x / 256 / 256 / 256 / 256 / 256 / 256 / 256) mod 256] = x.
Proof. intros H. change (le_num (le_bytes 8 x) = x). apply (le_num_le_bytes 8). exact H. Qed.

Theorem decode_encode_meta m : meta_ok m -> decode_meta (meta_block m) = Some m.
Proof.
  intros [Hv Hr Hs Hd Hb Hf Hc Hu Hg Ht].
  destruct m as [ver recs size dev blk frag created updated gen tail]. cbn [m_version m_records m_size m_device m_block m_frag m_created m_updated m_generation m_tail] in *.
  unfold meta_block, encode_meta. cbn [m_version m_records m_size m_device m_block m_frag m_created m_updated m_generation m_tail].
  set (pre := SIGNATURE ++ le_bytes 4 ver ++ zeros 4 ++ le_bytes 8 recs ++ le_bytes 8 size ++ le_bytes 8 dev ++
              le_bytes 4 blk ++ le_bytes 4 frag ++ le_bytes 8 created ++ le_bytes 8 updated).
  set (post := le_bytes 8 gen ++ tail).
  set (c := crc32c 0 (sub pre 0 12 ++ sub pre 16 48 ++ post)).
  assert (Cl : c < 2 ^ 32) by (apply crc32c_lt; lia).
  assert (Xl : N.lxor c MASK32 < 2 ^ 32) by (apply lxor_lt; [exact Cl|unfold MASK32; lia]).
  assert (Vl : ver < 2 ^ 32) by (unfold METADATA_VERSION in Hv; lia).
  assert (Bl : blk < 2 ^ 32) by (rewrite Hb; unfold FEOX_BLOCK_SIZE; lia).
  set (b := (pre ++ FM3C ++ le_bytes 4 c ++ le_bytes 4 (N.lxor c MASK32) ++ post ++ zeros 4) ++ zeros (BLOCK - 136)).
  assert (PL : length pre = 64%nat) by (unfold pre; rewrite !app_length, !le_bytes_length; reflexivity).
  assert (QL : length post = 56%nat) by (unfold post; rewrite app_length, le_bytes_length, Ht; reflexivity).
  assert (BL : (136 <= length b)%nat).
  { unfold b. rewrite !app_length, PL, QL, !le_bytes_length. cbn [length FM3C zeros repeat]. lia. }
  (* the slices *)
  assert (S_pre : forall off len, (off + len <= 64)%nat -> sub b off len = sub pre off len).
  { intros off len H. unfold b, sub. rewrite <- !app_assoc. rewrite skipn_app, firstn_app.
    rewrite skipn_length, PL. replace (len - (64 - off))%nat with 0%nat by lia. cbn [firstn]. rewrite app_nil_r. reflexivity. }
  assert (S_fm : sub b 64 4 = FM3C).
  { unfold b. rewrite <- !app_assoc. rewrite sub_app_ge by lia. rewrite PL, Nat.sub_diag. apply sub_0_app. reflexivity. }
  assert (S_c : sub b 68 4 = le_bytes 4 c).
  { unfold b. rewrite <- !app_assoc. rewrite sub_app_ge by lia. rewrite PL. rewrite sub_app_ge by (cbn; lia). cbn [length FM3C Nat.sub].
    apply sub_0_app. rewrite le_bytes_length. reflexivity. }
  assert (S_x : sub b 72 4 = le_bytes 4 (N.lxor c MASK32)).
  { unfold b. rewrite <- !app_assoc. rewrite sub_app_ge by lia. rewrite PL. rewrite sub_app_ge by (cbn; lia). cbn [length FM3C Nat.sub].
    rewrite sub_app_ge by (rewrite le_bytes_length; lia). rewrite le_bytes_length. cbn [Nat.sub].
    apply sub_0_app. rewrite le_bytes_length. reflexivity. }
  assert (S_post : sub b 76 56 = post).
  { unfold b. rewrite <- !app_assoc. rewrite sub_app_ge by lia. rewrite PL. rewrite sub_app_ge by (cbn; lia). cbn [length FM3C Nat.sub].
    rewrite sub_app_ge by (rewrite le_bytes_length; lia). rewrite le_bytes_length. cbn [Nat.sub].
    rewrite sub_app_ge by (rewrite le_bytes_length; lia). rewrite le_bytes_length. cbn [Nat.sub].
    apply sub_0_app. symmetry. exact QL. }
  assert (S_gen : sub b 76 8 = le_bytes 8 gen).
  { assert (E : sub b 76 8 = firstn 8 (sub b 76 56)) by (unfold sub; rewrite firstn_firstn; reflexivity).
    rewrite E, S_post. unfold post. apply firstn_app_exact. rewrite le_bytes_length. reflexivity. }
  assert (S_tail : sub b 84 48 = tail).
  { assert (E : sub b 84 48 = skipn 8 (sub b 76 56)) by (apply (sub_inner b 76 8 48)).
    rewrite E, S_post. unfold post. rewrite skipn_app, le_bytes_length, Nat.sub_diag.
    rewrite skipn_all2 by (rewrite le_bytes_length; lia). reflexivity. }
  (* fields of pre *)
  assert (P_sig : sub pre 0 8 = SIGNATURE) by reflexivity.
  assert (P_ver : u32_at b 8 = ver) by (unfold u32_at; rewrite S_pre by lia; unfold pre, sub; cbn [SIGNATURE app skipn firstn le_bytes]; apply le4; exact Vl).
  assert (P_rec : u64_at b 16 = recs) by (unfold u64_at; rewrite S_pre by lia; unfold pre, sub; cbn [SIGNATURE zeros repeat app skipn firstn le_bytes]; apply le8; exact Hr).
  assert (P_size : u64_at b 24 = size) by (unfold u64_at; rewrite S_pre by lia; unfold pre, sub; cbn [SIGNATURE zeros repeat app skipn firstn le_bytes]; apply le8; exact Hs).
  assert (P_dev : u64_at b 32 = dev) by (unfold u64_at; rewrite S_pre by lia; unfold pre, sub; cbn [SIGNATURE zeros repeat app skipn firstn le_bytes]; apply le8; unfold MAX_DEVICE_SIZE in Hd; lia).
  assert (P_blk : u32_at b 40 = blk) by (unfold u32_at; rewrite S_pre by lia; unfold pre, sub; cbn [SIGNATURE zeros repeat app skipn firstn le_bytes]; apply le4; exact Bl).
  assert (P_frag : u32_at b 44 = frag) by (unfold u32_at; rewrite S_pre by lia; unfold pre, sub; cbn [SIGNATURE zeros repeat app skipn firstn le_bytes]; apply le4; exact Hf).
  assert (P_cr : u64_at b 48 = created) by (unfold u64_at; rewrite S_pre by lia; unfold pre, sub; cbn [SIGNATURE zeros repeat app skipn firstn le_bytes]; apply le8; exact Hc).
  assert (P_up : u64_at b 56 = updated) by (unfold u64_at; rewrite S_pre by lia; unfold pre, sub; cbn [SIGNATURE zeros repeat app skipn firstn le_bytes]; apply le8; exact Hu).
  assert (P_gen : u64_at b 76 = gen) by (unfold u64_at; rewrite S_gen; apply (le_num_le_bytes 8); exact Hg).
  assert (P_c : u32_at b 68 = c) by (unfold u32_at; rewrite S_c; apply (le_num_le_bytes 4); exact Cl).
  assert (P_x : u32_at b 72 = N.lxor c MASK32) by (unfold u32_at; rewrite S_x; apply (le_num_le_bytes 4); exact Xl).
  assert (CK : meta_checksum b = c) by (unfold meta_checksum; rewrite !S_pre by lia; rewrite S_post; reflexivity).
  fold b. unfold decode_meta.
  destruct (Nat.ltb_spec (length b) 136); [lia|].
  rewrite (S_pre 0 8)%nat by lia. rewrite P_sig, list_eqb_refl. cbn [negb].
  rewrite P_blk, Hb, N.eqb_refl. cbn [negb]. rewrite P_ver.
  destruct (N.eqb_spec ver 0); [lia|]. destruct (N.ltb_spec METADATA_VERSION ver); [lia|]. cbn [orb].
  rewrite P_dev. destruct (N.eqb_spec dev 0); [lia|]. destruct (N.ltb_spec MAX_DEVICE_SIZE dev); [lia|]. cbn [orb].
  rewrite S_fm, list_eqb_refl. cbn [negb]. rewrite andb_false_r.
  rewrite P_c, P_x, CK, !N.eqb_refl. cbn [andb].
  rewrite P_rec, P_size, P_frag, P_cr, P_up, P_gen, S_tail. reflexivity.
Qed.

(* a journal that has never been written decodes to "clear, generation 0" *)
Theorem never_written_journal_is_clear s0 s1 total : all_zero s0 = true -> all_zero s1 = true ->
  decode_journal s0 s1 total = Some (0, 1, []).
Proof. intros H0 H1. unfold decode_journal. rewrite H0, H1. reflexivity. Qed.

(* ---- the journal slot of a quiescent file: the CLEAR record encode_clear writes, whatever the
   rest of the slot still holds from earlier, longer records ---- *)
Theorem clear_journal_slot_roundtrip g rest total :
  0 < g -> g < 2 ^ 64 ->
  decode_slot (encode_journal g JOURNAL_CLEAR [] ++ rest) total = Some (g, []).
Proof.
  intros G0 G1. unfold encode_journal. cbn [length encode_entries].
  assert (SZ : N.to_nat (journal_image_size (N.of_nat 0)) = 4096%nat) by (vm_compute; reflexivity).
  rewrite SZ.
  set (raw := JOURNAL_MAGIC ++ le_bytes 4 JOURNAL_VERSION ++ zeros 4 ++ le_bytes 8 g ++ le_bytes 4 JOURNAL_CLEAR ++
              le_bytes 4 (N.of_nat 0) ++ zeros 8 ++ []).
  assert (RL : length raw = 40%nat) by (unfold raw; rewrite !app_length, !le_bytes_length; reflexivity).
  rewrite RL. set (pad := zeros (4096 - 40)).
  assert (PL : length pad = 4056%nat) by (unfold pad, zeros; rewrite repeat_length; reflexivity).
  set (img := raw ++ pad).
  set (c := journal_checksum img).
  assert (Cl : c < 2 ^ 32) by (unfold c, journal_checksum; apply crc32c_lt; lia).
  assert (Xl : N.lxor c MASK32 < 2 ^ 32) by (apply lxor_lt; [exact Cl|unfold MASK32; lia]).
  (* the image with its first 40 bytes spelled out *)
  assert (IMG : exists b0 b1 b2 b3 b4 b5 b6 b7 b8 b9 b10 b11 b12 b13 b14 b15 t16 t36,
             img = b0 :: b1 :: b2 :: b3 :: b4 :: b5 :: b6 :: b7 :: b8 :: b9 :: b10 :: b11 :: b12 :: b13 :: b14 :: b15 :: t16 ++ (0 :: 0 :: 0 :: 0 :: t36) /\
             length t16 = 16%nat /\
             splice (splice img 12 (le_bytes 4 c)) 32 (le_bytes 4 (N.lxor c MASK32)) =
             b0 :: b1 :: b2 :: b3 :: b4 :: b5 :: b6 :: b7 :: b8 :: b9 :: b10 :: b11 :: le_bytes 4 c ++ t16 ++ le_bytes 4 (N.lxor c MASK32) ++ t36 /\
             skipn 36 img = t36 /\ sub img 16 16 = t16 /\
             [b0; b1; b2; b3; b4; b5; b6; b7] = JOURNAL_MAGIC /\
             le_num [b8; b9; b10; b11] = JOURNAL_VERSION /\
             le_num (firstn 8 t16) = g /\ le_num (firstn 4 (skipn 8 t16)) = JOURNAL_CLEAR /\ le_num (firstn 4 (skipn 12 t16)) = 0).
  { unfold img, raw. cbn [JOURNAL_MAGIC le_bytes zeros repeat app N.of_nat].
    do 16 eexists. exists [g mod 256; (g / 256) mod 256; (g / 256 / 256) mod 256; (g / 256 / 256 / 256) mod 256;
                          (g / 256 / 256 / 256 / 256) mod 256; (g / 256 / 256 / 256 / 256 / 256) mod 256;
                          (g / 256 / 256 / 256 / 256 / 256 / 256) mod 256; (g / 256 / 256 / 256 / 256 / 256 / 256 / 256) mod 256;
                          JOURNAL_CLEAR mod 256; (JOURNAL_CLEAR / 256) mod 256; (JOURNAL_CLEAR / 256 / 256) mod 256; (JOURNAL_CLEAR / 256 / 256 / 256) mod 256;
                          0 mod 256; (0 / 256) mod 256; (0 / 256 / 256) mod 256; (0 / 256 / 256 / 256) mod 256].
    exists (0 :: 0 :: 0 :: 0 :: pad).
    split; [reflexivity|]. split; [reflexivity|]. split; [reflexivity|]. split; [reflexivity|]. split; [reflexivity|].
    split; [reflexivity|]. split; [vm_compute; reflexivity|]. split; [cbn [firstn]; apply le8; exact G1|]. split; vm_compute; reflexivity. }
  destruct IMG as (b0 & b1 & b2 & b3 & b4 & b5 & b6 & b7 & b8 & b9 & b10 & b11 & b12 & b13 & b14 & b15 & t16 & t36 &
                   EI & L16 & ES & E36 & E16 & EM & EV & EG & EST & ECN).
  rewrite ES. clear ES.
  set (d := (b0 :: b1 :: b2 :: b3 :: b4 :: b5 :: b6 :: b7 :: b8 :: b9 :: b10 :: b11 :: le_bytes 4 c ++ t16 ++ le_bytes 4 (N.lxor c MASK32) ++ t36) ++ rest).
  do 16 (destruct t16 as [|? t16]; [discriminate|]). destruct t16; [|discriminate].
  cbn [firstn skipn] in EG, EST, ECN.
  assert (D0 : sub d 0 8 = JOURNAL_MAGIC) by (rewrite <- EM; reflexivity).
  assert (D8 : u32_at d 8 = JOURNAL_VERSION) by (rewrite <- EV; reflexivity).
  assert (D12 : u32_at d 12 = c) by (unfold u32_at, d, sub; cbn [le_bytes app skipn firstn]; apply le4; exact Cl).
  assert (D16 : u64_at d 16 = g) by (rewrite <- EG; reflexivity).
  assert (D24 : u32_at d 24 = JOURNAL_CLEAR) by (rewrite <- EST; reflexivity).
  assert (D28 : u32_at d 28 = 0) by (rewrite <- ECN; reflexivity).
  assert (D32 : u32_at d 32 = N.lxor c MASK32) by (unfold u32_at, d, sub; cbn [le_bytes app skipn firstn]; apply le4; exact Xl).
  unfold decode_slot. rewrite D0, list_eqb_refl. cbn [negb]. rewrite D8.
  replace ((JOURNAL_VERSION =? FULL_SLOT_CHECKSUM_VERSION) || (JOURNAL_VERSION =? JOURNAL_VERSION)) with true by reflexivity.
  cbn [negb]. rewrite D16, D24, D28.
  destruct (N.eqb_spec g 0); [lia|].
  replace ((false || (ALLOCATION_JOURNAL_MAX_ENTRIES <? 0) || negb ((JOURNAL_CLEAR =? JOURNAL_CLEAR) || (JOURNAL_CLEAR =? JOURNAL_ACTIVE)) ||
            (JOURNAL_CLEAR =? JOURNAL_CLEAR) && negb (0 =? 0) || (JOURNAL_CLEAR =? JOURNAL_ACTIVE) && (0 =? 0))) with false by reflexivity.
  replace (JOURNAL_VERSION =? FULL_SLOT_CHECKSUM_VERSION) with false by reflexivity.
  replace (N.to_nat (journal_image_size 0)) with 4096%nat by (vm_compute; reflexivity).
  rewrite D12, D32, N.eqb_refl.
  assert (CK : journal_checksum (firstn 4096 d) = c).
  { assert (F : firstn 4096 d = b0 :: b1 :: b2 :: b3 :: b4 :: b5 :: b6 :: b7 :: b8 :: b9 :: b10 :: b11 :: le_bytes 4 c ++
                                 (n :: n0 :: n1 :: n2 :: n3 :: n4 :: n5 :: n6 :: n7 :: n8 :: n9 :: n10 :: n11 :: n12 :: n13 :: n14 :: []) ++
                                 le_bytes 4 (N.lxor c MASK32) ++ t36).
    { unfold d. apply firstn_app_exact. cbn [length app le_bytes]. rewrite <- E36. rewrite skipn_length.
      unfold img. rewrite app_length, RL, PL. reflexivity. }
    rewrite F. unfold c, journal_checksum. f_equal.
    rewrite EI. unfold sub. cbn [le_bytes app skipn firstn]. rewrite <- E36. rewrite EI. cbn [skipn]. reflexivity. }
  rewrite CK, N.eqb_refl. cbn [andb negb].
  replace (N.to_nat 0) with 0%nat by reflexivity. cbn [decode_entries sort_by_start fold_right no_overlap_sorted]. reflexivity.
Qed.

Lemma encode_journal_not_zero g st exts rest : all_zero (encode_journal g st exts ++ rest) = false.
Proof.
  unfold encode_journal.
  set (img := (JOURNAL_MAGIC ++ _) ++ _). set (c := journal_checksum img).
  assert (E : exists t, img = 0 :: 70 :: t) by (unfold img; cbn [JOURNAL_MAGIC app]; eexists; reflexivity).
  destruct E as (t & ->). destruct t as [|a1 [|a2 [|a3 [|a4 [|a5 [|a6 [|a7 [|a8 [|a9 [|a10 t]]]]]]]]]]; reflexivity.
Qed.

(* one slot holds a CLEAR record of generation g, the other has never been written, or holds an
   older CLEAR record: the journal decodes to "clear" *)
Theorem journal_with_clear_records_decodes_clear g rest0 s1 total :
  0 < g -> g < 2 ^ 64 -> all_zero s1 = true ->
  decode_journal (encode_journal g JOURNAL_CLEAR [] ++ rest0) s1 total = Some (g, 0, []).
Proof.
  intros G0 G1 Z. unfold decode_journal. rewrite encode_journal_not_zero, Z.
  rewrite clear_journal_slot_roundtrip by assumption. reflexivity.
Qed.

Theorem journal_with_two_clear_records_decodes_clear g0 g1 rest0 rest1 total :
  0 < g0 -> g0 < 2 ^ 64 -> 0 < g1 -> g1 < 2 ^ 64 ->
  exists g slot, decode_journal (encode_journal g0 JOURNAL_CLEAR [] ++ rest0) (encode_journal g1 JOURNAL_CLEAR [] ++ rest1) total
                 = Some (g, slot, []).
Proof.
  intros A0 A1 B0 B1. unfold decode_journal. rewrite !encode_journal_not_zero.
  rewrite !clear_journal_slot_roundtrip by assumption. destruct (g1 <? g0); eexists; eexists; reflexivity.
Qed.

(* ---- a journal record with entries (ACTIVE): the extents it names are read back ---- *)
Definition ext_valid (total : N) (x : N * N) : Prop :=
  fst x < 2 ^ 32 /\ snd x < 2 ^ 32 /\ FEOX_DATA_START_BLOCK <= fst x /\ 0 < snd x /\ fst x + snd x <= total.

Lemma decode_entries_app total exts : forall pre post,
  Forall (ext_valid total) exts ->
  decode_entries (pre ++ encode_entries exts ++ post) (length pre) (length exts) total = Some exts.
Proof.
  induction exts as [|[s n] t IH]; intros pre post H; [reflexivity|].
  pose proof (Forall_inv H) as (S32 & N32 & Sd & Np & St). pose proof (Forall_inv_tail H) as Ht. cbn [fst snd] in *.
  cbn [length decode_entries encode_entries].
  assert (U1 : u32_at (pre ++ (le_bytes 4 s ++ le_bytes 4 n ++ encode_entries t) ++ post) (length pre) = s).
  { unfold u32_at. rewrite sub_app_ge by lia. rewrite Nat.sub_diag. rewrite <- !app_assoc.
    rewrite sub_0_app by (rewrite le_bytes_length; reflexivity). apply (le_num_le_bytes 4). exact S32. }
  assert (U2 : u32_at (pre ++ (le_bytes 4 s ++ le_bytes 4 n ++ encode_entries t) ++ post) (length pre + 4) = n).
  { unfold u32_at. rewrite sub_app_ge by lia. replace (length pre + 4 - length pre)%nat with 4%nat by lia. rewrite <- !app_assoc.
    rewrite sub_app_ge by (rewrite le_bytes_length; lia). rewrite le_bytes_length, Nat.sub_diag.
    rewrite sub_0_app by (rewrite le_bytes_length; reflexivity). apply (le_num_le_bytes 4). exact N32. }
  rewrite U1, U2.
  destruct (N.ltb_spec total (s + n)); [lia|]. destruct (N.ltb_spec s FEOX_DATA_START_BLOCK); [lia|]. destruct (N.eqb_spec n 0); [lia|]. cbn [orb].
  assert (E : pre ++ (le_bytes 4 s ++ le_bytes 4 n ++ encode_entries t) ++ post = (pre ++ le_bytes 4 s ++ le_bytes 4 n) ++ encode_entries t ++ post)
    by (rewrite <- !app_assoc; reflexivity).
  rewrite E. replace (length pre + 8)%nat with (length (pre ++ le_bytes 4 s ++ le_bytes 4 n)) by (rewrite !app_length, !le_bytes_length; lia).
  rewrite (IH _ post Ht). reflexivity.
Qed.

Lemma journal_size_fits count : (40 + 8 * N.to_nat count <= N.to_nat (journal_image_size count))%nat.
Proof.
  unfold journal_image_size, blocks_for, JOURNAL_HEADER_SIZE, JOURNAL_ENTRY_SIZE, FEOX_BLOCK_SIZE.
  assert (Z4 : 4096 <> 0) by lia.
  pose proof (N.div_mod (40 + count * 8 + 4096 - 1) 4096 Z4) as D.
  pose proof (N.mod_upper_bound (40 + count * 8 + 4096 - 1) 4096 Z4) as M.
  generalize dependent ((40 + count * 8 + 4096 - 1) / 4096). generalize dependent ((40 + count * 8 + 4096 - 1) mod 4096). intros m M q D. lia.
Qed.

Lemma encode_entries_length exts : length (encode_entries exts) = (8 * length exts)%nat.
Proof. induction exts as [|[s n] t IH]; [reflexivity|]. cbn [encode_entries length]. rewrite !app_length, !le_bytes_length, IH. lia. Qed.

Theorem journal_record_roundtrip g state exts rest total :
  0 < g -> g < 2 ^ 64 ->
  (state = JOURNAL_CLEAR /\ exts = []) \/ (state = JOURNAL_ACTIVE /\ exts <> []) ->
  N.of_nat (length exts) <= ALLOCATION_JOURNAL_MAX_ENTRIES ->
  Forall (ext_valid total) exts -> no_overlap_sorted (sort_by_start exts) = true ->
  decode_slot (encode_journal g state exts ++ rest) total = Some (g, exts).
Proof.
  intros G0 G1 Hst Hcnt Hval Hov. unfold encode_journal.
  set (count := N.of_nat (length exts)) in *.
  assert (C32 : count < 2 ^ 32) by (unfold ALLOCATION_JOURNAL_MAX_ENTRIES in Hcnt; lia).
  assert (St32 : state < 2 ^ 32) by (destruct Hst as [[-> _]|[-> _]]; vm_compute; reflexivity).
  set (size := N.to_nat (journal_image_size count)).
  set (raw := JOURNAL_MAGIC ++ le_bytes 4 JOURNAL_VERSION ++ zeros 4 ++ le_bytes 8 g ++ le_bytes 4 state ++
              le_bytes 4 count ++ zeros 8 ++ encode_entries exts).
  assert (RL : length raw = (40 + 8 * length exts)%nat).
  { unfold raw. rewrite !app_length, !le_bytes_length, encode_entries_length. reflexivity. }
  assert (FIT : (length raw <= size)%nat).
  { rewrite RL. pose proof (journal_size_fits count). unfold size, count in *. lia. }
  set (pad := zeros (size - length raw)).
  assert (PL : length pad = (size - length raw)%nat) by (unfold pad, zeros; apply repeat_length).
  set (img := raw ++ pad).
  set (c := journal_checksum img).
  assert (Cl : c < 2 ^ 32) by (unfold c, journal_checksum; apply crc32c_lt; lia).
  assert (Xl : N.lxor c MASK32 < 2 ^ 32) by (apply lxor_lt; [exact Cl|unfold MASK32; lia]).
  set (tail := encode_entries exts ++ pad).
  assert (IMG : exists b0 b1 b2 b3 b4 b5 b6 b7 b8 b9 b10 b11 b12 b13 b14 b15 t16 t36,
             img = b0 :: b1 :: b2 :: b3 :: b4 :: b5 :: b6 :: b7 :: b8 :: b9 :: b10 :: b11 :: b12 :: b13 :: b14 :: b15 :: t16 ++ (0 :: 0 :: 0 :: 0 :: t36) /\
             length t16 = 16%nat /\
             splice (splice img 12 (le_bytes 4 c)) 32 (le_bytes 4 (N.lxor c MASK32)) =
             b0 :: b1 :: b2 :: b3 :: b4 :: b5 :: b6 :: b7 :: b8 :: b9 :: b10 :: b11 :: le_bytes 4 c ++ t16 ++ le_bytes 4 (N.lxor c MASK32) ++ t36 /\
             skipn 36 img = t36 /\ t36 = 0 :: 0 :: 0 :: 0 :: tail /\
             [b0; b1; b2; b3; b4; b5; b6; b7] = JOURNAL_MAGIC /\
             le_num [b8; b9; b10; b11] = JOURNAL_VERSION /\
             le_num (firstn 8 t16) = g /\ le_num (firstn 4 (skipn 8 t16)) = state /\ le_num (firstn 4 (skipn 12 t16)) = count).
  { unfold img, raw. cbn [JOURNAL_MAGIC le_bytes zeros repeat app]. fold tail.
    do 16 eexists. exists [g mod 256; (g / 256) mod 256; (g / 256 / 256) mod 256; (g / 256 / 256 / 256) mod 256;
                          (g / 256 / 256 / 256 / 256) mod 256; (g / 256 / 256 / 256 / 256 / 256) mod 256;
                          (g / 256 / 256 / 256 / 256 / 256 / 256) mod 256; (g / 256 / 256 / 256 / 256 / 256 / 256 / 256) mod 256;
                          state mod 256; (state / 256) mod 256; (state / 256 / 256) mod 256; (state / 256 / 256 / 256) mod 256;
                          count mod 256; (count / 256) mod 256; (count / 256 / 256) mod 256; (count / 256 / 256 / 256) mod 256].
    exists (0 :: 0 :: 0 :: 0 :: tail).
    split; [try rewrite <- !app_assoc; reflexivity|]. split; [reflexivity|]. split; [try rewrite <- !app_assoc; reflexivity|]. split; [try rewrite <- !app_assoc; reflexivity|]. split; [reflexivity|].
    split; [reflexivity|]. split; [vm_compute; reflexivity|]. split; [cbn [firstn]; apply le8; exact G1|].
    split; [cbn [firstn skipn]; apply le4; exact St32|cbn [firstn skipn]; apply le4; exact C32]. }
  destruct IMG as (b0 & b1 & b2 & b3 & b4 & b5 & b6 & b7 & b8 & b9 & b10 & b11 & b12 & b13 & b14 & b15 & t16 & t36 &
                   EI & L16 & ES & E36 & ET & EM & EV & EG & EST & ECN).
  rewrite ES. clear ES.
  do 16 (destruct t16 as [|? t16]; [discriminate|]). destruct t16; [|discriminate].
  cbn [firstn skipn] in EG, EST, ECN.
  set (pre40 := b0 :: b1 :: b2 :: b3 :: b4 :: b5 :: b6 :: b7 :: b8 :: b9 :: b10 :: b11 :: le_bytes 4 c ++
                (n :: n0 :: n1 :: n2 :: n3 :: n4 :: n5 :: n6 :: n7 :: n8 :: n9 :: n10 :: n11 :: n12 :: n13 :: n14 :: []) ++
                le_bytes 4 (N.lxor c MASK32) ++ [0; 0; 0; 0]).
  set (d := (b0 :: b1 :: b2 :: b3 :: b4 :: b5 :: b6 :: b7 :: b8 :: b9 :: b10 :: b11 :: le_bytes 4 c ++
             (n :: n0 :: n1 :: n2 :: n3 :: n4 :: n5 :: n6 :: n7 :: n8 :: n9 :: n10 :: n11 :: n12 :: n13 :: n14 :: []) ++
             le_bytes 4 (N.lxor c MASK32) ++ t36) ++ rest).
  assert (DD : d = pre40 ++ encode_entries exts ++ (pad ++ rest)).
  { unfold d, pre40. rewrite ET. unfold tail. cbn [le_bytes app]. rewrite <- !app_assoc. reflexivity. }
  assert (P40 : length pre40 = 40%nat) by reflexivity.
  assert (D0 : sub d 0 8 = JOURNAL_MAGIC) by (rewrite <- EM; reflexivity).
  assert (D8 : u32_at d 8 = JOURNAL_VERSION) by (rewrite <- EV; reflexivity).
  assert (D12 : u32_at d 12 = c) by (unfold u32_at, d, sub; cbn [le_bytes app skipn firstn]; apply le4; exact Cl).
  assert (D16 : u64_at d 16 = g) by (rewrite <- EG; reflexivity).
  assert (D24 : u32_at d 24 = state) by (rewrite <- EST; reflexivity).
  assert (D28 : u32_at d 28 = count) by (rewrite <- ECN; reflexivity).
  assert (D32 : u32_at d 32 = N.lxor c MASK32) by (unfold u32_at, d, sub; cbn [le_bytes app skipn firstn]; apply le4; exact Xl).
  assert (IL : length img = size) by (unfold img; rewrite app_length, PL; lia).
  unfold decode_slot. rewrite D0, list_eqb_refl. cbn [negb]. rewrite D8.
  replace ((JOURNAL_VERSION =? FULL_SLOT_CHECKSUM_VERSION) || (JOURNAL_VERSION =? JOURNAL_VERSION)) with true by reflexivity.
  cbn [negb]. rewrite D16, D24, D28.
  destruct (N.eqb_spec g 0); [lia|].
  destruct (N.ltb_spec ALLOCATION_JOURNAL_MAX_ENTRIES count); [lia|]. cbn [orb].
  assert (SV : (negb ((state =? JOURNAL_CLEAR) || (state =? JOURNAL_ACTIVE)) || (state =? JOURNAL_CLEAR) && negb (count =? 0) ||
                (state =? JOURNAL_ACTIVE) && (count =? 0)) = false).
  { destruct Hst as [[-> ->]|[-> Hne]]; [reflexivity|].
    assert (count <> 0) by (unfold count; destruct exts; [contradiction|cbn; lia]).
    destruct (N.eqb_spec count 0); [contradiction|]. reflexivity. }
  rewrite SV.
  replace (JOURNAL_VERSION =? FULL_SLOT_CHECKSUM_VERSION) with false by reflexivity.
  fold size. rewrite D12, D32, N.eqb_refl.
  assert (CK : journal_checksum (firstn size d) = c).
  { assert (F : firstn size d = b0 :: b1 :: b2 :: b3 :: b4 :: b5 :: b6 :: b7 :: b8 :: b9 :: b10 :: b11 :: le_bytes 4 c ++
                                 (n :: n0 :: n1 :: n2 :: n3 :: n4 :: n5 :: n6 :: n7 :: n8 :: n9 :: n10 :: n11 :: n12 :: n13 :: n14 :: []) ++
                                 le_bytes 4 (N.lxor c MASK32) ++ t36).
    { unfold d. apply firstn_app_exact. cbn [length app le_bytes]. rewrite <- E36. rewrite skipn_length, IL.
      assert (36 <= size)%nat by (rewrite RL in FIT; lia). lia. }
    rewrite F. unfold c, journal_checksum. f_equal.
    rewrite EI. unfold sub. cbn [le_bytes app skipn firstn]. rewrite <- E36. rewrite EI. cbn [skipn]. reflexivity. }
  rewrite CK, N.eqb_refl. cbn [andb negb].
  replace (N.to_nat JOURNAL_HEADER_SIZE) with (length pre40) by reflexivity.
  replace (N.to_nat count) with (length exts) by (unfold count; rewrite Nat2N.id; reflexivity).
  rewrite DD. rewrite decode_entries_app by exact Hval. rewrite Hov. reflexivity.
Qed.
