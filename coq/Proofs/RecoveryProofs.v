(* Proofs about Model/Recovery.v: opening never panics / always terminates (no fuel exhaustion,
   strict progress of the scan), and rejected-for-metadata/size opens leave the image untouched. *)
From Coq Require Import List NArith Bool Lia Arith.
From Feox Require Import Gen.Constants Model.Bytes Model.Crc32c Model.Codec Model.MetaJournal Model.FreeSpace Model.Recovery.
Import ListNotations.
Local Open Scope N_scope.

Arguments N.add : simpl never.
Arguments N.sub : simpl never.
Arguments N.mul : simpl never.
Arguments N.ltb : simpl never.
Arguments N.leb : simpl never.
Arguments N.eqb : simpl never.

(* ---------- lengths are preserved by every write ---------- *)
Lemma set_blocks_length img s bs : length (set_blocks img s bs) = length img.
Proof.
  unfold set_blocks. rewrite !app_length, !firstn_length, skipn_length. lia.
Qed.

Lemma write_markers_length exts : forall img, length (write_markers img exts) = length img.
Proof.
  induction exts as [|[s n] t IH]; intros img; simpl; auto. rewrite IH. apply set_blocks_length.
Qed.

Lemma write_journal_length img slot g st exts : length (write_journal img slot g st exts) = length img.
Proof. unfold write_journal. apply set_blocks_length. Qed.

Lemma replay_length img p exts :
  match replay img p exts with
  | ReplayOk img1 _ => length img1 = length img
  | ReplayExhausted img1 => length img1 = length img
  | ReplayCoalesce => True
  end.
Proof.
  unfold replay. destruct exts; auto. destruct (coalesce _); auto.
  destruct (negb _); [apply write_markers_length|].
  rewrite write_journal_length. apply write_markers_length.
Qed.

(* ---------- parse_head never hits an out-of-range slice ---------- *)
Lemma sub_opt_some l off len : (off + len <= length l)%nat -> exists x, sub_opt l off len = Some x.
Proof. intros H. unfold sub_opt. destruct (Nat.leb_spec (off + len) (length l)); [eauto|lia]. Qed.

Lemma parse_head_total version data : parse_head version data <> None.
Proof.
  unfold parse_head.
  destruct (Nat.ltb_spec (length data) 6); [discriminate|].
  set (k := N.to_nat (u16_at data 4)).
  destruct (has_expiry version).
  - destruct (Nat.ltb_spec (length data) (6 + k + 24)); [discriminate|].
    destruct (sub_opt_some data 6 k) as (a & ->); [lia|].
    destruct (sub_opt_some data (6 + k) 8) as (b & ->); [lia|].
    destruct (sub_opt_some data (6 + k + 8) 8) as (c & ->); [lia|].
    destruct (sub_opt_some data (6 + k + 16) 8) as (d & ->); [lia|]. discriminate.
  - destruct (Nat.ltb_spec (length data) (6 + k + 16)); [discriminate|].
    destruct (sub_opt_some data 6 k) as (a & ->); [lia|].
    destruct (sub_opt_some data (6 + k) 8) as (b & ->); [lia|].
    destruct (sub_opt_some data (6 + k + 8) 8) as (c & ->); [lia|]. discriminate.
Qed.

(* ---------- one scan step: never panics on a non-empty rest, always advances ---------- *)
Definition step_good (sector : N) (r : res step_result) : Prop :=
  match r with
  | Ok (Advance next _ _) => sector < next
  | Rej _ => True
  | Panic => False
  end.

Lemma fs_release_not_panic st a c : fs_release st a c <> Panic.
Proof. unfold fs_release. destruct (release a c (rs_fs st)) as [[|] ?]; discriminate. Qed.

Lemma ro_skip_spec jl : forall sector nxt jl', ro_skip jl sector = (Some nxt, jl') -> sector < nxt.
Proof.
  induction jl as [|[s n] t IH]; intros sector nxt jl'; simpl; [discriminate|].
  destruct (N.ltb_spec sector s); [discriminate|].
  destruct (N.ltb_spec sector (s + n)); [intros [= <- <-]; auto|apply IH].
Qed.

Lemma legacy_skip_good version sector st jl : step_good sector (legacy_skip version sector st jl).
Proof. unfold legacy_skip. destruct (has_token version); simpl; auto. lia. Qed.

Ltac break_if :=
  match goal with
  | |- context [if ?b then _ else _] => destruct b eqn:?
  end.

Lemma scan_step_good c version total sector rest st jl :
  rest <> [] -> step_good sector (scan_step c version total sector rest st jl).
Proof.
  intros Hrest. unfold scan_step.
  destruct (if c_ro c then ro_skip jl sector else (None, jl)) as [jump jl1] eqn:J.
  destruct jump as [nxt|].
  { simpl. destruct (c_ro c); [|discriminate]. eapply ro_skip_spec; eauto. }
  destruct rest as [|data tails]; [congruence|].
  destruct (list_eqb (firstn 8 data) DELETED_TAG).
  { (* marker *)
    destruct (negb (has_token version) && all_zero (skipn 8 data)).
    { destruct (negb (c_allow_ambiguous c)); simpl; auto. lia. }
    destruct (negb (marker_token sector data =? u16_at data 16)); simpl; auto.
    destruct (U64MAX <? sector + u64_at data 8); simpl; auto.
    destruct (N.eqb_spec (u64_at data 8) 0); simpl; auto.
    destruct (total <? sector + u64_at data 8); simpl; auto. lia. }
  destruct (negb (u16_at data 0 =? SECTOR_MARKER)); [simpl; lia|].
  destruct (negb (header_range_ok version data)); [apply legacy_skip_good|].
  match goal with |- context [if ?b then Rej ECorrupt else _] => destruct b end; [simpl; auto|].
  pose proof (parse_head_total version data) as PH.
  destruct (parse_head version data) as [[[[[key vlen] ts] exp]|]|]; [|apply legacy_skip_good|congruence].
  match goal with |- context [if ?b then legacy_skip _ _ _ _ else _] => destruct b end; [apply legacy_skip_good|].
  destruct (N.eqb_spec (extent_blocks version (N.of_nat (length key)) vlen) 0) as [E0|E0]; simpl orb.
  { apply legacy_skip_good. }
  destruct (total <? sector + extent_blocks version (N.of_nat (length key)) vlen); [apply legacy_skip_good|].
  match goal with |- context [if ?b then Rej ECorrupt else _] => destruct b end; [simpl; auto|].
  match goal with |- context [if negb ?b then Rej ECorrupt else _] => destruct b end; simpl negb; cbv iota; [|simpl; auto].
  destruct (idx_find key (rs_idx st)) as [ex|].
  - destruct (ts <? e_ts ex); [simpl; lia|].
    unfold bind.
    destruct (fs_release st (e_sector ex) _) as [st1| |] eqn:R1; simpl; auto.
    2:{ apply fs_release_not_panic in R1; auto. }
    match goal with |- context [if ?b then fs_release ?a ?x ?y else Ok ?z] =>
      destruct b; [destruct (fs_release a x y) eqn:R2|] end; simpl; auto; try lia.
    apply fs_release_not_panic in R2; auto.
  - unfold bind.
    match goal with |- context [if ?b then fs_release ?a ?x ?y else Ok ?z] =>
      destruct b; [destruct (fs_release a x y) eqn:R2|] end; simpl; auto; try lia.
    apply fs_release_not_panic in R2; auto.
Qed.

(* ---------- the scan: enough fuel, so no Panic ---------- *)
Lemma skipn_nonempty {A} (l : list A) n : (n < length l)%nat -> skipn n l <> [].
Proof.
  intros H E. pose proof (skipn_length n l) as L. rewrite E in L. simpl in L. lia.
Qed.

Lemma scan_no_panic c version img : forall fuel sector st jl,
  (N.to_nat (N.of_nat (length img) - sector) < fuel)%nat ->
  scan fuel c version (N.of_nat (length img)) img sector st jl <> Panic.
Proof.
  induction fuel as [|f IH]; intros sector st jl Hf; [lia|].
  cbn [scan]. destruct (N.leb_spec (N.of_nat (length img)) sector); [discriminate|].
  unfold bind.
  pose proof (scan_step_good c version (N.of_nat (length img)) sector (skipn (N.to_nat sector) img) st jl) as G.
  destruct (scan_step _ _ _ _ _ _ _) as [[next st' jl']| |]; try discriminate.
  - assert (HL : (N.to_nat sector < length img)%nat) by lia.
    specialize (G (skipn_nonempty _ _ HL)). simpl in G.
    destruct (N.leb_spec next sector); [lia|]. apply IH. lia.
  - exfalso. apply G. apply skipn_nonempty. lia.
Qed.

Lemma expire_winners_no_panic c version now todo : forall st, expire_winners c version now todo st <> Panic.
Proof.
  induction todo as [|e t IH]; intros st; simpl; [discriminate|].
  destruct (_ && _); auto. unfold bind.
  destruct (fs_release st (e_sector e) _) eqn:R; try discriminate; auto.
  apply fs_release_not_panic in R; auto.
Qed.

Theorem open_image_no_panic c img : fst (open_image c img) <> Panic.
Proof.
  unfold open_image.
  destruct (Nat.ltb (length img) 17); [discriminate|].
  destruct (negb _); [discriminate|].
  destruct (decode_meta _) as [m|]; [|discriminate].
  destruct (decode_journal _ _ _) as [[[jgen jslot] jexts]|]; [|discriminate].
  pose proof (replay_length img (mkjpos jgen jslot) jexts) as RL.
  destruct (if c_ro c then ReplayOk img (mkjpos jgen jslot) else replay img (mkjpos jgen jslot) jexts)
    as [img1 p1| |img1] eqn:RP; try discriminate.
  assert (L1 : length img1 = length img).
  { destruct (c_ro c); [injection RP as <- _; auto|]. rewrite RP in RL. auto. }
  unfold bind.
  rewrite <- L1.
  match goal with |- context [scan ?f ?c' ?v ?t ?i ?s ?st ?jl] =>
    pose proof (scan_no_panic c' v i f s st jl) as SN end.
  assert (SP : (N.to_nat (N.of_nat (length img1) - FEOX_DATA_START_BLOCK) < S (length img1))%nat) by lia.
  specialize (SN SP).
  destruct (scan _ _ _ _ _ _ _ _) as [st1| |]; [|discriminate|congruence].
  assert (E : (match c_now c with Some now => expire_winners c (m_version m) now (rs_idx st1) st1 | None => Ok st1 end) <> Panic).
  { destruct (c_now c); [apply expire_winners_no_panic|discriminate]. }
  destruct (match c_now c with Some now => _ | None => _ end) as [st2| |]; try discriminate; [|congruence].
  cbn iota beta.
  destruct (if c_ro c then _ else retire_two _ _ _ _) as [[img2 p2] ok].
  destruct (negb ok); [discriminate|].
  destruct (rs_last_end st2 <? N.of_nat (length img1)); [|discriminate].
  destruct (fs_release st2 _ _) eqn:R; try discriminate.
  apply fs_release_not_panic in R; auto.
Qed.

(* ---------- rejected for size or metadata reasons: nothing was written ---------- *)
Definition late (e : rerr) : Prop := e <> EInvalidMetadata /\ e <> EInvalidDevice.
Definition rej_late {A} (r : res A) : Prop := match r with Rej e => late e | _ => True end.

Ltac fin := simpl; auto; try (split; discriminate).

Lemma fs_release_late st a c : rej_late (fs_release st a c).
Proof. unfold fs_release. destruct (release a c (rs_fs st)) as [[|] ?]; fin. Qed.

Lemma legacy_skip_late version sector st jl : rej_late (legacy_skip version sector st jl).
Proof. unfold legacy_skip. destruct (has_token version); fin. Qed.

Lemma scan_step_late c version total sector rest st jl :
  rej_late (scan_step c version total sector rest st jl).
Proof.
  unfold scan_step.
  destruct (if c_ro c then ro_skip jl sector else (None, jl)) as [jump jl1] eqn:J.
  destruct jump as [nxt|]; [fin|].
  destruct rest as [|data tails]; [fin|].
  destruct (list_eqb (firstn 8 data) DELETED_TAG).
  { destruct (negb (has_token version) && all_zero (skipn 8 data)).
    { destruct (negb (c_allow_ambiguous c)); fin. }
    destruct (negb (marker_token sector data =? u16_at data 16)); fin.
    destruct (U64MAX <? sector + u64_at data 8); fin.
    destruct (N.eqb_spec (u64_at data 8) 0); fin.
    destruct (total <? sector + u64_at data 8); fin. }
  destruct (negb (u16_at data 0 =? SECTOR_MARKER)); [fin|].
  destruct (negb (header_range_ok version data)); [apply legacy_skip_late|].
  match goal with |- context [if ?b then Rej ECorrupt else _] => destruct b end; [fin|].
  destruct (parse_head version data) as [[[[[key vlen] ts] exp]|]|]; [|apply legacy_skip_late|fin].
  match goal with |- context [if ?b then legacy_skip _ _ _ _ else _] => destruct b end; [apply legacy_skip_late|].
  match goal with |- context [if ?b then legacy_skip _ _ _ _ else _] => destruct b end; [apply legacy_skip_late|].
  match goal with |- context [if ?b then Rej ECorrupt else _] => destruct b end; [fin|].
  match goal with |- context [if negb ?b then Rej ECorrupt else _] => destruct b end; simpl negb; cbv iota; [|fin].
  destruct (idx_find key (rs_idx st)) as [ex|].
  - destruct (ts <? e_ts ex); [fin|].
    unfold bind.
    pose proof (fs_release_late st (e_sector ex) (extent_blocks version (N.of_nat (length (e_key ex))) (e_vlen ex))) as R1.
    destruct (fs_release st (e_sector ex) _) as [st1| |]; fin.
    match goal with |- context [if ?b then fs_release ?a ?x ?y else Ok ?z] =>
      destruct b; [pose proof (fs_release_late a x y) as R2; destruct (fs_release a x y)|] end; fin.
  - unfold bind.
    match goal with |- context [if ?b then fs_release ?a ?x ?y else Ok ?z] =>
      destruct b; [pose proof (fs_release_late a x y) as R2; destruct (fs_release a x y)|] end; fin.
Qed.

Lemma scan_late c version total img : forall fuel sector st jl,
  rej_late (scan fuel c version total img sector st jl).
Proof.
  induction fuel as [|f IH]; intros sector st jl; cbn [scan]; destruct (total <=? sector); fin.
  unfold bind. pose proof (scan_step_late c version total sector (skipn (N.to_nat sector) img) st jl) as G.
  destruct (scan_step _ _ _ _ _ _ _) as [[next st' jl']| |]; fin.
  destruct (next <=? sector); [fin|apply IH].
Qed.

Lemma expire_winners_late c version now todo : forall st, rej_late (expire_winners c version now todo st).
Proof.
  induction todo as [|e t IH]; intros st; simpl; [fin|].
  destruct (_ && _); auto. unfold bind.
  pose proof (fs_release_late st (e_sector e) (extent_blocks version (N.of_nat (length (e_key e))) (e_vlen e))) as R.
  destruct (fs_release st (e_sector e) _); fin.
Qed.

Theorem open_image_rejected_untouched c img e :
  fst (open_image c img) = Rej e -> (e = EInvalidMetadata \/ e = EInvalidDevice) -> snd (open_image c img) = img.
Proof.
  unfold open_image.
  destruct (Nat.ltb (length img) 17); [reflexivity|].
  destruct (negb _); [reflexivity|].
  destruct (decode_meta _) as [m|]; [|reflexivity].
  destruct (decode_journal _ _ _) as [[[jgen jslot] jexts]|]; [|reflexivity].
  destruct (if c_ro c then _ else replay _ _ _) as [img1 p1| |img1]; [|reflexivity|].
  2:{ simpl. intros [= <-] [H|H]; discriminate. }
  intros H HE. exfalso.
  assert (L : late e -> False) by (intros [A B]; destruct HE; auto).
  revert H. unfold bind.
  match goal with |- context [scan ?f ?c' ?v ?t ?i ?s ?st ?jl] =>
    pose proof (scan_late c' v t i f s st jl) as SL; destruct (scan f c' v t i s st jl) as [st1| |] end;
    [|simpl; intros [= <-]; auto|simpl; discriminate].
  assert (EL : rej_late (match c_now c with Some now => expire_winners c (m_version m) now (rs_idx st1) st1 | None => Ok st1 end)).
  { destruct (c_now c); [apply expire_winners_late|fin]. }
  destruct (match c_now c with Some now => _ | None => _ end) as [st2| |];
    [|simpl; intros [= <-]; auto|simpl; discriminate].
  cbn iota beta.
  destruct (if c_ro c then _ else retire_two _ _ _ _) as [[img2 p2] ok].
  destruct (negb ok); [simpl; intros [= <-]; apply L; split; discriminate|].
  destruct (rs_last_end st2 <? _); [|simpl; discriminate].
  pose proof (fs_release_late st2 (rs_last_end st2) (N.of_nat (length img) - rs_last_end st2)) as RL.
  destruct (fs_release st2 _ _); simpl; try discriminate. intros [= <-]; auto.
Qed.

(* An image whose selected metadata copy does not carry the signature, or does not validate,
   is rejected as InvalidMetadata. *)
Theorem open_image_unrecognised c img :
  (17 <= length img)%nat ->
  (let mb := if select_meta (nth_block img 0) (nth_block img (N.to_nat FEOX_METADATA_BACKUP_BLOCK))
             then nth_block img (N.to_nat FEOX_METADATA_BACKUP_BLOCK) else nth_block img 0 in
   list_eqb (firstn 8 mb) SIGNATURE = false \/ decode_meta mb = None) ->
  open_image c img = (Rej EInvalidMetadata, img).
Proof.
  intros HL H. unfold open_image.
  destruct (Nat.ltb_spec (length img) 17); [lia|].
  cbv zeta in H. destruct H as [H|H].
  - rewrite H. reflexivity.
  - destruct (negb _); [reflexivity|]. rewrite H. reflexivity.
Qed.
