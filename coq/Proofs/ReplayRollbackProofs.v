(* C03 / C02 / C09 at the byte level: a crashed batch is rolled back.  A file at rest whose journal
   is ACTIVE and names the extent of one record (the batch that was being written when the process
   died): the open replays the journal -- the extent is overwritten with a completed run of
   retirement markers and a CLEAR record is written -- and then reads the file like any file at
   rest: every other record is reported with its bytes, the journaled record is gone, its blocks are
   free, and the file the open leaves behind is itself a file at rest. *)
From Coq Require Import List NArith Bool Lia Arith.
From Feox Require Import Gen.Constants Model.Bytes Model.Crc32c Model.Codec Proofs.CodecProofs
                         Model.FreeSpace Proofs.FreeSpaceProofs Model.MetaJournal Model.Recovery
                         Proofs.MetaJournalProofs Proofs.JournalLayoutProofs Proofs.RetireContainedProofs
                         Proofs.ScanAcceptsProofs Proofs.ScanQuiescentProofs.
Import ListNotations.
Local Open Scope N_scope.
Local Transparent FEOX_BLOCK_SIZE FEOX_DATA_START_BLOCK.

Lemma ilayout_app version : forall a sector b,
  ilayout version sector (a ++ b) = ilayout version sector a ++ ilayout version (sector + isum version a) b.
Proof.
  induction a as [|it t IH]; intros sector b; cbn [app ilayout isum]; [rewrite N.add_0_r; reflexivity|].
  rewrite IH, <- app_assoc. f_equal. f_equal. f_equal. lia.
Qed.

Lemma isum_app version a b : isum version (a ++ b) = isum version a + isum version b.
Proof. induction a as [|it t IH]; cbn [app isum]; [reflexivity|]. rewrite IH. lia. Qed.

Lemma recs_of_app a b : recs_of (a ++ b) = recs_of a ++ recs_of b.
Proof. induction a as [|[r|n|] t IH]; cbn [app recs_of]; rewrite ?IH; reflexivity. Qed.

Lemma set_blocks_at_boundary (pre mid post bs : image) :
  length bs = length mid ->
  set_blocks (pre ++ mid ++ post) (N.of_nat (length pre)) bs = pre ++ bs ++ post.
Proof.
  intros L. unfold set_blocks. rewrite Nat2N.id.
  rewrite firstn_app, firstn_all, Nat.sub_diag. cbn [firstn]. rewrite app_nil_r.
  rewrite (firstn_all2 bs) by (rewrite !app_length; lia).
  rewrite skipn_app. rewrite skipn_all2 by lia. cbn [app].
  replace (length pre + length bs - length pre)%nat with (length bs) by lia.
  rewrite skipn_app, L, skipn_all, Nat.sub_diag. cbn [skipn app]. reflexivity.
Qed.

Lemma skipn_eq_of_nth (l l' : image) a :
  length l' = length l -> (forall k, (a <= k)%nat -> nth k l' [] = nth k l []) -> skipn a l' = skipn a l.
Proof.
  intros L H. apply (nth_ext _ _ [] []).
  - rewrite !skipn_length, L. reflexivity.
  - intros i _. rewrite !nth_skipn_plus. apply H. lia.
Qed.

Theorem crashed_batch_is_rolled_back c img m jgen jslot its1 r its2 :
  c_ro c = false -> c_now c = None ->
  (17 <= length img)%nat ->
  let total := N.of_nat (length img) in
  let mb := if select_meta (nth_block img 0) (nth_block img (N.to_nat FEOX_METADATA_BACKUP_BLOCK))
            then nth_block img (N.to_nat FEOX_METADATA_BACKUP_BLOCK) else nth_block img 0 in
  let v := m_version m in
  let s := FEOX_DATA_START_BLOCK + isum v its1 in
  let n := need_of v r in
  list_eqb (firstn 8 mb) SIGNATURE = true -> decode_meta mb = Some m -> has_token v = true ->
  decode_journal (slot_bytes img 0) (slot_bytes img 1) total = Some (jgen, jslot, [(s, n)]) ->
  jgen < U64MAX ->
  total * FEOX_BLOCK_SIZE < U64 ->
  Forall (item_ok v) (its1 ++ IRec r :: its2) -> distinct_keys (recs_of (its1 ++ its2)) ->
  skipn (N.to_nat FEOX_DATA_START_BLOCK) img = ilayout v FEOX_DATA_START_BLOCK (its1 ++ IRec r :: its2) ->
  exists o img',
    open_image c img = (Ok o, img') /\
    length img' = length img /\
    skipn (N.to_nat FEOX_DATA_START_BLOCK) img' = ilayout v FEOX_DATA_START_BLOCK (its1 ++ IMark n :: its2) /\
    (forall r', In r' (recs_of (its1 ++ its2)) -> exists s', idx_find (r_key r') (o_idx o) = Some (entry_of v r' s')) /\
    o_count o = N.of_nat (length (recs_of (its1 ++ its2))) /\
    (forall b, FEOX_DATA_START_BLOCK <= b < total ->
               (free (o_fs o) b <-> ~ covered v FEOX_DATA_START_BLOCK (its1 ++ IMark n :: its2) b)).
Proof.
  intros Hrw Hnow Hlen total mb v s n Hsig Hdec Htok Hj Hg Hu Hok Hd Himg.
  set (its := its1 ++ IRec r :: its2) in *.
  set (its' := its1 ++ IMark n :: its2).
  pose proof (proj1 (Forall_app _ _ _) Hok) as [Hok1 Hok2r].
  pose proof (Forall_inv Hok2r) as Hr. pose proof (Forall_inv_tail Hok2r) as Hok2.
  assert (Hn : 0 < n) by (apply need_of_pos; exact Hr).
  assert (Hok' : Forall (item_ok v) its').
  { apply Forall_app. split; [exact Hok1|]. constructor; [exact Hn|exact Hok2]. }
  assert (Hrecs : recs_of its' = recs_of (its1 ++ its2)).
  { unfold its'. rewrite !recs_of_app. reflexivity. }
  assert (Hsum : isum v its' = isum v its).
  { unfold its', its. rewrite !isum_app. cbn [isum isize]. reflexivity. }
  (* the image, cut at the journaled extent *)
  set (hd := firstn 16 img).
  assert (Lhd : length hd = 16%nat) by (unfold hd; rewrite firstn_length; lia).
  assert (Eimg : img = (hd ++ ilayout v FEOX_DATA_START_BLOCK its1) ++ iblocks v s (IRec r) ++ ilayout v (s + n) its2).
  { rewrite <- (firstn_skipn 16 img) at 1. fold hd. change 16%nat with (N.to_nat FEOX_DATA_START_BLOCK) at 1. rewrite Himg.
    unfold its. rewrite ilayout_app. cbn [ilayout isize]. fold s. fold n. rewrite <- app_assoc. reflexivity. }
  set (pre := hd ++ ilayout v FEOX_DATA_START_BLOCK its1) in *.
  assert (Lpre : N.of_nat (length pre) = s).
  { unfold pre. rewrite app_length, Lhd, ilayout_length by exact Hok1. unfold s, FEOX_DATA_START_BLOCK. lia. }
  set (run := marker_run s n (N.to_nat n)).
  assert (Lrun : length run = length (iblocks v s (IRec r))).
  { unfold run. rewrite marker_run_length. cbn [iblocks]. rewrite chunk_blocks_length. reflexivity. }
  set (imM := write_markers img [(s, n)]).
  assert (EM : imM = pre ++ run ++ ilayout v (s + n) its2).
  { pose proof (set_blocks_at_boundary pre (iblocks v s (IRec r)) (ilayout v (s + n) its2) run Lrun) as SB.
    rewrite Lpre, <- Eimg in SB. exact SB. }
  assert (LM : length imM = length img) by (unfold imM; apply write_markers_len).
  assert (SM : skipn (N.to_nat FEOX_DATA_START_BLOCK) imM = ilayout v FEOX_DATA_START_BLOCK its').
  { rewrite EM. unfold pre. rewrite <- app_assoc. change (N.to_nat FEOX_DATA_START_BLOCK) with 16%nat.
    rewrite skipn_app, skipn_all2 by lia. rewrite Lhd, Nat.sub_diag. cbn [skipn app].
    unfold its'. rewrite ilayout_app. cbn [ilayout iblocks isize]. fold s. reflexivity. }
  (* the journal record that follows *)
  set (p0 := mkjpos jgen jslot).
  set (q := jnext p0).
  assert (L7 : (N.to_nat FEOX_METADATA_BACKUP_BLOCK <= length imM)%nat) by (rewrite LM; change (N.to_nat FEOX_METADATA_BACKUP_BLOCK) with 7%nat; lia).
  destruct (write_journal_contained imM (j_slot q) (j_gen q) JOURNAL_CLEAR [] (jnext_slot p0) ltac:(cbn; lia) L7) as [L1 O1].
  set (img1 := write_journal imM (j_slot q) (j_gen q) JOURNAL_CLEAR []) in *.
  assert (S1 : skipn (N.to_nat FEOX_DATA_START_BLOCK) img1 = ilayout v FEOX_DATA_START_BLOCK its').
  { rewrite <- SM. apply skipn_eq_of_nth; [exact L1|]. intros k Hk. apply O1. right.
    change (N.to_nat FEOX_METADATA_BACKUP_BLOCK) with 7%nat. change (N.to_nat FEOX_DATA_START_BLOCK) with 16%nat in Hk. lia. }
  assert (Ll1 : length img1 = length img) by (rewrite L1; exact LM).
  (* the scan of the replayed image *)
  assert (Hlay : length (ilayout v FEOX_DATA_START_BLOCK its') = N.to_nat (isum v its')) by (apply ilayout_length; exact Hok').
  assert (Htot : total = FEOX_DATA_START_BLOCK + isum v its').
  { pose proof (f_equal (@length block) S1) as L. rewrite skipn_length, Hlay, Ll1 in L. unfold total. unfold FEOX_DATA_START_BLOCK in *. lia. }
  assert (Hpos : 0 < isum v its') by (unfold total, FEOX_DATA_START_BLOCK in Htot; lia).
  assert (Hmax : total <= U64MAX) by (unfold U64, U64MAX, FEOX_BLOCK_SIZE in *; lia).
  assert (Hfuel : (length its' < S (length img1))%nat).
  { pose proof (items_le_blocks _ _ Hok'). unfold total, FEOX_DATA_START_BLOCK in Htot. lia. }
  set (st0 := mkrs [] (mkfs [] (total * FEOX_BLOCK_SIZE) 0 0) 0 0 0 [] FEOX_DATA_START_BLOCK 0).
  assert (Hd' : distinct_keys (recs_of its')) by (rewrite Hrecs; exact Hd).
  destruct (quiescent_data_area_is_partitioned c v total [] img1 (or_introl Hrw) Htok Hmax its' st0 (S (length img1)) Hfuel
              eq_refl eq_refl eq_refl Hu Hok' Hd' S1 Htot Hpos)
    as (st' & st'' & Sc & Rel & Found & Cnt & Ret' & Ret & Part).
  (* open_image *)
  unfold open_image. fold total.
  destruct (Nat.ltb_spec (length img) 17); [lia|].
  fold mb. rewrite Hsig. cbn [negb]. rewrite Hdec, Hj. rewrite Hrw.
  assert (RP : replay img p0 [(s, n)] = ReplayOk img1 q).
  { unfold replay. unfold coalesce. cbn [sort_by_start fold_right insert_by_start coalesce_sorted].
    destruct (N.eqb_spec n 0) as [Z|_]; [lia|]. cbn [rev app].
    assert (JO : jnext_ok p0 = true) by (unfold jnext_ok, p0; cbn [j_gen]; apply N.ltb_lt; exact Hg).
    rewrite JO. cbn [negb]. reflexivity. }
  fold p0. rewrite RP. fold v. fold st0. rewrite Sc. cbn [bind]. rewrite Hnow. cbn [bind].
  cbn [st0 rs_retired] in Ret'. rewrite Ret'. cbn [length retire_two Nat.sub skipn firstn retire_extents negb].
  rewrite Rel.
  eexists. eexists. split; [reflexivity|]. cbn [o_idx o_count o_fs].
  split; [exact Ll1|]. split; [exact S1|].
  split; [intros r' Hr'; apply Found; rewrite Hrecs; exact Hr'|].
  split; [rewrite Cnt, Hrecs; reflexivity|exact Part].
Qed.
