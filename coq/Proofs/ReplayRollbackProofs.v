(* C03 / C02 / C09 at the byte level: a crashed batch is rolled back.  A file at rest whose journal
   is ACTIVE and names the extent of one record (the batch that was being written when the process
   died): the open replays the journal -- the extent is overwritten with a completed run of
   retirement markers and a CLEAR record is written -- and then reads the file like any file at
   rest: every other record is reported with its bytes, the journaled record is gone, its blocks are
   free, and the file the open leaves behind is itself a file at rest. *)
From Coq Require Import List NArith Bool Lia Arith.
From Feox Require Import Gen.Constants Model.Bytes Model.Crc32c Model.Codec Proofs.CodecProofs
                         Model.FreeSpace Proofs.FreeSpaceProofs Model.MetaJournal Model.Recovery
                         Proofs.MetaJournalProofs Proofs.JournalLayoutProofs Proofs.RetireContainedProofs
                         Proofs.ScanAcceptsProofs Proofs.ScanQuiescentProofs.
Import ListNotations.
Local Open Scope N_scope.
Local Transparent FEOX_BLOCK_SIZE FEOX_DATA_START_BLOCK.

Lemma ilayout_app version : forall a sector b,
  ilayout version sector (a ++ b) = ilayout version sector a ++ ilayout version (sector + isum version a) b.
Proof.
  induction a as [|it t IH]; intros sector b; cbn [app ilayout isum]; [rewrite N.add_0_r; reflexivity|].
  rewrite IH, <- app_assoc. f_equal. f_equal. f_equal. lia.
Qed.

Lemma isum_app version a b : isum version (a ++ b) = isum version a + isum version b.
Proof. induction a as [|it t IH]; cbn [app isum]; [reflexivity|]. rewrite IH. lia. Qed.

Lemma recs_of_app a b : recs_of (a ++ b) = recs_of a ++ recs_of b.
Proof. induction a as [|[r|n|] t IH]; cbn [app recs_of]; rewrite ?IH; reflexivity. Qed.

Lemma set_blocks_at_boundary (pre mid post bs : image) :
  length bs = length mid ->
  set_blocks (pre ++ mid ++ post) (N.of_nat (length pre)) bs = pre ++ bs ++ post.
Proof.
  intros L. unfold set_blocks. rewrite Nat2N.id.
  rewrite firstn_app, firstn_all, Nat.sub_diag. cbn [firstn]. rewrite app_nil_r.
  rewrite (firstn_all2 bs) by (rewrite !app_length; lia).
  rewrite skipn_app. rewrite skipn_all2 by lia. cbn [app].
  replace (length pre + length bs - length pre)%nat with (length bs) by lia.
  rewrite skipn_app, L, skipn_all, Nat.sub_diag. cbn [skipn app]. reflexivity.
Qed.

Lemma skipn_eq_of_nth (l l' : image) a :
  length l' = length l -> (forall k, (a <= k)%nat -> nth k l' [] = nth k l []) -> skipn a l' = skipn a l.
Proof.
  intros L H. apply (nth_ext _ _ [] []).
  - rewrite !skipn_length, L. reflexivity.
  - intros i _. rewrite !nth_skipn_plus. apply H. lia.
Qed.

(* the file a replay of the one-extent journal [(s, n)] at position (jgen, jslot) leaves behind *)
Definition rolled_back (img : image) (jgen jslot s n : N) : image :=
  let q := jnext (mkjpos jgen jslot) in
  write_journal (write_markers img [(s, n)]) (j_slot q) (j_gen q) JOURNAL_CLEAR [].

Theorem crashed_batch_is_rolled_back c img m jgen jslot its1 r its2 :
  c_ro c = false -> c_now c = None ->
  (17 <= length img)%nat ->
  let total := N.of_nat (length img) in
  let mb := if select_meta (nth_block img 0) (nth_block img (N.to_nat FEOX_METADATA_BACKUP_BLOCK))
            then nth_block img (N.to_nat FEOX_METADATA_BACKUP_BLOCK) else nth_block img 0 in
  let v := m_version m in
  let s := FEOX_DATA_START_BLOCK + isum v its1 in
  let n := need_of v r in
  list_eqb (firstn 8 mb) SIGNATURE = true -> decode_meta mb = Some m -> has_token v = true ->
  decode_journal (slot_bytes img 0) (slot_bytes img 1) total = Some (jgen, jslot, [(s, n)]) ->
  jgen < U64MAX ->
  total * FEOX_BLOCK_SIZE < U64 ->
  Forall (item_ok v) (its1 ++ IRec r :: its2) -> distinct_keys (recs_of (its1 ++ its2)) ->
  skipn (N.to_nat FEOX_DATA_START_BLOCK) img = ilayout v FEOX_DATA_START_BLOCK (its1 ++ IRec r :: its2) ->
  exists o img',
    open_image c img = (Ok o, img') /\
    length img' = length img /\
    skipn (N.to_nat FEOX_DATA_START_BLOCK) img' = ilayout v FEOX_DATA_START_BLOCK (its1 ++ IMark n :: its2) /\
    (forall r', In r' (recs_of (its1 ++ its2)) -> exists s', idx_find (r_key r') (o_idx o) = Some (entry_of v r' s')) /\
    o_count o = N.of_nat (length (recs_of (its1 ++ its2))) /\
    (forall b, FEOX_DATA_START_BLOCK <= b < total ->
               (free (o_fs o) b <-> ~ covered v FEOX_DATA_START_BLOCK (its1 ++ IMark n :: its2) b)) /\
    img' = rolled_back img jgen jslot s n.
Proof.
  intros Hrw Hnow Hlen total mb v s n Hsig Hdec Htok Hj Hg Hu Hok Hd Himg.
  set (its := its1 ++ IRec r :: its2) in *.
  set (its' := its1 ++ IMark n :: its2).
  pose proof (proj1 (Forall_app _ _ _) Hok) as [Hok1 Hok2r].
  pose proof (Forall_inv Hok2r) as Hr. pose proof (Forall_inv_tail Hok2r) as Hok2.
  assert (Hn : 0 < n) by (apply need_of_pos; exact Hr).
  assert (Hok' : Forall (item_ok v) its').
  { apply Forall_app. split; [exact Hok1|]. constructor; [exact Hn|exact Hok2]. }
  assert (Hrecs : recs_of its' = recs_of (its1 ++ its2)).
  { unfold its'. rewrite !recs_of_app. reflexivity. }
  assert (Hsum : isum v its' = isum v its).
  { unfold its', its. rewrite !isum_app. cbn [isum isize]. reflexivity. }
  (* the image, cut at the journaled extent *)
  set (hd := firstn 16 img).
  assert (Lhd : length hd = 16%nat) by (unfold hd; rewrite firstn_length; lia).
  assert (Eimg : img = (hd ++ ilayout v FEOX_DATA_START_BLOCK its1) ++ iblocks v s (IRec r) ++ ilayout v (s + n) its2).
  { rewrite <- (firstn_skipn 16 img) at 1. fold hd. change 16%nat with (N.to_nat FEOX_DATA_START_BLOCK) at 1. rewrite Himg.
    unfold its. rewrite ilayout_app. cbn [ilayout isize]. fold s. fold n. rewrite <- app_assoc. reflexivity. }
  set (pre := hd ++ ilayout v FEOX_DATA_START_BLOCK its1) in *.
  assert (Lpre : N.of_nat (length pre) = s).
  { unfold pre. rewrite app_length, Lhd, ilayout_length by exact Hok1. unfold s, FEOX_DATA_START_BLOCK. lia. }
  set (run := marker_run s n (N.to_nat n)).
  assert (Lrun : length run = length (iblocks v s (IRec r))).
  { unfold run. rewrite marker_run_length. cbn [iblocks]. rewrite chunk_blocks_length. reflexivity. }
  set (imM := write_markers img [(s, n)]).
  assert (EM : imM = pre ++ run ++ ilayout v (s + n) its2).
  { pose proof (set_blocks_at_boundary pre (iblocks v s (IRec r)) (ilayout v (s + n) its2) run Lrun) as SB.
    rewrite Lpre, <- Eimg in SB. exact SB. }
  assert (LM : length imM = length img) by (unfold imM; apply write_markers_len).
  assert (SM : skipn (N.to_nat FEOX_DATA_START_BLOCK) imM = ilayout v FEOX_DATA_START_BLOCK its').
  { rewrite EM. unfold pre. rewrite <- app_assoc. change (N.to_nat FEOX_DATA_START_BLOCK) with 16%nat.
    rewrite skipn_app, skipn_all2 by lia. rewrite Lhd, Nat.sub_diag. cbn [skipn app].
    unfold its'. rewrite ilayout_app. cbn [ilayout iblocks isize]. fold s. reflexivity. }
  (* the journal record that follows *)
  set (p0 := mkjpos jgen jslot).
  set (q := jnext p0).
  assert (L7 : (N.to_nat FEOX_METADATA_BACKUP_BLOCK <= length imM)%nat) by (rewrite LM; change (N.to_nat FEOX_METADATA_BACKUP_BLOCK) with 7%nat; lia).
  destruct (write_journal_contained imM (j_slot q) (j_gen q) JOURNAL_CLEAR [] (jnext_slot p0) ltac:(cbn; lia) L7) as [L1 O1].
  set (img1 := write_journal imM (j_slot q) (j_gen q) JOURNAL_CLEAR []) in *.
  assert (S1 : skipn (N.to_nat FEOX_DATA_START_BLOCK) img1 = ilayout v FEOX_DATA_START_BLOCK its').
  { rewrite <- SM. apply skipn_eq_of_nth; [exact L1|]. intros k Hk. apply O1. right.
    change (N.to_nat FEOX_METADATA_BACKUP_BLOCK) with 7%nat. change (N.to_nat FEOX_DATA_START_BLOCK) with 16%nat in Hk. lia. }
  assert (Ll1 : length img1 = length img) by (rewrite L1; exact LM).
  (* the scan of the replayed image *)
  assert (Hlay : length (ilayout v FEOX_DATA_START_BLOCK its') = N.to_nat (isum v its')) by (apply ilayout_length; exact Hok').
  assert (Htot : total = FEOX_DATA_START_BLOCK + isum v its').
  { pose proof (f_equal (@length block) S1) as L. rewrite skipn_length, Hlay, Ll1 in L. unfold total. unfold FEOX_DATA_START_BLOCK in *. lia. }
  assert (Hpos : 0 < isum v its') by (unfold total, FEOX_DATA_START_BLOCK in Htot; lia).
  assert (Hmax : total <= U64MAX) by (unfold U64, U64MAX, FEOX_BLOCK_SIZE in *; lia).
  assert (Hfuel : (length its' < S (length img1))%nat).
  { pose proof (items_le_blocks _ _ Hok'). unfold total, FEOX_DATA_START_BLOCK in Htot. lia. }
  set (st0 := mkrs [] (mkfs [] (total * FEOX_BLOCK_SIZE) 0 0) 0 0 0 [] FEOX_DATA_START_BLOCK 0).
  assert (Hd' : distinct_keys (recs_of its')) by (rewrite Hrecs; exact Hd).
  destruct (quiescent_data_area_is_partitioned c v total [] img1 (or_introl Hrw) Htok Hmax its' st0 (S (length img1)) Hfuel
              eq_refl eq_refl eq_refl Hu Hok' Hd' S1 Htot Hpos)
    as (st' & st'' & Sc & Rel & Found & Cnt & Ret' & Ret & Part).
  (* open_image *)
  unfold open_image. fold total.
  destruct (Nat.ltb_spec (length img) 17); [lia|].
  fold mb. rewrite Hsig. cbn [negb]. rewrite Hdec, Hj. rewrite Hrw.
  assert (RP : replay img p0 [(s, n)] = ReplayOk img1 q).
  { unfold replay. unfold coalesce. cbn [sort_by_start fold_right insert_by_start coalesce_sorted].
    destruct (N.eqb_spec n 0) as [Z|_]; [lia|]. cbn [rev app].
    assert (JO : jnext_ok p0 = true) by (unfold jnext_ok, p0; cbn [j_gen]; apply N.ltb_lt; exact Hg).
    rewrite JO. cbn [negb]. reflexivity. }
  fold p0. rewrite RP. fold v. fold st0. rewrite Sc. cbn [bind]. rewrite Hnow. cbn [bind].
  cbn [st0 rs_retired] in Ret'. rewrite Ret'. cbn [length retire_two Nat.sub skipn firstn retire_extents negb].
  rewrite Rel.
  eexists. eexists. split; [reflexivity|]. cbn [o_idx o_count o_fs].
  split; [exact Ll1|]. split; [exact S1|].
  split; [intros r' Hr'; apply Found; rewrite Hrecs; exact Hr'|].
  split; [rewrite Cnt, Hrecs; reflexivity|]. split; [exact Part|reflexivity].
Qed.

(* ---- and the rolled-back file is a file at rest: opening it again changes nothing ---- *)
Lemma decode_journal_inv s0 s1 total g slot e :
  decode_journal s0 s1 total = Some (g, slot, e) -> e <> [] ->
  (slot = 0 /\ all_zero s0 = false /\ decode_slot s0 total = Some (g, e)) \/
  (slot = 1 /\ all_zero s1 = false /\ decode_slot s1 total = Some (g, e)).
Proof.
  unfold decode_journal. cbv zeta. intros H Hne.
  destruct (all_zero s0) eqn:Z0; destruct (all_zero s1) eqn:Z1.
  - cbn in H. inversion H; subst. contradiction.
  - destruct (decode_slot s1 total) as [[g1 e1]|] eqn:D1; cbn in H; [|inversion H; subst; contradiction]. inversion H; subst. right. auto.
  - destruct (decode_slot s0 total) as [[g0 e0]|] eqn:D0; cbn in H; [|inversion H; subst; contradiction]. inversion H; subst. left. auto.
  - destruct (decode_slot s0 total) as [[g0 e0]|] eqn:D0; destruct (decode_slot s1 total) as [[g1 e1]|] eqn:D1; cbn in H.
    + destruct (g1 <? g0); inversion H; subst; [left|right]; auto.
    + inversion H; subst. left. auto.
    + inversion H; subst. right. auto.
    + discriminate.
Qed.

Lemma slot_bytes_unchanged (img img' : image) k :
  length img' = length img ->
  (forall i, (N.to_nat (ALLOCATION_JOURNAL_START_BLOCK + k * ALLOCATION_JOURNAL_SLOT_BLOCKS) <= i <
              N.to_nat (ALLOCATION_JOURNAL_START_BLOCK + k * ALLOCATION_JOURNAL_SLOT_BLOCKS) + 3)%nat -> nth i img' [] = nth i img []) ->
  slot_bytes img' k = slot_bytes img k.
Proof. intros L H. unfold slot_bytes. f_equal. apply window_eq; assumption. Qed.

Lemma clear_image_is_one_block g : length (encode_journal g JOURNAL_CLEAR []) = BLOCK.
Proof. rewrite encode_journal_length. vm_compute. reflexivity. Qed.

Lemma slot_bytes_written (imM : image) w g :
  w < ALLOCATION_JOURNAL_SLOTS -> (N.to_nat FEOX_METADATA_BACKUP_BLOCK <= length imM)%nat ->
  exists rest, slot_bytes (write_journal imM w g JOURNAL_CLEAR []) w = encode_journal g JOURNAL_CLEAR [] ++ rest.
Proof.
  intros Hw Hl. unfold write_journal, slot_bytes.
  set (j := encode_journal g JOURNAL_CLEAR []).
  pose proof (clear_image_is_one_block g) as Lj. fold j in Lj.
  rewrite Lj. replace (Nat.div BLOCK BLOCK) with 1%nat by (vm_compute; reflexivity).
  cbn [chunk_blocks]. replace (firstn BLOCK j) with j by (symmetry; apply firstn_all2; lia).
  destruct (journal_slots_lie_between_the_metadata_copies w Hw) as (_ & E & _). cbv zeta in E.
  set (i := N.to_nat (ALLOCATION_JOURNAL_START_BLOCK + w * ALLOCATION_JOURNAL_SLOT_BLOCKS)) in *.
  assert (Hi : (i + 3 <= length imM)%nat).
  { unfold i. change (N.to_nat FEOX_METADATA_BACKUP_BLOCK) with 7%nat in Hl. change ALLOCATION_JOURNAL_SLOT_BLOCKS with 3 in E |- *.
    change FEOX_METADATA_BACKUP_BLOCK with 7 in E. lia. }
  unfold set_blocks. fold i.
  set (X := skipn (i + 1) imM).
  match goal with |- context [skipn i ?t] => assert (S : skipn i t = j :: X) end.
  { rewrite skipn_app. rewrite skipn_all2 by (rewrite firstn_length; lia).
    rewrite firstn_length, Nat.min_l by lia. rewrite Nat.sub_diag. cbn [skipn app].
    destruct (length imM - i)%nat as [|k] eqn:D; [lia|]. cbn [firstn]. rewrite firstn_nil. reflexivity. }
  rewrite S. exists (concat (firstn 2 X)). reflexivity.
Qed.

Lemma rolled_back_low_blocks img jgen jslot s n k :
  (N.to_nat FEOX_METADATA_BACKUP_BLOCK <= length img)%nat -> FEOX_DATA_START_BLOCK <= s ->
  (k < N.to_nat FEOX_DATA_START_BLOCK)%nat ->
  let q := jnext (mkjpos jgen jslot) in
  let first := N.to_nat (ALLOCATION_JOURNAL_START_BLOCK + j_slot q * ALLOCATION_JOURNAL_SLOT_BLOCKS) in
  (k < first \/ first + N.to_nat ALLOCATION_JOURNAL_SLOT_BLOCKS <= k)%nat ->
  nth k (rolled_back img jgen jslot s n) [] = nth k img [].
Proof.
  intros Hl Hs Hk q first Hout. unfold rolled_back. fold q.
  assert (L7 : (N.to_nat FEOX_METADATA_BACKUP_BLOCK <= length (write_markers img [(s, n)]))%nat) by (rewrite write_markers_len; exact Hl).
  rewrite (proj2 (journal_write_stays_in_its_slot (write_markers img [(s, n)]) (j_slot q) (j_gen q) JOURNAL_CLEAR [] k (jnext_slot _) ltac:(cbn; lia) L7) Hout).
  apply write_markers_out. intros (s' & n' & [E|[]] & R). injection E as <- <-. lia.
Qed.

Lemma rolled_back_journal img jgen jslot s n total e :
  (N.to_nat FEOX_METADATA_BACKUP_BLOCK <= length img)%nat -> FEOX_DATA_START_BLOCK <= s ->
  jgen < U64MAX -> e <> [] ->
  decode_journal (slot_bytes img 0) (slot_bytes img 1) total = Some (jgen, jslot, e) ->
  let img' := rolled_back img jgen jslot s n in
  decode_journal (slot_bytes img' 0) (slot_bytes img' 1) total = Some (jgen + 1, j_slot (jnext (mkjpos jgen jslot)), []).
Proof.
  intros Hl Hs Hg Hne Hj img'.
  assert (L7 : (N.to_nat FEOX_METADATA_BACKUP_BLOCK <= length (write_markers img [(s, n)]))%nat) by (rewrite write_markers_len; exact Hl).
  assert (Len : length img' = length img).
  { unfold img', rolled_back.
    destruct (write_journal_contained (write_markers img [(s, n)]) (j_slot (jnext (mkjpos jgen jslot))) (j_gen (jnext (mkjpos jgen jslot)))
                JOURNAL_CLEAR [] (jnext_slot _) ltac:(cbn; lia) L7) as [L1 _].
    cbv zeta. rewrite L1. apply write_markers_len. }
  assert (G0 : 0 < jgen + 1) by lia.
  assert (G1 : jgen + 1 < 2 ^ 64) by (unfold U64MAX in Hg; lia).
  destruct (decode_journal_inv _ _ _ _ _ _ Hj Hne) as [(-> & Z & D)|(-> & Z & D)].
  - (* the ACTIVE record is in slot 0; the CLEAR record goes to slot 1 *)
    assert (Q : j_slot (jnext (mkjpos jgen 0)) = 1) by (vm_compute; reflexivity).
    destruct (slot_bytes_written (write_markers img [(s, n)]) 1 (jgen + 1) ltac:(vm_compute; reflexivity) L7) as (rest & W).
    assert (U : slot_bytes img' 0 = slot_bytes img 0).
    { apply slot_bytes_unchanged; [exact Len|]. intros i Hi. apply rolled_back_low_blocks; try assumption.
      - change (N.to_nat (ALLOCATION_JOURNAL_START_BLOCK + 0 * ALLOCATION_JOURNAL_SLOT_BLOCKS)) with 1%nat in Hi. change (N.to_nat FEOX_DATA_START_BLOCK) with 16%nat. lia.
      - rewrite Q. change (N.to_nat (ALLOCATION_JOURNAL_START_BLOCK + 0 * ALLOCATION_JOURNAL_SLOT_BLOCKS)) with 1%nat in Hi.
        change (N.to_nat (ALLOCATION_JOURNAL_START_BLOCK + 1 * ALLOCATION_JOURNAL_SLOT_BLOCKS)) with 4%nat. lia. }
    rewrite Q. rewrite U. unfold img', rolled_back. rewrite Q. cbn [jnext j_gen]. rewrite W.
    unfold decode_journal. rewrite Z, D, encode_journal_not_zero, (clear_journal_slot_roundtrip _ _ _ G0 G1).
    destruct (N.ltb_spec (jgen + 1) jgen); [lia|reflexivity].
  - assert (Q : j_slot (jnext (mkjpos jgen 1)) = 0) by (vm_compute; reflexivity).
    destruct (slot_bytes_written (write_markers img [(s, n)]) 0 (jgen + 1) ltac:(vm_compute; reflexivity) L7) as (rest & W).
    assert (U : slot_bytes img' 1 = slot_bytes img 1).
    { apply slot_bytes_unchanged; [exact Len|]. intros i Hi. apply rolled_back_low_blocks; try assumption.
      - change (N.to_nat (ALLOCATION_JOURNAL_START_BLOCK + 1 * ALLOCATION_JOURNAL_SLOT_BLOCKS)) with 4%nat in Hi. change (N.to_nat FEOX_DATA_START_BLOCK) with 16%nat. lia.
      - rewrite Q. change (N.to_nat (ALLOCATION_JOURNAL_START_BLOCK + 1 * ALLOCATION_JOURNAL_SLOT_BLOCKS)) with 4%nat in Hi.
        change (N.to_nat (ALLOCATION_JOURNAL_START_BLOCK + 0 * ALLOCATION_JOURNAL_SLOT_BLOCKS)) with 1%nat.
        change (N.to_nat ALLOCATION_JOURNAL_SLOT_BLOCKS) with 3%nat. lia. }
    rewrite Q. rewrite U. unfold img', rolled_back. rewrite Q. cbn [jnext j_gen]. rewrite W.
    unfold decode_journal. rewrite Z, D, encode_journal_not_zero, (clear_journal_slot_roundtrip _ _ _ G0 G1).
    destruct (N.ltb_spec jgen (jgen + 1)); [reflexivity|lia].
Qed.

(* C04 for this class of crash images: what the first open leaves behind is a file at rest, so
   opening it again -- any number of times -- changes nothing and gives the same answer *)
Theorem recovery_from_a_crashed_batch_is_idempotent c img m jgen jslot its1 r its2 k :
  c_ro c = false -> c_now c = None ->
  (17 <= length img)%nat ->
  let total := N.of_nat (length img) in
  let mb := if select_meta (nth_block img 0) (nth_block img (N.to_nat FEOX_METADATA_BACKUP_BLOCK))
            then nth_block img (N.to_nat FEOX_METADATA_BACKUP_BLOCK) else nth_block img 0 in
  let v := m_version m in
  let s := FEOX_DATA_START_BLOCK + isum v its1 in
  let n := need_of v r in
  list_eqb (firstn 8 mb) SIGNATURE = true -> decode_meta mb = Some m -> has_token v = true ->
  decode_journal (slot_bytes img 0) (slot_bytes img 1) total = Some (jgen, jslot, [(s, n)]) ->
  jgen < U64MAX ->
  total * FEOX_BLOCK_SIZE < U64 ->
  Forall (item_ok v) (its1 ++ IRec r :: its2) -> distinct_keys (recs_of (its1 ++ its2)) ->
  skipn (N.to_nat FEOX_DATA_START_BLOCK) img = ilayout v FEOX_DATA_START_BLOCK (its1 ++ IRec r :: its2) ->
  let img' := snd (open_image c img) in
  reopen c k img' = open_image c img' /\ snd (open_image c img') = img'.
Proof.
  intros Hrw Hnow Hlen total mb v s n Hsig Hdec Htok Hj Hg Hu Hok Hd Himg img'.
  destruct (crashed_batch_is_rolled_back c img m jgen jslot its1 r its2 Hrw Hnow Hlen Hsig Hdec Htok Hj Hg Hu Hok Hd Himg)
    as (o & im & E & Len & Lay & _ & _ & _ & Eq).
  fold total mb v s n in E, Len, Lay, Eq.
  assert (Ei : img' = im) by (unfold img'; rewrite E; reflexivity).
  rewrite Ei. clear Ei img'.
  assert (Hl7 : (N.to_nat FEOX_METADATA_BACKUP_BLOCK <= length img)%nat) by (change (N.to_nat FEOX_METADATA_BACKUP_BLOCK) with 7%nat; lia).
  assert (Hs : FEOX_DATA_START_BLOCK <= s) by (unfold s; lia).
  pose proof (proj1 (Forall_app _ _ _) Hok) as [Hok1 Hok2r].
  pose proof (Forall_inv Hok2r) as Hr. pose proof (Forall_inv_tail Hok2r) as Hok2.
  assert (Hn : 0 < n) by (apply need_of_pos; exact Hr).
  assert (Hok' : Forall (item_ok v) (its1 ++ IMark n :: its2)).
  { apply Forall_app. split; [exact Hok1|]. constructor; [exact Hn|exact Hok2]. }
  assert (Hd' : distinct_keys (recs_of (its1 ++ IMark n :: its2))) by (rewrite !recs_of_app in *; exact Hd).
  (* the metadata copies are where they were *)
  assert (B0 : nth_block im 0 = nth_block img 0).
  { unfold nth_block. rewrite Eq. apply rolled_back_low_blocks; try assumption; [change (N.to_nat FEOX_DATA_START_BLOCK) with 16%nat; lia|].
    left. destruct (journal_slots_lie_between_the_metadata_copies _ (jnext_slot (mkjpos jgen jslot))) as (A & _). cbv zeta in A.
    change FEOX_METADATA_BLOCK with 0 in A. lia. }
  assert (B7 : nth_block im (N.to_nat FEOX_METADATA_BACKUP_BLOCK) = nth_block img (N.to_nat FEOX_METADATA_BACKUP_BLOCK)).
  { unfold nth_block. rewrite Eq. apply rolled_back_low_blocks; try assumption; [vm_compute; lia|].
    right. destruct (journal_slots_lie_between_the_metadata_copies _ (jnext_slot (mkjpos jgen jslot))) as (_ & A & _). cbv zeta in A. lia. }
  (* its journal is clear *)
  pose proof (rolled_back_journal img jgen jslot s n total [(s, n)] Hl7 Hs Hg ltac:(discriminate) Hj) as J. cbv zeta in J. rewrite <- Eq in J.
  apply (reopening_a_quiescent_file_changes_nothing c im m (jgen + 1) (j_slot (jnext (mkjpos jgen jslot))) (its1 ++ IMark n :: its2) k Hrw Hnow).
  - rewrite Len. exact Hlen.
  - rewrite B0, B7. exact Hsig.
  - rewrite B0, B7. exact Hdec.
  - exact Htok.
  - rewrite Len. exact J.
  - rewrite Len. exact Hu.
  - exact Hok'.
  - exact Hd'.
  - exact Lay.
Qed.
