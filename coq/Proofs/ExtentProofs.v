(* The pin/retire protocol is safe under every interleaving of any number of readers with the
   retirement pipeline and later owners of the blocks. *)
From Coq Require Import List NArith Bool Arith Lia.
From Feox Require Import Model.Extent.
Import ListNotations.

Definition pinned (r : rpc) : nat := match r with RPinned | RGot _ => 1 | _ => 0 end.
Fixpoint count (l : list rpc) : nat := match l with [] => 0 | r :: t => pinned r + count t end.

Lemma count_set_nth l i r r' :
  nth_error l i = Some r -> count (set_nth i r' l) + pinned r = count l + pinned r'.
Proof.
  revert i. induction l as [|x t IH]; intros [|i] H; cbn in *; try discriminate.
  - inversion H. subst. lia.
  - specialize (IH i H). lia.
Qed.

Lemma nth_set_nth_same {A} (l : list A) i a x : nth_error l i = Some x -> nth_error (set_nth i a l) i = Some a.
Proof. revert i. induction l as [|y t IH]; intros [|i] H; cbn in *; try discriminate; [reflexivity | exact (IH i H)]. Qed.

Lemma nth_set_nth_other {A} (l : list A) i j a : i <> j -> nth_error (set_nth i a l) j = nth_error l j.
Proof.
  revert i j. induction l as [|y t IH]; intros [|i] [|j] Hne; cbn; try reflexivity; try congruence.
  apply IH. congruence.
Qed.

Definition past_bit (x : wpc) : bool := match x with WIdle => false | _ => true end.
Definition past_check (x : wpc) : bool := match x with WIdle | WBit => false | _ => true end.
Definition before_marker (x : wpc) : bool := match x with WIdle | WBit | WClear1 => true | _ => false end.

Record EInv (s : est) : Prop := {
  ei_count : readers s = count (rs s);
  ei_bit : past_bit (w s) = true -> retired s = true;
  ei_zero : past_check (w s) = true -> readers s = 0;
  ei_data : before_marker (w s) = true -> cont s = CData;
  ei_got : forall i c, nth_error (rs s) i = Some (RGot c) -> c = CData;
  ei_done : forall i c, nth_error (rs s) i = Some (RDone (Some c)) -> c = CData
}.

Lemma count_repeat n : count (repeat RStart n) = 0.
Proof. induction n; cbn; auto. Qed.

Lemma einit_EInv n : EInv (einit n).
Proof.
  constructor; cbn; try discriminate; try reflexivity.
  - symmetry. apply count_repeat.
  - intros i c H. apply nth_error_In in H. apply repeat_spec in H. discriminate.
  - intros i c H. apply nth_error_In in H. apply repeat_spec in H. discriminate.
Qed.

Lemma pinned_pos l i r : nth_error l i = Some r -> pinned r = 1 -> 1 <= count l.
Proof.
  revert i. induction l as [|x t IH]; intros [|i] H Hp; cbn in *; try discriminate.
  - inversion H. subst. lia.
  - specialize (IH i H Hp). lia.
Qed.

Theorem estep_EInv s a : EInv s -> EInv (estep s a).
Proof.
  intros [Hc Hb Hz Hd Hg Hdn]. destruct a as [i| |h]; cbn.
  - (* reader *)
    destruct (nth_error (rs s) i) as [r|] eqn:Hi; [|constructor; assumption].
    destruct r as [| |c|o].
    + (* acquire *)
      destruct (retired s) eqn:Hr.
      * constructor; cbn; try assumption.
        -- pose proof (count_set_nth _ _ _ (RDone None) Hi). cbn in H. lia.
        -- intros j c Hj. destruct (Nat.eq_dec i j) as [<-|Hne].
           ++ rewrite (nth_set_nth_same _ _ _ _ Hi) in Hj. discriminate.
           ++ rewrite (nth_set_nth_other _ _ _ _ Hne) in Hj. exact (Hg j c Hj).
        -- intros j c Hj. destruct (Nat.eq_dec i j) as [<-|Hne].
           ++ rewrite (nth_set_nth_same _ _ _ _ Hi) in Hj. discriminate.
           ++ rewrite (nth_set_nth_other _ _ _ _ Hne) in Hj. exact (Hdn j c Hj).
      * (* the bit is clear: the retirer has not started *)
        assert (Hw : w s = WIdle).
        { destruct (w s) eqn:E; try reflexivity; specialize (Hb eq_refl); congruence. }
        constructor; cbn; try assumption.
        -- pose proof (count_set_nth _ _ _ RPinned Hi). cbn in H. lia.
        -- rewrite Hw. discriminate.
        -- intros j c Hj. destruct (Nat.eq_dec i j) as [<-|Hne].
           ++ rewrite (nth_set_nth_same _ _ _ _ Hi) in Hj. discriminate.
           ++ rewrite (nth_set_nth_other _ _ _ _ Hne) in Hj. exact (Hg j c Hj).
        -- intros j c Hj. destruct (Nat.eq_dec i j) as [<-|Hne].
           ++ rewrite (nth_set_nth_same _ _ _ _ Hi) in Hj. discriminate.
           ++ rewrite (nth_set_nth_other _ _ _ _ Hne) in Hj. exact (Hdn j c Hj).
    + (* pread while pinned: the retirer cannot be past its check, so the blocks hold the record *)
      assert (Hpos : 1 <= readers s) by (rewrite Hc; exact (pinned_pos _ _ _ Hi eq_refl)).
      assert (Hcont : cont s = CData).
      { apply Hd. destruct (w s) eqn:E; try reflexivity; specialize (Hz eq_refl); lia. }
      constructor; cbn; try assumption.
      * pose proof (count_set_nth _ _ _ (RGot (cont s)) Hi). cbn in H. lia.
      * intros j c Hj. destruct (Nat.eq_dec i j) as [<-|Hne].
        -- rewrite (nth_set_nth_same _ _ _ _ Hi) in Hj. inversion Hj. subst. exact Hcont.
        -- rewrite (nth_set_nth_other _ _ _ _ Hne) in Hj. exact (Hg j c Hj).
      * intros j c Hj. destruct (Nat.eq_dec i j) as [<-|Hne].
        -- rewrite (nth_set_nth_same _ _ _ _ Hi) in Hj. discriminate.
        -- rewrite (nth_set_nth_other _ _ _ _ Hne) in Hj. exact (Hdn j c Hj).
    + (* release + identity check *)
      assert (Hpos : 1 <= readers s) by (rewrite Hc; exact (pinned_pos _ _ _ Hi eq_refl)).
      constructor; cbn; try assumption.
      * pose proof (count_set_nth _ _ _ (RDone (if is_data c then Some c else None)) Hi). cbn in H. lia.
      * intros Hp. specialize (Hz Hp). lia.
      * intros j c' Hj. destruct (Nat.eq_dec i j) as [<-|Hne].
        -- rewrite (nth_set_nth_same _ _ _ _ Hi) in Hj. discriminate.
        -- rewrite (nth_set_nth_other _ _ _ _ Hne) in Hj. exact (Hg j c' Hj).
      * intros j c' Hj. destruct (Nat.eq_dec i j) as [<-|Hne].
        -- rewrite (nth_set_nth_same _ _ _ _ Hi) in Hj. destruct c; cbn in Hj; inversion Hj. reflexivity.
        -- rewrite (nth_set_nth_other _ _ _ _ Hne) in Hj. exact (Hdn j c' Hj).
    + constructor; assumption.
  - (* retirer *)
    destruct (w s) eqn:Hw.
    + constructor; cbn; try assumption; try discriminate; try reflexivity.
    + destruct (Nat.eqb (readers s) 0) eqn:E; [|constructor; try assumption; rewrite Hw; assumption].
      apply Nat.eqb_eq in E. constructor; cbn; try assumption; intros _; exact E.
    + constructor; cbn; try assumption; try discriminate; intros _; apply Hz; reflexivity.
    + destruct (Nat.eqb (readers s) 0) eqn:E; [|constructor; try assumption; rewrite Hw; assumption].
      constructor; cbn; try assumption; try discriminate; intros _; apply Hz; reflexivity.
    + constructor; cbn; try assumption; try discriminate; intros _; apply Hz; reflexivity.
    + constructor; try assumption; rewrite Hw; assumption.
  - (* reuser *)
    destruct (w s) eqn:Hw; try (constructor; try assumption; rewrite Hw; assumption).
    constructor; cbn; try assumption; try discriminate.
Qed.

Theorem erun_EInv sched : forall s, EInv s -> EInv (erun s sched).
Proof.
  unfold erun. induction sched as [|a t IH]; intros s H; cbn; [exact H | apply IH; apply estep_EInv; exact H].
Qed.

(* every pread issued under a pin returns the generation's own bytes, and every completed read
   returned them or reported the extent stale: never a marker, never another key's record *)
Theorem read_is_genuine n sched i :
  let s := erun (einit n) sched in
  (forall c, nth_error (rs s) i = Some (RGot c) -> c = CData) /\
  (forall r, nth_error (rs s) i = Some (RDone r) -> r = Some CData \/ r = None).
Proof.
  intros s. pose proof (erun_EInv sched _ (einit_EInv n)) as H. fold s in H. split.
  - intros c Hc. exact (ei_got _ H i c Hc).
  - intros r Hr. destruct r as [c|]; [left | right; reflexivity].
    rewrite (ei_done _ H i c Hr). reflexivity.
Qed.

(* the blocks change only when nobody holds a pin *)
Theorem pinned_not_overwritten s a : EInv s -> cont (estep s a) <> cont s -> readers s = 0.
Proof.
  intros H Hne. destruct a as [i| |h]; cbn in Hne.
  - destruct (nth_error (rs s) i) as [[| |c|o]|]; try (exfalso; apply Hne; reflexivity).
    destruct (retired s); exfalso; apply Hne; reflexivity.
  - destruct (w s) eqn:Hw; try (exfalso; apply Hne; reflexivity).
    + destruct (Nat.eqb (readers s) 0); exfalso; apply Hne; reflexivity.
    + apply (ei_zero _ H). rewrite Hw. reflexivity.
    + destruct (Nat.eqb (readers s) 0); exfalso; apply Hne; reflexivity.
  - destruct (w s) eqn:Hw; try (exfalso; apply Hne; reflexivity).
    apply (ei_zero _ H). rewrite Hw. reflexivity.
Qed.

(* once the retired bit is set no new reader gets in *)
Theorem no_new_reader_after_bit s i :
  retired s = true -> nth_error (rs s) i = Some RStart ->
  nth_error (rs (estep s (Reader i))) i = Some (RDone None) /\ readers (estep s (Reader i)) = readers s.
Proof.
  intros Hr Hi. cbn. rewrite Hi, Hr. cbn. split; [exact (nth_set_nth_same _ _ _ _ Hi) | reflexivity].
Qed.

(* the run-time monitor flags exactly a write that overlaps an open pin *)
Local Open Scope N_scope.
Theorem emon_flags_overlap pinned0 i s n t :
  emon pinned0 (EWrite s n :: t) i = Some i <-> existsb (fun p => overlaps s n (fst p) (snd p)) pinned0 = true.
Proof.
  cbn. destruct (existsb _ pinned0) eqn:E.
  - split; intros; reflexivity.
  - split; [|discriminate]. intros H. exfalso.
    assert (Hmono : forall evs p j k, emon p evs j = Some k -> j <= k).
    { clear. induction evs as [|e t IH]; intros p j k H; cbn in H; [discriminate|].
      destruct e.
      - specialize (IH _ _ _ H). lia.
      - specialize (IH _ _ _ H). lia.
      - destruct (existsb _ p); [inversion H; lia | specialize (IH _ _ _ H); lia]. }
    specialize (Hmono _ _ _ _ H). lia.
Qed.

(* ---- the trace monitor is exact: it returns None iff no write of the trace overlaps a pin that
   is open when the write is issued ---- *)
Fixpoint pins_after (pinned0 : list (N * N)) (evs : list eev) : list (N * N) :=
  match evs with
  | [] => pinned0
  | EPin s n :: t => pins_after ((s, n) :: pinned0) t
  | EUnpin s n :: t => pins_after (remove_one s n pinned0) t
  | EWrite _ _ :: t => pins_after pinned0 t
  end.

Lemma pins_after_app p a b : pins_after p (a ++ b) = pins_after (pins_after p a) b.
Proof. revert p. induction a as [|e t IH]; intros p; cbn; [reflexivity|]. destruct e; apply IH. Qed.

Theorem emon_none_iff_no_write_into_open_pin evs : forall pinned0 i,
  emon pinned0 evs i = None <->
  forall j s n, nth_error evs j = Some (EWrite s n) ->
    existsb (fun p => overlaps s n (fst p) (snd p)) (pins_after pinned0 (firstn j evs)) = false.
Proof.
  induction evs as [|e t IH]; intros p i; cbn [emon].
  - split; [intros _ [|j] s n H; discriminate | reflexivity].
  - destruct e as [s0 n0|s0 n0|s0 n0].
    + rewrite IH. split.
      * intros H [|j] s n Hj; [discriminate|]. cbn in Hj. cbn [firstn pins_after]. exact (H j s n Hj).
      * intros H j s n Hj. specialize (H (S j) s n Hj). cbn [firstn pins_after] in H. exact H.
    + rewrite IH. split.
      * intros H [|j] s n Hj; [discriminate|]. cbn in Hj. cbn [firstn pins_after]. exact (H j s n Hj).
      * intros H j s n Hj. specialize (H (S j) s n Hj). cbn [firstn pins_after] in H. exact H.
    + destruct (existsb (fun q => overlaps s0 n0 (fst q) (snd q)) p) eqn:E.
      * split; [discriminate|]. intros H. specialize (H 0%nat s0 n0 eq_refl). cbn in H. congruence.
      * rewrite IH. split.
        -- intros H [|j] s n Hj.
           ++ cbn in Hj. inversion Hj. subst. cbn. exact E.
           ++ cbn in Hj. cbn [firstn pins_after]. exact (H j s n Hj).
        -- intros H j s n Hj. specialize (H (S j) s n Hj). cbn [firstn pins_after] in H. exact H.
Qed.
