(* Every shard has exactly one owner; the periodic coordinator wakes the owner of every non-empty
   shard; a woken worker's pass empties its shards: so whatever is queued at a tick is written
   once the workers woken by that tick have run -- one flush interval plus their I/O time. *)
From Coq Require Import List Arith Bool Lia.
From Feox Require Import Model.WriteBehind.
Import ListNotations.

Lemma stride_in fuel : forall cur W S s,
  0 < W -> S <= cur + fuel * W ->
  (In s (stride fuel cur W S) <-> s < S /\ cur <= s /\ (s - cur) mod W = 0).
Proof.
  induction fuel as [|f IH]; intros cur W S s HW Hf; cbn [stride].
  - split; [intros []|]. intros [H1 [H2 _]]. cbn in Hf. lia.
  - destruct (cur <? S) eqn:E.
    + apply Nat.ltb_lt in E. cbn [In]. rewrite IH by (try assumption; cbn in Hf; lia). split.
      * intros [<-|[H1 [H2 H3]]].
        -- split; [exact E|]. split; [lia|]. rewrite Nat.sub_diag. apply Nat.mod_0_l. lia.
        -- split; [exact H1|]. split; [lia|].
           replace (s - cur) with ((s - (cur + W)) + 1 * W) by lia.
           rewrite Nat.mod_add by lia. exact H3.
      * intros [H1 [H2 H3]]. destruct (Nat.eq_dec cur s) as [->|Hne]; [left; reflexivity|right].
        split; [exact H1|].
        assert (Hge : W <= s - cur).
        { destruct (Nat.lt_ge_cases (s - cur) W) as [Hlt|Hge]; [|exact Hge].
          rewrite Nat.mod_small in H3 by exact Hlt. lia. }
        split; [lia|].
        replace (s - cur) with ((s - (cur + W)) + 1 * W) in H3 by lia.
        rewrite Nat.mod_add in H3 by lia. exact H3.
    + apply Nat.ltb_ge in E. split; [intros []|]. intros [H1 [H2 _]]. lia.
Qed.

(* worker w (< W) owns exactly the shards congruent to w modulo W *)
Theorem shards_of_spec W S w s :
  0 < W -> w < W -> (In s (shards_of W S w) <-> s < S /\ s mod W = w).
Proof.
  intros HW Hw. unfold shards_of. rewrite stride_in by (try assumption; nia). split.
  - intros [H1 [H2 H3]]. split; [exact H1|].
    assert (Hs : s = w + ((s - w) / W) * W).
    { pose proof (Nat.div_mod (s - w) W ltac:(lia)) as Hd. rewrite H3 in Hd. nia. }
    rewrite Hs. rewrite Nat.mod_add by lia. apply Nat.mod_small. exact Hw.
  - intros [H1 H2]. split; [exact H1|].
    pose proof (Nat.div_mod s W ltac:(lia)) as Hd. rewrite H2 in Hd.
    split; [nia|]. replace (s - w) with ((s / W) * W) by nia. apply Nat.mod_mul. lia.
Qed.

Theorem every_shard_has_exactly_one_owner W S s :
  0 < W -> s < S ->
  In s (shards_of W S (s mod W)) /\ s mod W < W /\
  forall w, w < W -> In s (shards_of W S w) -> w = s mod W.
Proof.
  intros HW Hs. assert (Hm : s mod W < W) by (apply Nat.mod_upper_bound; lia).
  split; [apply shards_of_spec; try assumption; split; [exact Hs | reflexivity]|].
  split; [exact Hm|]. intros w Hw Hin. apply shards_of_spec in Hin; try assumption. symmetry. exact (proj2 Hin).
Qed.

Lemma nth_upd_same {A} (l : list A) i f d : i < length l -> nth i (upd i f l) d = f (nth i l d).
Proof. revert i. induction l as [|x t IH]; intros [|i] H; cbn in *; try lia; [reflexivity | apply IH; lia]. Qed.
Lemma nth_upd_other {A} (l : list A) i j f d : i <> j -> nth j (upd i f l) d = nth j l d.
Proof. revert i j. induction l as [|x t IH]; intros [|i] [|j] H; cbn; try reflexivity; try congruence. apply IH. congruence. Qed.
Lemma length_upd {A} (l : list A) i f : length (upd i f l) = length l.
Proof. revert i. induction l as [|x t IH]; intros [|i]; cbn; try reflexivity. rewrite IH. reflexivity. Qed.

Lemma clear_all_length ss : forall b, length (clear_all ss b) = length b.
Proof. induction ss as [|s t IH]; intros b; cbn; [reflexivity|]. rewrite IH. apply length_upd. Qed.

Lemma clear_all_in ss : forall b s, In s ss -> s < length b -> nth s (clear_all ss b) [] = [].
Proof.
  induction ss as [|x t IH]; intros b s Hin Hs; [contradiction|]. cbn.
  destruct (in_dec Nat.eq_dec s t) as [Ht|Ht].
  - apply IH; [exact Ht | rewrite length_upd; exact Hs].
  - destruct Hin as [->|Hin]; [|contradiction].
    assert (Hkeep : forall ss b, ~ In s ss -> nth s (clear_all ss b) [] = nth s b []).
    { clear. induction ss as [|y u IH]; intros b Hn; cbn; [reflexivity|].
      rewrite IH by (intros H; apply Hn; right; exact H).
      apply nth_upd_other. intros ->. apply Hn. left. reflexivity. }
    rewrite Hkeep by exact Ht. rewrite nth_upd_same by exact Hs. reflexivity.
Qed.

Lemma clear_all_sub ss : forall b s x, In x (nth s (clear_all ss b) []) -> In x (nth s b []).
Proof.
  induction ss as [|y t IH]; intros b s x H; cbn in H; [exact H|].
  apply IH in H. destruct (Nat.eq_dec y s) as [->|Hne].
  - destruct (Nat.lt_ge_cases s (length b)) as [Hl|Hl].
    + rewrite nth_upd_same in H by exact Hl. contradiction.
    + rewrite nth_overflow in H by (rewrite length_upd; exact Hl). contradiction.
  - rewrite nth_upd_other in H by exact Hne. exact H.
Qed.

(* a worker's pass leaves its shards empty *)
Theorem run_empties_own_shards W S st w s :
  In s (shards_of W S w) -> s < length (bufs st) -> nth s (bufs (wstep W S st (Run w))) [] = [].
Proof. intros Hin Hs. cbn. apply clear_all_in; assumption. Qed.

Lemma nth_map_seq {A} (f : nat -> A) n i d : i < n -> nth i (map f (seq 0 n)) d = f i.
Proof.
  intros H. rewrite (nth_indep _ d (f 0)) by (rewrite map_length, seq_length; exact H).
  rewrite (map_nth f (seq 0 n) 0 i). rewrite seq_nth by exact H. reflexivity.
Qed.

(* the coordinator wakes the owner of every non-empty shard, and worker 0 for pending retirements *)
Theorem tick_wakes_owner W S st s x :
  0 < W -> s < S -> In x (nth s (bufs st) []) ->
  nth (s mod W) (woken (wstep W S st Tick)) false = true.
Proof.
  intros HW Hs Hx. cbn.
  assert (Hm : s mod W < W) by (apply Nat.mod_upper_bound; lia).
  rewrite nth_map_seq by exact Hm.
  apply orb_true_iff. right. unfold wants. apply orb_true_iff. left.
  apply existsb_exists. exists s. split.
  - apply (every_shard_has_exactly_one_owner W S s HW Hs).
  - destruct (nth s (bufs st) []); [contradiction | reflexivity].
Qed.

Theorem tick_wakes_worker0_for_retirements W S st x :
  0 < W -> In x (retq st) -> nth 0 (woken (wstep W S st Tick)) false = true.
Proof.
  intros HW Hx. cbn.
  rewrite nth_map_seq by exact HW.
  apply orb_true_iff. right. unfold wants. apply orb_true_iff. right.
  destruct (retq st); [contradiction | reflexivity].
Qed.

(* only Add puts an entry into a shard *)
Lemma step_adds W S st e s x :
  In x (nth s (bufs (wstep W S st e)) []) -> In x (nth s (bufs st) []) \/ e = Add s x.
Proof.
  destruct e as [s' x'|x'| |w]; cbn; intros H; try (left; exact H).
  - destruct (Nat.eq_dec s' s) as [->|Hne].
    + destruct (Nat.lt_ge_cases s (length (bufs st))) as [Hl|Hl].
      * rewrite nth_upd_same in H by exact Hl. apply in_app_or in H. destruct H as [H|[<-|[]]]; [left; exact H | right; reflexivity].
      * rewrite nth_overflow in H by (rewrite length_upd; exact Hl). contradiction.
    + rewrite nth_upd_other in H by exact Hne. left. exact H.
  - left. exact (clear_all_sub _ _ _ _ H).
Qed.

Lemma length_bufs_step W S st e : length (bufs (wstep W S st e)) = length (bufs st).
Proof. destruct e; cbn; try reflexivity; [apply length_upd | apply clear_all_length]. Qed.

Lemma run_no_add W S evs : forall st s x,
  ~ In (Add s x) evs -> ~ In x (nth s (bufs st) []) -> ~ In x (nth s (bufs (wrun W S st evs)) []).
Proof.
  unfold wrun. induction evs as [|e t IH]; intros st s x Hna Hn; cbn; [exact Hn|].
  apply IH; [intros H; apply Hna; right; exact H|].
  intros H. destruct (step_adds _ _ _ _ _ _ H) as [H1|H1]; [exact (Hn H1)|].
  apply Hna. left. exact H1.
Qed.

(* MAIN: whatever is queued in a shard is gone once the shard's owner has run, however the
   other events interleave, unless the same entry is queued again *)
Theorem queued_entry_is_flushed_by_owner W S st s x evs1 evs2 :
  0 < W -> s < S -> S = length (bufs st) ->
  ~ In (Add s x) (evs1 ++ Run (s mod W) :: evs2) ->
  ~ In x (nth s (bufs (wrun W S st (evs1 ++ Run (s mod W) :: evs2))) []).
Proof.
  intros HW Hs HS Hna. unfold wrun. rewrite fold_left_app. cbn [fold_left].
  apply run_no_add.
  - intros H. apply Hna. apply in_or_app. right. right. exact H.
  - assert (Hlen : length (bufs (fold_left (wstep W S) evs1 st)) = S).
    { clear Hna. revert st HS. induction evs1 as [|e t IH]; intros st HS; cbn; [symmetry; exact HS|].
      apply IH. rewrite length_bufs_step. exact HS. }
    rewrite run_empties_own_shards; [intros []| |rewrite Hlen; exact Hs].
    apply (every_shard_has_exactly_one_owner W S s HW Hs).
Qed.

(* retirements queued before worker 0's next pass are gone after it *)
Theorem run0_drains_retirements W S st : retq (wstep W S st (Run 0)) = [].
Proof. reflexivity. Qed.
