(* The scan over a data area that holds several generations of a key (C03 / C10, newest timestamp
   wins): records in any order and number per key, completed marker runs, free blocks.  The scan
   ends without error and computes exactly the newest-wins fold over the records in device order:
   an older generation than the indexed one is queued for retirement, a generation at least as new
   replaces it (the replaced extent is released and queued).  Consequently the index holds, for
   every key on the device, a generation at least as new as every generation of that key. *)
From Coq Require Import List NArith Bool Lia Arith.
From Feox Require Import Gen.Constants Model.Bytes Model.Crc32c Model.Codec Proofs.CodecProofs
                         Model.FreeSpace Proofs.FreeSpaceProofs Model.MetaJournal Model.Recovery
                         Proofs.ScanAcceptsProofs Proofs.ScanQuiescentProofs.
Import ListNotations.
Local Open Scope N_scope.
Local Transparent FEOX_BLOCK_SIZE FEOX_DATA_START_BLOCK.

(* ---- the fold the scan computes ---- *)
Definition eblocks (version : N) (e : entry) : N := extent_blocks version (N.of_nat (length (e_key e))) (e_vlen e).

Record sem := mksem { s_idx : list entry; s_ret : list (N * N); s_cnt : N }.

Definition sem_step (version : N) (a : sem) (p : rec * N) : sem :=
  let '(r, s) := p in
  match idx_find (r_key r) (s_idx a) with
  | Some ex =>
      if r_ts r <? e_ts ex then mksem (s_idx a) ((s, need_of version r) :: s_ret a) (s_cnt a)
      else mksem (idx_upsert (entry_of version r s) (s_idx a)) ((e_sector ex, eblocks version ex) :: s_ret a) (s_cnt a)
  | None => mksem (idx_upsert (entry_of version r s) (s_idx a)) (s_ret a) (s_cnt a + 1)
  end.

(* the records of a layout with the sectors they start at *)
Fixpoint placed (version sector : N) (its : list item) : list (rec * N) :=
  match its with
  | [] => []
  | IRec r :: t => (r, sector) :: placed version (sector + need_of version r) t
  | it :: t => placed version (sector + isize version it) t
  end.

(* ---- releases ---- *)
Lemma fs_release_ok st a n :
  Inv (rs_fs st) -> release_ok a n (rs_fs st) ->
  exists st1, fs_release st a n = Ok st1 /\
    rs_idx st1 = rs_idx st /\ rs_count st1 = rs_count st /\ rs_retired st1 = rs_retired st /\
    rs_last_end st1 = rs_last_end st /\ rs_mem st1 = rs_mem st /\ rs_disk st1 = rs_disk st /\ rs_ambiguous st1 = rs_ambiguous st /\
    Inv (rs_fs st1) /\ dev_sectors (rs_fs st1) = dev_sectors (rs_fs st) /\
    (forall b, free (rs_fs st1) b <-> free (rs_fs st) b \/ a <= b < a + n).
Proof.
  intros I Okk. unfold fs_release.
  destruct (release_cases a n (rs_fs st) I) as [(e & E & No)|(s' & E & _ & (I' & D' & F'))]; [contradiction|].
  rewrite E. eexists. split; [reflexivity|]. cbn [rs_idx rs_count rs_retired rs_last_end rs_mem rs_disk rs_ambiguous rs_fs].
  repeat (split; [reflexivity|]). split; [exact I'|]. split; [unfold dev_sectors; rewrite D'; reflexivity|exact F'].
Qed.

(* ---- the invariant: index and free-space manager against each other ---- *)
Section Gen.
Variable version : N.

Definition in_ext (e : entry) (b : N) : Prop := e_sector e <= b < e_sector e + eblocks version e.
Definition used (idx : list entry) (b : N) : Prop := exists k e, idx_find k idx = Some e /\ in_ext e b.

Record SJ (total sector : N) (st : rstate) : Prop := {
  sj_inv : Inv (rs_fs st);
  sj_dev : dev_sectors (rs_fs st) = total;
  sj_lo : DS <= rs_last_end st;
  sj_hi : rs_last_end st <= sector;
  sj_free : forall b, free (rs_fs st) b -> b < rs_last_end st /\ ~ used (rs_idx st) b;
  sj_ext : forall k e, idx_find k (rs_idx st) = Some e -> DS <= e_sector e /\ 0 < eblocks version e /\ e_sector e + eblocks version e <= rs_last_end st;
  sj_disj : forall k1 k2 e1 e2, idx_find k1 (rs_idx st) = Some e1 -> idx_find k2 (rs_idx st) = Some e2 -> k1 <> k2 ->
            forall b, in_ext e1 b -> ~ in_ext e2 b
}.

Lemma idx_find_key k l e : idx_find k l = Some e -> e_key e = k.
Proof.
  induction l as [|x t IH]; cbn [idx_find]; [discriminate|]. destruct (list_eqb (e_key x) k) eqn:E.
  - intros H. inversion H; subst. apply list_eqb_eq. exact E.
  - exact IH.
Qed.

Lemma idx_find_upsert x l k : idx_find k (idx_upsert x l) = if list_eqb (e_key x) k then Some x else idx_find k l.
Proof.
  destruct (list_eqb (e_key x) k) eqn:E.
  - apply list_eqb_eq in E. subst k. apply idx_find_upsert_same.
  - apply idx_find_upsert_other. exact E.
Qed.


Variable c : rcfg.
Variable total : N.
Variable jl : list (N * N).
Variable img : image.
Hypothesis Hrw : c_ro c = false.
Hypothesis Htok : has_token version = true.
Hypothesis Hmax : total <= U64MAX.

Definition sem_of (st : rstate) : sem := mksem (rs_idx st) (rs_retired st) (rs_count st).

Lemma eblocks_entry_of r s : eblocks version (entry_of version r s) = need_of version r.
Proof. reflexivity. Qed.

(* one record met by the scan: the three cases of the index *)
Lemma record_step sector st r rest' :
  rec_ok version r -> SJ total sector st -> sector + need_of version r <= total ->
  exists st1,
    scan_step c version total sector (chunk_blocks (encode_extent version sector r) (N.to_nat (need_of version r)) ++ rest') st jl
      = Ok (Advance (sector + need_of version r) st1 jl) /\
    SJ total (sector + need_of version r) st1 /\
    sem_of st1 = sem_step version (sem_of st) (r, sector) /\
    rs_last_end st <= rs_last_end st1.
Proof.
  intros Hr J Hin. pose proof (need_of_pos version r Hr) as NP.
  destruct Hr as (K0 & Kmax & Hf & V0 & Vmax & Ts & Ex).
  destruct J as [I D Lo Hi Fr Xt Dj].
  assert (Hin' : sector + extent_blocks version (N.of_nat (length (r_key r))) (N.of_nat (length (r_value r))) <= total) by (fold (need_of version r); exact Hin).
  unfold sem_step, sem_of. cbn [s_idx s_ret s_cnt].
  destruct (idx_find (r_key r) (rs_idx st)) as [ex|] eqn:F.
  - destruct (N.ltb_spec (r_ts r) (e_ts ex)) as [Hlt|Hge].
    + (* an older generation: queued for retirement, nothing else changes *)
      eexists. split; [apply (scan_step_retires_an_older_generation version sector r K0 Hf V0 Vmax Ts Ex c total st jl rest' Kmax Hin' ex Hrw F Hlt)|].
      fold (need_of version r). split; [|split; [reflexivity|cbn [rs_last_end]; lia]].
      constructor; cbn [rs_fs rs_last_end rs_idx]; try assumption. lia.
    + (* a generation at least as new: the indexed one is released and queued, the entry replaced *)
      pose proof (idx_find_key _ _ _ F) as Kex.
      destruct (Xt _ _ F) as (X1 & X2 & X3).
      assert (Rok : release_ok (e_sector ex) (eblocks version ex) (rs_fs st)).
      { unfold release_ok. split; [lia|]. split; [lia|]. split; [rewrite D; lia|]. intros b Hb Hfree. destruct (Fr b Hfree) as [_ Nu]. apply Nu. exists (r_key r), ex. split; [exact F|exact Hb]. }
      destruct (fs_release_ok st _ _ I Rok) as (st1 & R1 & I1 & C1 & T1 & L1 & M1 & K1 & A1 & Inv1 & D1 & F1).
      set (st3 := mkrs (rs_idx st1) (rs_fs st1) (rs_count st1)
                       (wsub (rs_mem st1) (record_size c (N.of_nat (length (e_key ex))) (e_vlen ex)))
                       (wsub (rs_disk st1) (eblocks version ex * FEOX_BLOCK_SIZE))
                       ((e_sector ex, eblocks version ex) :: rs_retired st1) (rs_last_end st1) (rs_ambiguous st1)).
      assert (G : exists st4, (if rs_last_end st3 <? sector then fs_release st3 (rs_last_end st3) (sector - rs_last_end st3) else Ok st3) = Ok st4 /\
                  rs_idx st4 = rs_idx st /\ rs_count st4 = rs_count st /\ rs_retired st4 = (e_sector ex, eblocks version ex) :: rs_retired st /\
                  Inv (rs_fs st4) /\ dev_sectors (rs_fs st4) = total /\
                  (forall b, free (rs_fs st4) b <-> free (rs_fs st) b \/ in_ext ex b \/ rs_last_end st <= b < sector)).
      { cbn [st3 rs_last_end]. rewrite L1. destruct (N.ltb_spec (rs_last_end st) sector) as [Hg|Hg].
        - assert (Rok3 : release_ok (rs_last_end st) (sector - rs_last_end st) (rs_fs st3)).
          { cbn [st3 rs_fs]. unfold release_ok. split; [lia|]. split; [lia|]. split; [rewrite D1, D; lia|].
            intros b Hb Hfree. apply F1 in Hfree. destruct Hfree as [Hfree|Hfree]; [destruct (Fr b Hfree); lia|lia]. }
          destruct (fs_release_ok st3 _ _ Inv1 Rok3) as (st4 & R4 & I4 & C4 & T4 & L4 & M4 & K4 & A4 & Inv4 & D4 & F4).
          exists st4. split; [exact R4|]. cbn [st3 rs_idx rs_count rs_retired rs_fs] in *.
          split; [rewrite I4; exact I1|]. split; [rewrite C4; exact C1|]. split; [rewrite T4, T1; reflexivity|].
          split; [exact Inv4|]. split; [rewrite D4, D1; exact D|].
          intros b. rewrite F4, F1. unfold in_ext. split.
          + intros [[H|H]|H]; [left; exact H|right; left; exact H|right; right; lia].
          + intros [H|[H|H]]; [left; left; exact H|left; right; exact H|right; lia].
        - exists st3. split; [reflexivity|]. cbn [st3 rs_idx rs_count rs_retired rs_fs].
          split; [exact I1|]. split; [exact C1|]. split; [rewrite T1; reflexivity|]. split; [exact Inv1|]. split; [rewrite D1; exact D|].
          intros b. rewrite F1. unfold in_ext. split; [intros [H|H]; [left; exact H|right; left; exact H]|intros [H|[H|H]]; [left; exact H|right; exact H|lia]]. }
      destruct G as (st4 & G4 & Gi & Gc & Gr & GI & GD & GF).
      eexists. split.
      { apply (scan_step_replaces_explicit version sector r K0 Hf V0 Vmax Ts Ex c total st jl rest' Kmax Hin' ex st1 st4 Hrw F Hge R1). exact G4. }
      fold (need_of version r). cbn [rs_idx rs_retired rs_count rs_last_end rs_fs].
      split; [|split; [rewrite Gi, Gr, Gc; reflexivity|lia]].
      constructor; cbn [rs_fs rs_last_end rs_idx]; try assumption; try lia.
      * (* free blocks lie below the new end and in no indexed extent *)
        intros b Hb. apply GF in Hb. split.
        -- destruct Hb as [Hb|[Hb|Hb]]; [destruct (Fr b Hb); lia|unfold in_ext in Hb; lia|lia].
        -- intros (k & e & Fk & Ib). rewrite Gi, idx_find_upsert in Fk. cbn [e_key] in Fk.
           destruct (list_eqb (r_key r) k) eqn:Ek.
           ++ inversion Fk; subst e. unfold in_ext, eblocks in Ib. cbn [e_sector e_key e_vlen] in Ib. fold (need_of version r) in Ib.
              destruct Hb as [Hb|[Hb|Hb]]; [destruct (Fr b Hb); lia|unfold in_ext in Hb; lia|lia].
           ++ destruct Hb as [Hb|[Hb|Hb]].
              ** destruct (Fr b Hb) as [_ Nu]. apply Nu. exists k, e. split; assumption.
              ** assert (Hne : r_key r <> k) by (intros E0; rewrite E0, list_eqb_refl in Ek; discriminate).
                 exact (Dj _ _ _ _ F Fk Hne b Hb Ib).
              ** destruct (Xt _ _ Fk) as (_ & _ & Y3). unfold in_ext in Ib. lia.
      * intros k e Fk. rewrite Gi, idx_find_upsert in Fk. cbn [e_key] in Fk. destruct (list_eqb (r_key r) k).
        -- inversion Fk; subst e. unfold eblocks. cbn [e_sector e_key e_vlen]. fold (need_of version r). lia.
        -- destruct (Xt _ _ Fk) as (Y1 & Y2 & Y3). lia.
      * intros k1 k2 e1 e2 F1' F2' Hne b B1 B2. rewrite Gi, idx_find_upsert in F1', F2'. cbn [e_key] in F1', F2'.
        destruct (list_eqb (r_key r) k1) eqn:E1; destruct (list_eqb (r_key r) k2) eqn:E2.
        -- apply list_eqb_eq in E1. apply list_eqb_eq in E2. congruence.
        -- inversion F1'; subst e1. destruct (Xt _ _ F2') as (_ & _ & Y3). unfold in_ext in B1, B2. unfold eblocks in B1. cbn [e_sector e_key e_vlen] in B1. lia.
        -- inversion F2'; subst e2. destruct (Xt _ _ F1') as (_ & _ & Y3). unfold in_ext in B1, B2. unfold eblocks in B2. cbn [e_sector e_key e_vlen] in B2. lia.
        -- exact (Dj _ _ _ _ F1' F2' Hne b B1 B2).
  - (* a key the index does not hold yet *)
    assert (SI : SInv total sector st) by (constructor; try assumption; intros b Hb; exact (proj1 (Fr b Hb))).
    destruct (gap_release total sector st SI ltac:(lia)) as (st4 & G & Gi & Gc & Gr & GI & GD & GF).
    eexists. split.
    { apply (scan_step_accepts_encoded_record version sector r K0 Hf V0 Vmax Ts Ex c total st jl rest' Kmax Hin' st4 (or_introl Hrw) F G). }
    fold (need_of version r). cbn [rs_idx rs_retired rs_count rs_last_end rs_fs].
    split; [|split; [rewrite Gi, Gr, Gc; reflexivity|lia]].
    constructor; cbn [rs_fs rs_last_end rs_idx]; try assumption; try lia.
    + intros b Hb. apply GF in Hb. split; [destruct Hb as [Hb|Hb]; [destruct (Fr b Hb); lia|lia]|].
      intros (k & e & Fk & Ib). rewrite Gi, idx_find_upsert in Fk. cbn [e_key] in Fk. destruct (list_eqb (r_key r) k).
      * inversion Fk; subst e. unfold in_ext, eblocks in Ib. cbn [e_sector e_key e_vlen] in Ib. fold (need_of version r) in Ib.
        destruct Hb as [Hb|Hb]; [destruct (Fr b Hb); lia|lia].
      * destruct Hb as [Hb|Hb]; [destruct (Fr b Hb) as [_ Nu]; apply Nu; exists k, e; split; assumption|].
        destruct (Xt _ _ Fk) as (_ & _ & Y3). unfold in_ext in Ib. lia.
    + intros k e Fk. rewrite Gi, idx_find_upsert in Fk. cbn [e_key] in Fk. destruct (list_eqb (r_key r) k).
      * inversion Fk; subst e. unfold eblocks. cbn [e_sector e_key e_vlen]. fold (need_of version r). lia.
      * destruct (Xt _ _ Fk) as (Y1 & Y2 & Y3). lia.
    + intros k1 k2 e1 e2 F1' F2' Hne b B1 B2. rewrite Gi, idx_find_upsert in F1', F2'. cbn [e_key] in F1', F2'.
      destruct (list_eqb (r_key r) k1) eqn:E1; destruct (list_eqb (r_key r) k2) eqn:E2.
      * apply list_eqb_eq in E1. apply list_eqb_eq in E2. congruence.
      * inversion F1'; subst e1. destruct (Xt _ _ F2') as (_ & _ & Y3). unfold in_ext in B1, B2. unfold eblocks in B1. cbn [e_sector e_key e_vlen] in B1. lia.
      * inversion F2'; subst e2. destruct (Xt _ _ F1') as (_ & _ & Y3). unfold in_ext in B1, B2. unfold eblocks in B2. cbn [e_sector e_key e_vlen] in B2. lia.
      * exact (Dj _ _ _ _ F1' F2' Hne b B1 B2).
Qed.

Theorem scan_computes_the_newest_wins_fold : forall its fuel sector st,
  Forall (item_ok version) its -> SJ total sector st ->
  skipn (N.to_nat sector) img = ilayout version sector its ->
  total = sector + isum version its -> (length its < fuel)%nat ->
  exists st',
    scan fuel c version total img sector st jl = Ok st' /\
    SJ total total st' /\
    sem_of st' = fold_left (sem_step version) (placed version sector its) (sem_of st).
Proof.
  induction its as [|it t IH]; intros fuel sector st Hok J Himg Htot Hfuel.
  - cbn [isum] in Htot. exists st.
    assert (Sc : scan fuel c version total img sector st jl = Ok st)
      by (destruct fuel; cbn [scan]; destruct (N.leb_spec total sector); try lia; reflexivity).
    split; [exact Sc|]. split; [|reflexivity]. destruct J. constructor; try assumption; lia.
  - pose proof (Forall_inv Hok) as Hit. pose proof (Forall_inv_tail Hok) as Ht.
    pose proof (isize_pos version it Hit) as SP.
    cbn [isum] in Htot. destruct fuel as [|f]; [cbn in Hfuel; lia|]. cbn [scan].
    destruct (N.leb_spec total sector); [lia|]. rewrite Himg. cbn [ilayout].
    assert (Hskip : skipn (N.to_nat (sector + isize version it)) img = ilayout version (sector + isize version it) t).
    { replace (N.to_nat (sector + isize version it)) with (N.to_nat sector + N.to_nat (isize version it))%nat by lia.
      rewrite skipn_add, Himg. cbn [ilayout]. rewrite skipn_app, iblocks_length, Nat.sub_diag by exact Hit. cbn [skipn].
      rewrite skipn_all2 by (rewrite iblocks_length by exact Hit; lia). reflexivity. }
    assert (Hf' : (length t < f)%nat) by (cbn [length] in Hfuel; lia).
    destruct it as [r|n|]; cbn [isize iblocks placed] in *.
    + destruct (record_step sector st r (ilayout version (sector + need_of version r) t) Hit J ltac:(lia)) as (st1 & Sc & J1 & Sem & _).
      rewrite Sc. cbn [bind]. pose proof (need_of_pos version r Hit).
      destruct (N.leb_spec (sector + need_of version r) sector); [lia|].
      destruct (IH f (sector + need_of version r) st1 Ht J1 Hskip ltac:(lia) Hf') as (st' & Sc' & J' & Sem').
      exists st'. split; [exact Sc'|]. split; [exact J'|]. cbn [fold_left]. rewrite <- Sem. exact Sem'.
    + rewrite (scan_step_skips_a_complete_marker_run c version total sector n st jl _ (or_introl Hrw) Htok Hit ltac:(lia) Hmax).
      cbn [bind]. destruct (N.leb_spec (sector + n) sector); [lia|].
      assert (J1 : SJ total (sector + n) st) by (destruct J; constructor; try assumption; lia).
      exact (IH f (sector + n) st Ht J1 Hskip ltac:(lia) Hf').
    + cbn [app]. rewrite (scan_step_skips_a_zero_block c version total sector st jl _ (or_introl Hrw)).
      cbn [bind]. destruct (N.leb_spec (sector + 1) sector); [lia|].
      assert (J1 : SJ total (sector + 1) st) by (destruct J; constructor; try assumption; lia).
      exact (IH f (sector + 1) st Ht J1 Hskip ltac:(lia) Hf').
Qed.

End Gen.


(* ---- what the fold means: newest timestamp wins, whatever the order on the device ---- *)
Lemma sem_step_keeps_newer version a p k e :
  idx_find k (s_idx a) = Some e ->
  exists e', idx_find k (s_idx (sem_step version a p)) = Some e' /\ e_ts e <= e_ts e'.
Proof.
  intros H. destruct p as [r s]. unfold sem_step.
  destruct (idx_find (r_key r) (s_idx a)) as [ex|] eqn:F.
  - destruct (N.ltb_spec (r_ts r) (e_ts ex)); cbn [s_idx]; [exists e; split; [exact H|lia]|].
    rewrite idx_find_upsert. cbn [entry_of e_key]. destruct (list_eqb (r_key r) k) eqn:E.
    + apply list_eqb_eq in E. subst k. rewrite F in H. inversion H; subst ex. eexists. split; [reflexivity|cbn [e_ts entry_of]; lia].
    + exists e. split; [exact H|lia].
  - cbn [s_idx]. rewrite idx_find_upsert. cbn [entry_of e_key]. destruct (list_eqb (r_key r) k) eqn:E.
    + apply list_eqb_eq in E. subst k. congruence.
    + exists e. split; [exact H|lia].
Qed.

Lemma sem_fold_keeps_newer version ps : forall a k e,
  idx_find k (s_idx a) = Some e ->
  exists e', idx_find k (s_idx (fold_left (sem_step version) ps a)) = Some e' /\ e_ts e <= e_ts e'.
Proof.
  induction ps as [|p t IH]; intros a k e H; [exists e; split; [exact H|lia]|]. cbn [fold_left].
  destruct (sem_step_keeps_newer version a p k e H) as (e1 & H1 & L1).
  destruct (IH _ _ _ H1) as (e2 & H2 & L2). exists e2. split; [exact H2|lia].
Qed.

(* every generation on the device is dominated by the indexed generation of its key *)
Theorem newest_generation_wins version ps : forall a r s,
  In (r, s) ps ->
  exists e, idx_find (r_key r) (s_idx (fold_left (sem_step version) ps a)) = Some e /\ r_ts r <= e_ts e.
Proof.
  induction ps as [|p t IH]; intros a r s Hin; [destruct Hin|]. cbn [fold_left]. destruct Hin as [->|Hin]; [|exact (IH _ _ _ Hin)].
  assert (H1 : exists e1, idx_find (r_key r) (s_idx (sem_step version a (r, s))) = Some e1 /\ r_ts r <= e_ts e1).
  { unfold sem_step. destruct (idx_find (r_key r) (s_idx a)) as [ex|] eqn:F.
    - destruct (N.ltb_spec (r_ts r) (e_ts ex)); cbn [s_idx].
      + exists ex. split; [exact F|lia].
      + eexists. rewrite idx_find_upsert. cbn [entry_of e_key]. rewrite list_eqb_refl. split; [reflexivity|cbn [e_ts entry_of]; lia].
    - cbn [s_idx]. eexists. rewrite idx_find_upsert. cbn [entry_of e_key]. rewrite list_eqb_refl. split; [reflexivity|cbn [e_ts entry_of]; lia]. }
  destruct H1 as (e1 & F1 & L1). destruct (sem_fold_keeps_newer version t _ _ _ F1) as (e2 & F2 & L2).
  exists e2. split; [exact F2|lia].
Qed.

(* and every indexed entry is a generation that is on the device (or was indexed before) *)
Theorem indexed_generations_are_genuine version ps : forall a k e,
  idx_find k (s_idx (fold_left (sem_step version) ps a)) = Some e ->
  idx_find k (s_idx a) = Some e \/ exists r s, In (r, s) ps /\ e = entry_of version r s.
Proof.
  induction ps as [|p t IH]; intros a k e H; [left; exact H|]. cbn [fold_left] in H.
  destruct (IH _ _ _ H) as [H1|(r & s & Hin & E)]; [|right; exists r, s; split; [right; exact Hin|exact E]].
  destruct p as [r s]. unfold sem_step in H1. destruct (idx_find (r_key r) (s_idx a)) as [ex|] eqn:F.
  - destruct (r_ts r <? e_ts ex); cbn [s_idx] in H1; [left; exact H1|].
    rewrite idx_find_upsert in H1. destruct (list_eqb (e_key (entry_of version r s)) k); [|left; exact H1].
    inversion H1. right. exists r, s. split; [left; reflexivity|reflexivity].
  - cbn [s_idx] in H1. rewrite idx_find_upsert in H1. destruct (list_eqb (e_key (entry_of version r s)) k); [|left; exact H1].
    inversion H1. right. exists r, s. split; [left; reflexivity|reflexivity].
Qed.

(* from the state open_image starts the scan with *)
Theorem scan_keeps_the_newest_generation_of_every_key c version total jl img its st0 fuel :
  c_ro c = false -> has_token version = true -> total <= U64MAX ->
  (length its < fuel)%nat ->
  rs_fs st0 = mkfs [] (total * FEOX_BLOCK_SIZE) 0 0 -> rs_last_end st0 = FEOX_DATA_START_BLOCK -> rs_idx st0 = [] ->
  total * FEOX_BLOCK_SIZE < U64 ->
  Forall (item_ok version) its ->
  skipn (N.to_nat FEOX_DATA_START_BLOCK) img = ilayout version FEOX_DATA_START_BLOCK its ->
  total = FEOX_DATA_START_BLOCK + isum version its -> 0 < isum version its ->
  exists st',
    scan fuel c version total img FEOX_DATA_START_BLOCK st0 jl = Ok st' /\
    sem_of st' = fold_left (sem_step version) (placed version FEOX_DATA_START_BLOCK its) (sem_of st0) /\
    (forall r s, In (r, s) (placed version FEOX_DATA_START_BLOCK its) ->
                 exists e, idx_find (r_key r) (rs_idx st') = Some e /\ r_ts r <= e_ts e) /\
    (forall k e, idx_find k (rs_idx st') = Some e ->
                 exists r s, In (r, s) (placed version FEOX_DATA_START_BLOCK its) /\ e = entry_of version r s).
Proof.
  intros Hrw Htok Hmax Hfuel Hfs Hle Hidx Hu Hok Himg Htot Hpos.
  assert (J0 : SJ version total FEOX_DATA_START_BLOCK st0).
  { constructor.
    - rewrite Hfs. constructor; cbn.
      + unfold dev_sectors. cbn. rewrite N.div_mul by (unfold FEOX_BLOCK_SIZE; lia). lia.
      + exact Hu.
      + exact I.
      + reflexivity.
      + reflexivity.
    - rewrite Hfs. unfold dev_sectors. cbn. apply N.div_mul. unfold FEOX_BLOCK_SIZE. lia.
    - rewrite Hle. lia.
    - rewrite Hle. lia.
    - rewrite Hfs. intros b Hb. exfalso. exact (freel_nil b Hb).
    - rewrite Hidx. intros k e H. discriminate.
    - rewrite Hidx. intros k1 k2 e1 e2 H. discriminate. }
  destruct (scan_computes_the_newest_wins_fold version c total jl img Hrw Htok Hmax its fuel FEOX_DATA_START_BLOCK st0 Hok J0 Himg Htot Hfuel)
    as (st' & Sc & _ & Sem).
  exists st'. split; [exact Sc|]. split; [exact Sem|].
  assert (Ei : rs_idx st' = s_idx (fold_left (sem_step version) (placed version FEOX_DATA_START_BLOCK its) (sem_of st0))) by (rewrite <- Sem; reflexivity).
  split.
  - intros r s Hin. rewrite Ei. exact (newest_generation_wins version _ _ r s Hin).
  - intros k e H. rewrite Ei in H. destruct (indexed_generations_are_genuine version _ _ _ _ H) as [H0|H0]; [|exact H0].
    cbn [sem_of s_idx] in H0. rewrite Hidx in H0. discriminate.
Qed.
