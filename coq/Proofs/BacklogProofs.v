From Coq Require Import List Arith Bool Lia.
From Feox Require Import Model.WriteBehind Model.Backlog Proofs.WriteBehindProofs.
Import ListNotations.

Record BlInv (S : nat) (st : bl) : Prop := mkBlInv {
  bi_lb : length (b_bufs st) = S;
  bi_lc : length (b_cnts st) = S;
  bi_lh : length (b_hand st) = S;
  bi_cnt : forall s, s < S -> nth s (b_cnts st) 0 = length (nth s (b_bufs st) [])
}.

Lemma binit_inv W S : BlInv S (binit W S).
Proof.
  constructor; cbn; try apply repeat_length.
  intros s Hs. rewrite !nth_repeat. reflexivity.
Qed.

Lemma split_back_len hand : forall back, length (fst (split_back hand back)) + length (snd (split_back hand back)) = length hand.
Proof.
  induction hand as [|x t IH]; intros back; [reflexivity|]. cbn [split_back].
  specialize (IH (tl back)). destruct (split_back t (tl back)) as [r w].
  destruct (match back with b :: _ => b | [] => false end); cbn in *; lia.
Qed.

Lemma split_back_in hand : forall back x,
  In x hand <-> In x (fst (split_back hand back)) \/ In x (snd (split_back hand back)).
Proof.
  induction hand as [|y t IH]; intros back x; [cbn; tauto|]. cbn [split_back].
  specialize (IH (tl back) x). destruct (split_back t (tl back)) as [r w].
  destruct (match back with b :: _ => b | [] => false end); cbn in *; tauto.
Qed.

Theorem bstep_inv W S st e : BlInv S st -> BlInv S (bstep W S st e).
Proof.
  intros [Lb Lc Lh C]. destruct e as [s x| |s|s back]; cbn [bstep].
  - destruct (Nat.ltb_spec s S) as [Hs|Hs]; [|constructor; assumption].
    constructor; cbn [b_bufs b_cnts b_hand]; rewrite ?length_upd; try assumption.
    intros s' Hs'. destruct (Nat.eq_dec s s') as [<-|Hne].
    + rewrite !nth_upd_same by lia. rewrite app_length. cbn. rewrite C by exact Hs. lia.
    + rewrite !nth_upd_other by exact Hne. apply C. exact Hs'.
  - constructor; assumption.
  - destruct ((s <? S) && negb (nonempty (nth s (b_hand st) []))) eqn:G; [|constructor; assumption].
    apply andb_true_iff in G. destruct G as [Hs _]. apply Nat.ltb_lt in Hs.
    constructor; cbn [b_bufs b_cnts b_hand]; rewrite ?length_upd; try assumption.
    intros s' Hs'. destruct (Nat.eq_dec s s') as [<-|Hne].
    + rewrite !nth_upd_same by lia. reflexivity.
    + rewrite !nth_upd_other by exact Hne. apply C. exact Hs'.
  - destruct (Nat.ltb_spec s S) as [Hs|Hs]; [|constructor; assumption].
    destruct (split_back (nth s (b_hand st) []) back) as [r w] eqn:E.
    constructor; cbn [b_bufs b_cnts b_hand]; rewrite ?length_upd; try assumption.
    intros s' Hs'. destruct (Nat.eq_dec s s') as [<-|Hne].
    + rewrite !nth_upd_same by lia. rewrite app_length. rewrite C by exact Hs. lia.
    + rewrite !nth_upd_other by exact Hne. apply C. exact Hs'.
Qed.

Theorem brun_inv W S evs : forall st, BlInv S st -> BlInv S (brun W S st evs).
Proof.
  induction evs as [|e t IH]; intros st I; [exact I|]. unfold brun. cbn [fold_left]. apply IH. apply bstep_inv. exact I.
Qed.

(* the counter the coordinator looks at is the length of the queue, in every reachable state *)
Theorem counter_is_the_backlog W S evs s :
  s < S -> nth s (b_cnts (brun W S (binit W S) evs)) 0 = length (nth s (b_bufs (brun W S (binit W S) evs)) []).
Proof. intros Hs. exact (bi_cnt _ _ (brun_inv W S evs _ (binit_inv W S)) s Hs). Qed.

(* so a tick wakes the owner of every shard that has anything queued *)
Theorem tick_wakes_owner_of_backlog W S evs s x :
  0 < W -> s < S ->
  In x (nth s (b_bufs (brun W S (binit W S) evs)) []) ->
  nth (s mod W) (b_woken (bstep W S (brun W S (binit W S) evs) BTick)) false = true.
Proof.
  intros HW Hs Hx. set (st := brun W S (binit W S) evs) in *. cbn [bstep b_woken].
  assert (Hm : s mod W < W) by (apply Nat.mod_upper_bound; lia).
  rewrite nth_map_seq by exact Hm.
  apply orb_true_iff. right. unfold counted. apply existsb_exists. exists s. split.
  - apply (every_shard_has_exactly_one_owner W S s HW Hs).
  - unfold st. rewrite counter_is_the_backlog by exact Hs. fold st.
    destruct (nth s (b_bufs st) []); [contradiction|reflexivity].
Qed.

(* nothing is dropped: every entry accepted into a shard is written, queued, or in its owner's hands *)
Definition somewhere (st : bl) (x : nat) : Prop :=
  In x (b_written st) \/ (exists s, In x (nth s (b_bufs st) [])) \/ (exists s, In x (nth s (b_hand st) [])).

Lemma somewhere_step W S st e x : BlInv S st -> somewhere st x -> somewhere (bstep W S st e) x.
Proof.
  intros [Lb Lc Lh C] H. destruct e as [s y| |s|s back]; cbn [bstep].
  - destruct (Nat.ltb_spec s S) as [Hs|Hs]; [|exact H].
    destruct H as [H|[[s' H]|[s' H]]]; [left; exact H| |right; right; exists s'; exact H].
    right. left. exists s'. cbn [b_bufs]. destruct (Nat.eq_dec s s') as [<-|Hne].
    + rewrite nth_upd_same by lia. apply in_or_app. left. exact H.
    + rewrite nth_upd_other by exact Hne. exact H.
  - exact H.
  - destruct ((s <? S) && negb (nonempty (nth s (b_hand st) []))) eqn:G; [|exact H].
    apply andb_true_iff in G. destruct G as [Hs Hn]. apply Nat.ltb_lt in Hs.
    assert (He : nth s (b_hand st) [] = []) by (destruct (nth s (b_hand st) []); [reflexivity|discriminate]).
    destruct H as [H|[[s' H]|[s' H]]]; [left; exact H| |].
    + destruct (Nat.eq_dec s s') as [<-|Hne].
      * right. right. exists s. cbn [b_hand]. rewrite nth_upd_same by lia. exact H.
      * right. left. exists s'. cbn [b_bufs]. rewrite nth_upd_other by exact Hne. exact H.
    + destruct (Nat.eq_dec s s') as [<-|Hne]; [rewrite He in H; contradiction|].
      right. right. exists s'. cbn [b_hand]. rewrite nth_upd_other by exact Hne. exact H.
  - destruct (Nat.ltb_spec s S) as [Hs|Hs]; [|exact H].
    destruct (split_back (nth s (b_hand st) []) back) as [r w] eqn:E.
    destruct H as [H|[[s' H]|[s' H]]].
    + left. cbn [b_written]. apply in_or_app. right. exact H.
    + right. left. exists s'. cbn [b_bufs]. destruct (Nat.eq_dec s s') as [<-|Hne].
      * rewrite nth_upd_same by lia. apply in_or_app. right. exact H.
      * rewrite nth_upd_other by exact Hne. exact H.
    + destruct (Nat.eq_dec s s') as [<-|Hne].
      * apply (split_back_in _ back) in H. rewrite E in H. cbn [fst snd] in H. destruct H as [H|H].
        -- right. left. exists s. cbn [b_bufs]. rewrite nth_upd_same by lia. apply in_or_app. left. exact H.
        -- left. cbn [b_written]. apply in_or_app. left. apply in_rev in H. exact H.
      * right. right. exists s'. cbn [b_hand]. rewrite nth_upd_other by exact Hne. exact H.
Qed.

Theorem accepted_entry_is_never_dropped W S evs1 evs2 s x :
  s < S ->
  somewhere (brun W S (binit W S) (evs1 ++ BAdd s x :: evs2)) x.
Proof.
  intros Hs. unfold brun. rewrite fold_left_app. cbn [fold_left].
  set (st1 := fold_left (bstep W S) evs1 (binit W S)).
  assert (I1 : BlInv S st1) by (apply (brun_inv W S evs1 _ (binit_inv W S))).
  assert (H0 : somewhere (bstep W S st1 (BAdd s x)) x).
  { cbn [bstep]. destruct (Nat.ltb_spec s S) as [_|Hn]; [|lia].
    right. left. exists s. cbn [b_bufs]. rewrite nth_upd_same by (rewrite (bi_lb _ _ I1); exact Hs).
    apply in_or_app. right. left. reflexivity. }
  assert (I2 : BlInv S (bstep W S st1 (BAdd s x))) by (apply bstep_inv; exact I1).
  revert H0 I2. generalize (bstep W S st1 (BAdd s x)). induction evs2 as [|e t IH]; intros st H I; [exact H|].
  cbn [fold_left]. apply IH; [apply somewhere_step with (S := S); assumption|apply bstep_inv; exact I].
Qed.

(* a pass that its owner completes without sending anything back writes everything it took *)
Theorem completed_pass_writes_what_it_took W S st s x :
  BlInv S st -> s < S -> nth s (b_hand st) [] = [] -> In x (nth s (b_bufs st) []) ->
  In x (b_written (bstep W S (bstep W S st (BDrain s)) (BFinish s []))).
Proof.
  intros I Hs He Hx. apply Nat.ltb_lt in Hs as Hs'.
  assert (D : bstep W S st (BDrain s)
              = mkbl (upd s (fun _ => []) (b_bufs st)) (upd s (fun _ => 0) (b_cnts st))
                     (upd s (fun _ => nth s (b_bufs st) []) (b_hand st))
                     (upd (owner_of W s) (fun _ => false) (b_woken st)) (b_written st)).
  { cbn [bstep]. rewrite Hs', He. reflexivity. }
  rewrite D. cbn [bstep b_hand b_bufs b_cnts b_woken b_written]. rewrite Hs'.
  rewrite nth_upd_same by (rewrite (bi_lh _ _ I); exact Hs).
  assert (E : forall h, split_back h [] = ([], h)).
  { induction h as [|y t IHh]; [reflexivity|]. cbn [split_back tl]. rewrite IHh. reflexivity. }
  rewrite E. cbn [b_written]. apply in_or_app. left. apply in_rev. rewrite rev_involutive. exact Hx.
Qed.
