From Coq Require Import List NArith Bool Lia.
From Feox Require Import Model.Locks.
Import ListNotations.
Local Open Scope N_scope.

Lemma ranked_lt edges h w : ranked edges = true -> In (h, w) edges -> h < w.
Proof.
  unfold ranked. intros H Hin. rewrite forallb_forall in H. specialize (H _ Hin). cbn in H. apply N.ltb_lt. exact H.
Qed.

Definition wanted (t : thr) : N := match wants t with Some w => w | None => 0 end.

Lemma max_wanted (l : list thr) : l <> [] -> exists a, In a l /\ forall b, In b l -> wanted b <= wanted a.
Proof.
  induction l as [|x t IH]; intros Hne; [congruence|].
  destruct t as [|y u].
  - exists x. split; [left; reflexivity|]. intros b [<-|[]]. lia.
  - destruct (IH ltac:(discriminate)) as [m [Hm Hmax]].
    destruct (N.le_gt_cases (wanted x) (wanted m)) as [Hle|Hgt].
    + exists m. split; [right; exact Hm|]. intros b [<-|Hb]; [exact Hle | exact (Hmax b Hb)].
    + exists x. split; [left; reflexivity|]. intros b [<-|Hb]; [lia|]. specialize (Hmax b Hb). lia.
Qed.

(* MAIN: when the nesting relation respects a rank, no set of threads can be stuck on each other *)
Theorem ranked_edges_exclude_deadlock edges l :
  ranked edges = true -> Forall (follows edges) l -> ~ stuck l.
Proof.
  intros Hr Hall [Hne Hst]. destruct (max_wanted l Hne) as [a [Ha Hmax]].
  destruct (Hst a Ha) as [wa [Hwa [b [Hb Hheld]]]].
  destruct (Hst b Hb) as [wb [Hwb _]].
  rewrite Forall_forall in Hall.
  pose proof (ranked_lt _ _ _ Hr (Hall b Hb wa wb Hheld Hwb)) as Hlt.
  specialize (Hmax b Hb). unfold wanted in Hmax. rewrite Hwa, Hwb in Hmax. lia.
Qed.

From Feox Require Import Gen.LockSites.
Lemma lock_edges_ranked : ranked lock_edges = true.
Proof. vm_compute. reflexivity. Qed.

Theorem no_deadlock_on_store_locks l : Forall (follows lock_edges) l -> ~ stuck l.
Proof. apply ranked_edges_exclude_deadlock. exact lock_edges_ranked. Qed.
