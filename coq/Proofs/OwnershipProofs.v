(* C05: ownership of the data area.  Every block of [DS, device sectors) is either free (in the
   free-space manager) or owned by exactly one extent handed out by it; extents that are given
   back are always accepted (nothing leaks); with nothing owned the manager is exactly the fresh one. *)
From Coq Require Import List NArith Bool Lia.
From Feox Require Import Gen.Constants Model.FreeSpace Proofs.FreeSpaceProofs.
Import ListNotations.
Local Open Scope N_scope.

Record own := mkown { ofs : fs; owned : list (N * N) }.

Definition in_ext (b : N) (e : N * N) : Prop := fst e <= b /\ b < fst e + snd e.
Definition owned_blk (o : own) (b : N) : Prop := exists e, In e (owned o) /\ in_ext b e.

Inductive oop := OAcquire (n : N) | OGiveBack (e : N * N).

Definition ext_eqb (x y : N * N) : bool := (fst x =? fst y) && (snd x =? snd y).
Fixpoint remove_ext (e : N * N) (l : list (N * N)) : list (N * N) :=
  match l with [] => [] | x :: t => if ext_eqb x e then t else x :: remove_ext e t end.
Fixpoint mem_ext (e : N * N) (l : list (N * N)) : bool :=
  match l with [] => false | x :: t => ext_eqb x e || mem_ext e t end.

Definition ostep (o : own) (op : oop) : own :=
  match op with
  | OAcquire n =>
      match alloc n (ofs o) with
      | (FOk a, f') => mkown f' ((a, n) :: owned o)
      | (FErr _, f') => mkown f' (owned o)
      end
  | OGiveBack e =>
      if mem_ext e (owned o) then
        match release (fst e) (snd e) (ofs o) with
        | (FOk _, f') => mkown f' (remove_ext e (owned o))
        | (FErr _, f') => mkown f' (owned o)
        end
      else o
  end.

Fixpoint disjoint_exts (l : list (N * N)) : Prop :=
  match l with
  | [] => True
  | e :: t => (forall e' b, In e' t -> in_ext b e -> ~ in_ext b e') /\ disjoint_exts t
  end.

Record OInv (o : own) : Prop := {
  oi_fs : Inv (ofs o);
  oi_part : forall b, FEOX_DATA_START_BLOCK <= b < dev_sectors (ofs o) -> (free (ofs o) b <-> ~ owned_blk o b);
  oi_bounds : forall e, In e (owned o) -> FEOX_DATA_START_BLOCK <= fst e /\ 0 < snd e /\ fst e + snd e <= dev_sectors (ofs o);
  oi_disj : disjoint_exts (owned o)
}.

Lemma ext_eqb_eq x y : ext_eqb x y = true <-> x = y.
Proof.
  unfold ext_eqb. rewrite andb_true_iff, !N.eqb_eq. destruct x, y; simpl. split; [intros [-> ->]; auto|intros [= -> ->]; auto].
Qed.

Lemma mem_ext_In e l : mem_ext e l = true <-> In e l.
Proof.
  induction l as [|x t IH]; simpl; [split; [discriminate|tauto]|].
  rewrite orb_true_iff, IH, ext_eqb_eq. tauto.
Qed.

Lemma In_remove_ext e l x : disjoint_exts l -> (forall y, In y l -> 0 < snd y) ->
  (In x (remove_ext e l) <-> In x l /\ x <> e).
Proof.
  induction l as [|y t IH]; simpl; intros D P; [tauto|].
  destruct D as (D1 & D2). destruct (ext_eqb y e) eqn:E.
  - apply ext_eqb_eq in E. subst y. split.
    + intros Hx. split; auto. intros ->.
      (* e would overlap itself further down the list *)
      assert (in_ext (fst e) e) by (unfold in_ext; specialize (P e (or_introl eq_refl)); lia).
      eapply D1; eauto.
    + intros ([<-|Hx] & Hne); [congruence|auto].
  - simpl. rewrite IH by (auto; intros; apply P; auto). split.
    + intros [<-|(Hx & Hne)]; [split; auto; intros ->; rewrite (proj2 (ext_eqb_eq e e) eq_refl) in E; discriminate|auto].
    + intros ([<-|Hx] & Hne); auto.
Qed.

Lemma disjoint_remove e l : disjoint_exts l -> disjoint_exts (remove_ext e l).
Proof.
  induction l as [|y t IH]; simpl; auto. intros (D1 & D2). destruct (ext_eqb y e); auto.
  simpl. split; auto. intros e' b Hin. apply D1.
  clear -Hin. induction t as [|z t' IH']; simpl in *; [tauto|]. destruct (ext_eqb z e); [right; auto|].
  destruct Hin as [<-|Hin]; auto.
Qed.

Theorem ostep_OInv o op : OInv o -> OInv (ostep o op).
Proof.
  intros [HF HP HB HD]. destruct op as [n|e]; simpl.
  - destruct (alloc_cases n (ofs o) HF) as [(_ & E)|[(_ & _ & E)|(Hn & a & s' & E & P)]]; rewrite E; simpl.
    + constructor; auto.
    + constructor; auto.
    + destruct P as (Pa & Pb & Pc & PI & PD & PF).
      assert (DS' : dev_sectors s' = dev_sectors (ofs o)) by (unfold dev_sectors; rewrite PD; auto).
      constructor; simpl; auto.
      * intros b Hb. rewrite DS' in Hb. rewrite PF, (HP b Hb). unfold owned_blk. simpl. split.
        -- intros (NO & NA) (e' & [<-|Hin] & Hi); [unfold in_ext in Hi; simpl in Hi; lia|apply NO; eauto].
        -- intros NO. split; [intros (e' & Hin & Hi); apply NO; eauto|].
           intros Hab. apply NO. exists (a, n). split; [left; auto|unfold in_ext; simpl; lia].
      * intros e' [<-|Hin]; simpl; [rewrite DS'; lia|rewrite DS'; auto].
      * split; auto. intros e' b Hin Hi Hi'. unfold in_ext in Hi; simpl in Hi.
        assert (Hb : FEOX_DATA_START_BLOCK <= b < dev_sectors (ofs o)) by lia.
        apply (proj1 (HP b Hb) (Pc b Hi)). exists e'; auto.
  - destruct (mem_ext e (owned o)) eqn:M; [|constructor; auto].
    apply mem_ext_In in M. destruct (HB e M) as (B1 & B2 & B3).
    destruct (release_cases (fst e) (snd e) (ofs o) HF) as [(er & E & NOK)|(s' & E & OK & PI & PD & PF)]; rewrite E; simpl.
    + constructor; auto.
    + assert (DS' : dev_sectors s' = dev_sectors (ofs o)) by (unfold dev_sectors; rewrite PD; auto).
      assert (POS : forall y, In y (owned o) -> 0 < snd y) by (intros y Hy; apply HB; auto).
      constructor; simpl; auto.
      * intros b Hb. rewrite DS' in Hb. rewrite PF, (HP b Hb). unfold owned_blk. simpl. split.
        -- intros [NO|Hi] (e' & Hin & Hi').
           ++ apply NO. apply In_remove_ext in Hin; auto. destruct Hin. eauto.
           ++ apply In_remove_ext in Hin; auto. destruct Hin as (Hin & Hne).
              (* b is in e and in e' <> e: contradicts disjointness *)
              clear -HD M Hin Hne Hi Hi'. induction (owned o) as [|y t IH]; simpl in *; [tauto|].
              destruct HD as (D1 & D2). destruct M as [<-|M], Hin as [<-|Hin]; try congruence.
              ** eapply D1; eauto.
              ** eapply D1; eauto.
              ** eauto.
        -- intros NO.
           destruct (N.le_gt_cases (fst e) b) as [L1|L1]; [destruct (N.lt_ge_cases b (fst e + snd e)) as [L2|L2]|]; auto;
             left; intros (e' & Hin & Hi'); apply NO; exists e'; split; auto; apply In_remove_ext; auto; split; auto;
             intros ->; unfold in_ext in Hi'; lia.
      * intros e' Hin. apply In_remove_ext in Hin; auto. destruct Hin as (Hin & _). rewrite DS'. auto.
      * apply disjoint_remove; auto.
Qed.

(* giving back an owned extent is always accepted: nothing can leak *)
Theorem give_back_accepted o e : OInv o -> In e (owned o) ->
  exists f', release (fst e) (snd e) (ofs o) = (FOk tt, f').
Proof.
  intros [HF HP HB HD] Hin. destruct (HB e Hin) as (B1 & B2 & B3).
  destruct (release_cases (fst e) (snd e) (ofs o) HF) as [(er & E & NOK)|(s' & E & _)]; [|eauto].
  exfalso. apply NOK. unfold release_ok. repeat split; auto.
  intros b Hb Hf. apply (proj1 (HP b ltac:(lia)) Hf). exists e. split; auto.
Qed.

(* with nothing owned the run list is the fresh one: one run covering the whole data area *)
Theorem emptied_is_fresh o : OInv o -> owned o = [] ->
  runs (ofs o) = [(FEOX_DATA_START_BLOCK, dev_sectors (ofs o) - FEOX_DATA_START_BLOCK)].
Proof.
  intros [HF HP HB HD] HE. destruct HF as [D U W T F].
  apply (wf_canonical (dev_sectors (ofs o)) _ FEOX_DATA_START_BLOCK); auto.
  - simpl. repeat split; auto; lia.
  - intros b. split.
    + intros Hf. destruct (freel_ge _ _ _ _ W Hf). exists (FEOX_DATA_START_BLOCK, dev_sectors (ofs o) - FEOX_DATA_START_BLOCK).
      split; [left; auto|unfold inr; simpl; lia].
    + intros (r & [<-|[]] & (A & B)). simpl in *.
      apply (proj2 (HP b ltac:(lia))). intros (e & Hin & _). rewrite HE in Hin. destruct Hin.
Qed.

Definition orun (o : own) (ops : list oop) : own := fold_left ostep ops o.

Theorem orun_OInv ops : forall o, OInv o -> OInv (orun o ops).
Proof. induction ops as [|op t IH]; intros o H; simpl; auto. apply IH. apply ostep_OInv; auto. Qed.

Lemma fresh_OInv d s0 : d < U64 -> initialize d = FOk s0 -> OInv (mkown s0 []).
Proof.
  intros Hd Hi. destruct (initialize_Inv d s0 Hi Hd) as (I & D & F).
  constructor; simpl; auto.
  - intros b Hb. rewrite F. unfold dev_sectors in Hb. rewrite D in Hb. split.
    + intros _ (e & [] & _).
    + intros _. lia.
  - intros e [].
Qed.
