(* Codec theorems: little-endian round trips, CRC chaining and table correctness,
   record parse/serialize round trip, retirement markers, token properties. *)
From Coq Require Import List NArith Bool Lia Arith.
From Feox Require Import Gen.Constants Model.Bytes Model.Crc32c Model.Codec.
Import ListNotations.
Local Open Scope N_scope.

Arguments N.add : simpl never.
Arguments N.sub : simpl never.
Arguments N.mul : simpl never.
Arguments N.div : simpl never.
Arguments N.modulo : simpl never.
Arguments N.ltb : simpl never.
Arguments N.leb : simpl never.
Arguments N.eqb : simpl never.
Arguments N.pow : simpl never.

(* ---------------- little endian ---------------- *)
Lemma le_bytes_length k n : length (le_bytes k n) = k.
Proof. revert n; induction k; intros; simpl; auto. Qed.

Lemma le_bytes_ok k n : Forall (fun b => b < 256) (le_bytes k n).
Proof.
  revert n; induction k as [|k IH]; intros n; simpl; constructor; auto.
  apply N.mod_lt. lia.
Qed.

Lemma le_num_le_bytes k : forall n, n < 256 ^ N.of_nat k -> le_num (le_bytes k n) = n.
Proof.
  induction k as [|k IH]; intros n Hn.
  - simpl in *. change (256 ^ 0) with 1 in Hn. lia.
  - cbn [le_bytes le_num]. rewrite IH.
    + pose proof (N.div_mod n 256). lia.
    + rewrite Nat2N.inj_succ, N.pow_succ_r' in Hn.
      apply N.div_lt_upper_bound; lia.
Qed.

Lemma le_bytes_le_num l : Forall (fun b => b < 256) l -> le_bytes (length l) (le_num l) = l.
Proof.
  induction l as [|b t IH]; intros H; [reflexivity|].
  inversion H as [|? ? Hb Ht]; subst. cbn [length le_bytes le_num].
  assert (E1 : (b + 256 * le_num t) mod 256 = b).
  { replace (b + 256 * le_num t) with (b + le_num t * 256) by lia.
    rewrite N.mod_add by lia. apply N.mod_small; auto. }
  assert (E2 : (b + 256 * le_num t) / 256 = le_num t).
  { replace (b + 256 * le_num t) with (b + le_num t * 256) by lia.
    rewrite N.div_add by lia. rewrite (N.div_small b 256) by auto. lia. }
  rewrite E1, E2, IH; auto.
Qed.

Lemma le_num_bound l : Forall (fun b => b < 256) l -> le_num l < 256 ^ N.of_nat (length l).
Proof.
  induction l as [|b t IH]; intros H; [simpl; change (256 ^ 0) with 1; lia|].
  inversion H as [|? ? Hb Ht]; subst. cbn [length le_num].
  rewrite Nat2N.inj_succ, N.pow_succ_r'. specialize (IH Ht). lia.
Qed.

(* ---------------- slices ---------------- *)
Lemma sub_app_l (a b : list N) : sub (a ++ b) 0 (length a) = a.
Proof. unfold sub. simpl. rewrite firstn_app, Nat.sub_diag, firstn_all. simpl. apply app_nil_r. Qed.

Lemma sub_skip (a b : list N) len : sub (a ++ b) (length a) len = sub b 0 len.
Proof. unfold sub. rewrite skipn_app, skipn_all, Nat.sub_diag. reflexivity. Qed.

Lemma sub_skip' (a b : list N) off len : off = length a -> sub (a ++ b) off len = firstn len b.
Proof. intros ->. rewrite sub_skip. reflexivity. Qed.

Lemma firstn_app_exact (a b : list N) n : n = length a -> firstn n (a ++ b) = a.
Proof. intros ->. rewrite firstn_app, Nat.sub_diag, firstn_all. simpl. apply app_nil_r. Qed.

Lemma list_eqb_refl l : list_eqb l l = true.
Proof. induction l; simpl; auto. rewrite N.eqb_refl. auto. Qed.

Lemma list_eqb_eq a : forall b, list_eqb a b = true <-> a = b.
Proof.
  induction a as [|x a IH]; intros [|y b]; simpl; split; try discriminate; auto.
  - rewrite andb_true_iff, N.eqb_eq, IH. intros [-> ->]; auto.
  - intros [= -> ->]. rewrite N.eqb_refl, (proj2 (IH b)); auto.
Qed.

(* ---------------- CRC ---------------- *)
Lemma crc32c_chain seed a b : crc32c (crc32c seed a) b = crc32c seed (a ++ b).
Proof.
  unfold crc32c, crc_raw. rewrite fold_left_app.
  rewrite N.lxor_assoc, N.lxor_nilpotent, N.lxor_0_r. reflexivity.
Qed.

(* the table (a trie over the 8 index bits) holds the 8-fold bit step of its index *)
Definition table_ok_at (i : N) : bool := lookup TABLE i =? crc_8bits i.

Fixpoint upto (k : nat) : list N := match k with O => [] | S k' => upto k' ++ [N.of_nat k'] end.

Lemma upto_In k i : i < N.of_nat k -> In i (upto k).
Proof.
  induction k as [|k IH]; intros H; [lia|]. simpl. apply in_or_app.
  destruct (N.eq_dec i (N.of_nat k)) as [->|NE]; [right; left; auto|left; apply IH; lia].
Qed.

Lemma table_all : forallb table_ok_at (upto 256) = true.
Proof. vm_compute. reflexivity. Qed.

Lemma table_correct i : i < 256 -> lookup TABLE i = crc_8bits i.
Proof.
  intros H. pose proof table_all as T. rewrite forallb_forall in T.
  specialize (T i (upto_In 256 i H)). unfold table_ok_at in T. apply N.eqb_eq in T. exact T.
Qed.

Lemma crc_byte_table c b : crc_byte TABLE c b = crc_byte_bitwise c b.
Proof.
  unfold crc_byte, crc_byte_bitwise. rewrite table_correct; auto.
  change 255 with (N.ones 8). rewrite N.land_ones. apply N.mod_lt. discriminate.
Qed.

(* ---------------- fold16: never zero, 16 bits ---------------- *)
Lemma fold16_nonzero c : fold16 c <> 0.
Proof. unfold fold16. destruct (N.eqb_spec (N.lxor (N.shiftr c 16) (N.land c 65535)) 0); lia. Qed.

(* ---------------- retirement markers ---------------- *)
Lemma marker_bytes_length s r st : length (marker_bytes s r st) = 19%nat.
Proof. unfold marker_bytes. rewrite !app_length, !le_bytes_length. reflexivity. Qed.

Lemma marker_block_length s r st : length (marker_block s r st) = BLOCK.
Proof. unfold marker_block, zeros. rewrite app_length, marker_bytes_length, repeat_length. reflexivity. Qed.

Lemma marker_block_tag s r st : firstn 8 (marker_block s r st) = DELETED_TAG.
Proof. reflexivity. Qed.

Lemma marker_not_record s r st : u16_at (marker_block s r st) 0 <> SECTOR_MARKER.
Proof. vm_compute. discriminate. Qed.

Lemma seq_token_lt c : fold16 c < 65536 \/ True. Proof. auto. Qed.

(* ---------------- record header: parse . serialize ---------------- *)
Lemma sub_app_ge (a b : list N) off len : (length a <= off)%nat ->
  sub (a ++ b) off len = sub b (off - length a) len.
Proof.
  intros H. unfold sub. rewrite skipn_app. rewrite skipn_all2 by lia. reflexivity.
Qed.

Lemma sub_0_app (a b : list N) len : len = length a -> sub (a ++ b) 0 len = a.
Proof. intros ->. apply sub_app_l. Qed.

Lemma sub_opt_ok l off len : (off + len <= length l)%nat -> sub_opt l off len = Some (sub l off len).
Proof. intros H. unfold sub_opt. destruct (Nat.leb_spec (off + len) (length l)); [auto|lia]. Qed.

Definition header_bytes (version : N) (tok : list N) (key : list N) (vlen ts exp : N) : list N :=
  le_bytes 2 SECTOR_MARKER ++ tok ++ le_bytes 2 (N.of_nat (length key)) ++ key ++
  le_bytes 8 vlen ++ le_bytes 8 ts ++ (if has_expiry version then le_bytes 8 exp else []).

Lemma header_bytes_length version tok key vlen ts exp : length tok = 2%nat ->
  length (header_bytes version tok key vlen ts exp) =
  (6 + length key + 16 + (if has_expiry version then 8 else 0))%nat.
Proof.
  intros Ht. unfold header_bytes. rewrite !app_length, !le_bytes_length, Ht.
  destruct (has_expiry version); simpl; rewrite ?le_bytes_length; lia.
Qed.

Lemma parse_header_bytes version tok key vlen ts exp rest :
  length tok = 2%nat -> N.of_nat (length key) < 65536 -> vlen < 2 ^ 64 -> ts < 2 ^ 64 -> exp < 2 ^ 64 ->
  parse_head version (header_bytes version tok key vlen ts exp ++ rest) =
  Some (Some (key, vlen, ts, if has_expiry version then exp else 0)).
Proof.
  intros Ht Hk Hv Hts Hexp.
  assert (P2 : forall n, n < 65536 -> le_num (le_bytes 2 n) = n) by (intros; apply (le_num_le_bytes 2); auto).
  assert (P8 : forall n, n < 2 ^ 64 -> le_num (le_bytes 8 n) = n) by (intros; apply (le_num_le_bytes 8); auto).
  pose proof (header_bytes_length version tok key vlen ts exp Ht) as HL.
  unfold parse_head.
  set (data := header_bytes version tok key vlen ts exp ++ rest).
  assert (DL : (length data = length (header_bytes version tok key vlen ts exp) + length rest)%nat)
    by (unfold data; apply app_length).
  destruct (Nat.ltb_spec (length data) 6); [lia|].
  (* regroup: [marker;tok;klen] ++ key ++ vlen ++ ts ++ exp? ++ rest *)
  set (p1 := le_bytes 2 SECTOR_MARKER ++ tok).
  set (tail := if has_expiry version then le_bytes 8 exp else []).
  assert (D : data = p1 ++ le_bytes 2 (N.of_nat (length key)) ++ key ++ le_bytes 8 vlen ++ le_bytes 8 ts ++ tail ++ rest).
  { unfold data, header_bytes, p1, tail. rewrite <- !app_assoc. reflexivity. }
  assert (L1 : length p1 = 4%nat) by (unfold p1; rewrite app_length, le_bytes_length, Ht; reflexivity).
  assert (K : u16_at data 4 = N.of_nat (length key)).
  { unfold u16_at. rewrite D, sub_app_ge by lia. rewrite L1. simpl Nat.sub.
    rewrite sub_0_app by (rewrite le_bytes_length; reflexivity). apply P2; auto. }
  rewrite K, Nat2N.id.
  assert (FX : (if has_expiry version then 24 else 16)%nat = (16 + (if has_expiry version then 8 else 0))%nat)
    by (destruct (has_expiry version); reflexivity).
  destruct (Nat.ltb_spec (length data) (6 + length key + (if has_expiry version then 24 else 16))); [lia|].
  rewrite !sub_opt_ok by (destruct (has_expiry version); lia).
  (* the four slices *)
  assert (S1 : sub data 6 (length key) = key).
  { rewrite D, sub_app_ge by lia. rewrite L1. rewrite sub_app_ge by (rewrite le_bytes_length; lia).
    rewrite le_bytes_length. replace (6 - 4 - 2)%nat with 0%nat by lia. apply sub_0_app; auto. }
  assert (S2 : sub data (6 + length key) 8 = le_bytes 8 vlen).
  { rewrite D, sub_app_ge by lia. rewrite L1. rewrite sub_app_ge by (rewrite le_bytes_length; lia).
    rewrite le_bytes_length. rewrite sub_app_ge by lia.
    replace (6 + length key - 4 - 2 - length key)%nat with 0%nat by lia.
    apply sub_0_app. rewrite le_bytes_length; auto. }
  assert (S3 : sub data (6 + length key + 8) 8 = le_bytes 8 ts).
  { rewrite D, sub_app_ge by lia. rewrite L1. rewrite sub_app_ge by (rewrite le_bytes_length; lia).
    rewrite le_bytes_length. rewrite sub_app_ge by lia. rewrite sub_app_ge by (rewrite le_bytes_length; lia).
    rewrite le_bytes_length.
    replace (6 + length key + 8 - 4 - 2 - length key - 8)%nat with 0%nat by lia.
    apply sub_0_app. rewrite le_bytes_length; auto. }
  rewrite S1, S2, S3, !P8 by auto.
  destruct (has_expiry version) eqn:HE.
  - assert (S4 : sub data (6 + length key + 16) 8 = le_bytes 8 exp).
    { rewrite D, sub_app_ge by lia. rewrite L1. rewrite sub_app_ge by (rewrite le_bytes_length; lia).
      rewrite le_bytes_length. rewrite sub_app_ge by lia. rewrite sub_app_ge by (rewrite le_bytes_length; lia).
      rewrite le_bytes_length. rewrite sub_app_ge by (rewrite le_bytes_length; lia). rewrite le_bytes_length.
      replace (6 + length key + 16 - 4 - 2 - length key - 8 - 8)%nat with 0%nat by lia.
      unfold tail. apply sub_0_app. rewrite le_bytes_length; auto. }
    rewrite sub_opt_ok by lia. rewrite S4, P8 by auto. reflexivity.
  - reflexivity.
Qed.

(* serialize = header ++ value ++ padding *)
Lemma serialize_shape version r :
  exists pad, serialize version r =
    header_bytes version [0; 0] (r_key r) (N.of_nat (length (r_value r))) (r_ts r) (r_exp r) ++ (r_value r ++ pad).
Proof.
  destruct (has_expiry version) eqn:E; eexists; unfold serialize, header_bytes; rewrite E;
    rewrite <- !app_assoc; cbn [app]; reflexivity.
Qed.

Theorem parse_serialize version r :
  N.of_nat (length (r_key r)) < 65536 -> N.of_nat (length (r_value r)) < 2 ^ 64 ->
  r_ts r < 2 ^ 64 -> r_exp r < 2 ^ 64 ->
  parse_head version (serialize version r) =
  Some (Some (r_key r, N.of_nat (length (r_value r)), r_ts r, if has_expiry version then r_exp r else 0)).
Proof.
  intros Hk Hv Ht He. destruct (serialize_shape version r) as (pad & ->).
  apply parse_header_bytes; auto.
Qed.

(* the head block alone (what the scan looks at) parses to the same fields when the header fits *)
Theorem parse_head_block version r :
  N.of_nat (length (r_key r)) < 65536 -> N.of_nat (length (r_value r)) < 2 ^ 64 ->
  r_ts r < 2 ^ 64 -> r_exp r < 2 ^ 64 ->
  (6 + length (r_key r) + 16 + (if has_expiry version then 8 else 0) <= BLOCK)%nat ->
  parse_head version (firstn BLOCK (serialize version r)) =
  Some (Some (r_key r, N.of_nat (length (r_value r)), r_ts r, if has_expiry version then r_exp r else 0)).
Proof.
  intros Hk Hv Ht He Hfit. destruct (serialize_shape version r) as (pad & ->).
  rewrite firstn_app.
  pose proof (header_bytes_length version [0;0] (r_key r) (N.of_nat (length (r_value r))) (r_ts r) (r_exp r) eq_refl) as HL.
  rewrite firstn_all2 by lia.
  apply parse_header_bytes; auto.
Qed.

(* the value sits at value_offset = header_size *)
Theorem value_at_offset version r :
  let hdr := (6 + length (r_key r) + 16 + (if has_expiry version then 8 else 0))%nat in
  sub (serialize version r) hdr (length (r_value r)) = r_value r.
Proof.
  intros hdr. destruct (serialize_shape version r) as (pad & ->).
  pose proof (header_bytes_length version [0;0] (r_key r) (N.of_nat (length (r_value r))) (r_ts r) (r_exp r) eq_refl) as HL.
  rewrite sub_app_ge by (unfold hdr; lia). rewrite HL. unfold hdr. rewrite Nat.sub_diag.
  apply sub_0_app; auto.
Qed.

(* ---------------- ranges: CRC is 32 bits, tokens are 16 bits ---------------- *)
Lemma lxor_lt a b n : a < 2 ^ n -> b < 2 ^ n -> N.lxor a b < 2 ^ n.
Proof.
  intros Ha Hb.
  destruct (N.eq_dec (N.lxor a b) 0) as [E|NE]; [rewrite E; apply N.lt_le_trans with (1 := ltac:(lia) : 0 < 1); apply N.pow_le_mono_r with (a := 2) (b := 0) (c := n); lia|].
  apply N.log2_lt_pow2; [lia|].
  eapply N.le_lt_trans; [apply N.log2_lxor|].
  apply N.max_lub_lt.
  - destruct (N.eq_dec a 0) as [->|Na]; [simpl; destruct n; [|lia]|apply N.log2_lt_pow2; lia].
    exfalso. change (2 ^ 0) with 1 in *. assert (b = 0) by lia. subst. simpl in NE. congruence.
  - destruct (N.eq_dec b 0) as [->|Nb]; [simpl; destruct n; [|lia]|apply N.log2_lt_pow2; lia].
    exfalso. change (2 ^ 0) with 1 in *. assert (a = 0) by lia. subst. simpl in NE. congruence.
Qed.

Definition entry_small (i : N) : bool := crc_8bits i <? 4294967296.
Lemma entries_small : forallb entry_small (upto 256) = true.
Proof. vm_compute. reflexivity. Qed.

Lemma table_entry_lt i : i < 256 -> lookup TABLE i < 2 ^ 32.
Proof.
  intros H. rewrite table_correct by auto.
  pose proof entries_small as T. rewrite forallb_forall in T.
  specialize (T i (upto_In 256 i H)). unfold entry_small in T. apply N.ltb_lt in T. exact T.
Qed.

Lemma crc_byte_lt c b : c < 2 ^ 32 -> crc_byte TABLE c b < 2 ^ 32.
Proof.
  intros Hc. unfold crc_byte. apply lxor_lt.
  - apply table_entry_lt. change 255 with (N.ones 8). rewrite N.land_ones. apply N.mod_lt. discriminate.
  - rewrite N.shiftr_div_pow2. apply N.div_lt_upper_bound; [discriminate|].
    change (2 ^ 8 * 2 ^ 32) with 1099511627776. change (2 ^ 32) with 4294967296 in Hc. lia.
Qed.

Lemma crc_raw_lt data : forall c, c < 2 ^ 32 -> crc_raw c data < 2 ^ 32.
Proof.
  unfold crc_raw. induction data as [|b t IH]; intros c Hc; simpl; auto.
  apply IH. apply crc_byte_lt; auto.
Qed.

Lemma crc32c_lt seed data : seed < 2 ^ 32 -> crc32c seed data < 2 ^ 32.
Proof.
  intros Hs. unfold crc32c. apply lxor_lt; [|reflexivity].
  apply crc_raw_lt. apply lxor_lt; [auto|reflexivity].
Qed.

Lemma fold16_lt c : c < 2 ^ 32 -> fold16 c < 65536.
Proof.
  intros Hc. unfold fold16.
  assert (N.lxor (N.shiftr c 16) (N.land c 65535) < 2 ^ 16).
  { apply lxor_lt.
    - rewrite N.shiftr_div_pow2. apply N.div_lt_upper_bound; [discriminate|].
      change (2 ^ 16 * 2 ^ 16) with 4294967296. change (2 ^ 32) with 4294967296 in Hc. lia.
    - change 65535 with (N.ones 16). rewrite N.land_ones. apply N.mod_lt. discriminate. }
  change (2 ^ 16) with 65536 in H.
  destruct (_ =? 0); lia.
Qed.

Lemma seq_token_lt' sector header : seq_token sector header < 65536.
Proof. unfold seq_token. apply fold16_lt. apply crc32c_lt. apply crc32c_lt. reflexivity. Qed.

Lemma record_token_lt sector data : record_token sector data < 65536.
Proof.
  unfold record_token. destruct (Nat.leb 4 (length data)); apply fold16_lt; repeat apply crc32c_lt; reflexivity.
Qed.

(* ---------------- marker round trip ---------------- *)
Theorem marker_roundtrip sector remaining :
  remaining < 2 ^ 64 ->
  is_complete_marker (marker_block sector remaining RETIREMENT_COMPLETE) sector remaining = true.
Proof.
  intros Hr. unfold is_complete_marker.
  set (pre := DELETED_TAG ++ le_bytes 8 remaining).
  set (tok := seq_token sector (pre ++ [RETIREMENT_COMPLETE])).
  assert (PL : length pre = 16%nat) by (unfold pre; rewrite app_length, le_bytes_length; reflexivity).
  assert (MB : marker_block sector remaining RETIREMENT_COMPLETE =
               pre ++ le_bytes 2 tok ++ [RETIREMENT_COMPLETE] ++ zeros (BLOCK - 19)).
  { unfold marker_block, marker_bytes. fold pre. fold tok. rewrite <- !app_assoc. reflexivity. }
  rewrite marker_block_length, marker_block_tag, list_eqb_refl.
  assert (E1 : u64_at (marker_block sector remaining RETIREMENT_COMPLETE) 8 = remaining).
  { unfold u64_at. rewrite MB. unfold pre. rewrite <- app_assoc.
    rewrite sub_app_ge by (simpl; lia). simpl length. simpl Nat.sub.
    rewrite sub_0_app by (rewrite le_bytes_length; reflexivity). apply (le_num_le_bytes 8); auto. }
  assert (E2 : nth 18 (marker_block sector remaining RETIREMENT_COMPLETE) 0 = RETIREMENT_COMPLETE).
  { rewrite MB. rewrite app_nth2 by lia. rewrite PL. rewrite app_nth2 by (rewrite le_bytes_length; lia).
    rewrite le_bytes_length. reflexivity. }
  assert (E3 : firstn 16 (marker_block sector remaining RETIREMENT_COMPLETE) = pre).
  { rewrite MB. apply firstn_app_exact. auto. }
  assert (E4 : u16_at (marker_block sector remaining RETIREMENT_COMPLETE) 16 = tok).
  { unfold u16_at. rewrite MB. rewrite sub_app_ge by lia. rewrite PL. simpl Nat.sub.
    rewrite sub_0_app by (rewrite le_bytes_length; reflexivity). apply (le_num_le_bytes 2).
    apply seq_token_lt'. }
  unfold marker_token. rewrite E1, E2, E3, E4, !N.eqb_refl.
  fold tok. rewrite ?N.eqb_refl. reflexivity.
Qed.

(* a record head is never mistaken for a marker and vice versa; a zero block is neither *)
Theorem record_is_not_marker version r :
  firstn 8 (serialize version r) <> DELETED_TAG.
Proof. unfold serialize. simpl. vm_compute. discriminate. Qed.

Theorem zero_block_is_neither k : (8 <= k)%nat ->
  firstn 8 (zeros k) <> DELETED_TAG /\ u16_at (zeros k) 0 <> SECTOR_MARKER.
Proof.
  intros H. do 8 (destruct k as [|k]; [lia|]). split; [vm_compute; discriminate|].
  unfold u16_at, sub, zeros. simpl. vm_compute. discriminate.
Qed.

(* ---------------- the token ignores its own two bytes: stamping is idempotent and self-consistent ---------------- *)
Lemma record_token_splice sector d x y : (4 <= length d)%nat ->
  record_token sector (splice d 2 [x; y]) = record_token sector d.
Proof.
  intros H. destruct d as [|a0 [|a1 [|a2 [|a3 rest]]]]; simpl in H; try lia.
  unfold record_token. cbn [splice overwrite length firstn skipn Nat.leb]. reflexivity.
Qed.

Theorem stamp_self_consistent version sector d :
  header_range_ok version d = true ->
  u16_at (stamp version sector d) 2 = record_token sector (stamp version sector d) /\
  stamp version sector (stamp version sector d) = stamp version sector d /\
  u16_at (stamp version sector d) 2 <> 0.
Proof.
  intros H. unfold stamp. rewrite H.
  assert (L : (6 <= length d)%nat).
  { unfold header_range_ok in H. destruct (Nat.ltb_spec (length d) 6); [discriminate|lia]. }
  destruct d as [|a0 [|a1 [|a2 [|a3 rest]]]]; simpl in L; try lia.
  set (tok := record_token sector (a0 :: a1 :: a2 :: a3 :: rest)).
  pose proof (record_token_lt sector (a0 :: a1 :: a2 :: a3 :: rest)) as TL. fold tok in TL.
  assert (LB : le_bytes 2 tok = [tok mod 256; tok / 256 mod 256]) by reflexivity.
  assert (SP : splice (a0 :: a1 :: a2 :: a3 :: rest) 2 (le_bytes 2 tok) = a0 :: a1 :: tok mod 256 :: tok / 256 mod 256 :: rest)
    by (rewrite LB; reflexivity).
  rewrite SP.
  assert (U : u16_at (a0 :: a1 :: tok mod 256 :: tok / 256 mod 256 :: rest) 2 = tok).
  { unfold u16_at, sub. cbn [skipn firstn]. rewrite <- LB. apply (le_num_le_bytes 2). auto. }
  assert (T : record_token sector (a0 :: a1 :: tok mod 256 :: tok / 256 mod 256 :: rest) = tok)
    by (unfold tok, record_token; cbn [length firstn skipn Nat.leb]; reflexivity).
  split; [rewrite U, T; reflexivity|]. split.
  - assert (HR : header_range_ok version (a0 :: a1 :: tok mod 256 :: tok / 256 mod 256 :: rest) = true).
    { unfold header_range_ok in *. simpl length in *. unfold u16_at, sub in *. simpl in *. exact H. }
    rewrite HR, T, LB. reflexivity.
  - rewrite U. unfold tok, record_token. destruct (Nat.leb _ _); apply fold16_nonzero.
Qed.
