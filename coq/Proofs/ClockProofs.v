From Coq Require Import List NArith Bool Lia.
From Feox Require Import Model.Sched Model.Lww Model.Clock Proofs.SchedProofs.
Import ListNotations.
Local Open Scope N_scope.

Definition mval (m : kmark) : N :=
  match m with
  | MNext _ _ r _ => r
  | MObs _ ts => if ts =? U64M then 0 else ts
  end.

Fixpoint line_ok (l : list kmark) : Prop :=
  match l with
  | [] => True
  | m :: rest =>
      match m with
      | MNext _ w r b => w <= r /\ (b < r \/ r = U64M) /\ Forall (fun x => mval x <= b) rest
      | MObs _ _ => True
      end /\ line_ok rest
  end.

Definition reg_ok (shard : N) (p : kpc) : Prop :=
  match p with
  | KNext wall last => last <= shard /\ wall <= U64M
  | KObs ts last => last <= shard /\ ts <= U64M
  end.

Record KInv (s : kst) : Prop := mkKInv {
  ki_bound : k_shard s <= U64M;
  ki_regs : forall t p, aget t (k_thr s) = Some p -> reg_ok (k_shard s) p;
  ki_line : line_ok (k_line s);
  ki_below : Forall (fun x => mval x <= k_shard s) (k_line s)
}.

Lemma clamp_le x : clamp x <= U64M.
Proof. unfold clamp. lia. Qed.

Lemma kinit_inv v : KInv (kinit v).
Proof.
  constructor; cbn.
  - apply clamp_le.
  - intros t p H. discriminate.
  - exact I.
  - constructor.
Qed.

Lemma next_val_spec wall last :
  last <= U64M -> wall <= U64M ->
  last <= next_val wall last /\ wall <= next_val wall last /\ next_val wall last <= U64M /\
  (last < next_val wall last \/ next_val wall last = U64M).
Proof.
  intros Hl Hw. unfold next_val, sat_succ. destruct (N.ltb_spec last wall); lia.
Qed.

Lemma reg_ok_mono a b p : a <= b -> reg_ok a p -> reg_ok b p.
Proof. intros H. destruct p; cbn; lia. Qed.

Lemma below_mono (a b : N) l : a <= b -> Forall (fun x => mval x <= a) l -> Forall (fun x => mval x <= b) l.
Proof. intros H F. eapply Forall_impl; [|exact F]. cbn. intros x Hx. lia. Qed.

Lemma aget_aset_cases {A} i j (a b : A) l : aget i (aset j a l) = Some b -> (i = j /\ b = a) \/ aget i l = Some b.
Proof.
  intros H. destruct (N.eq_dec i j) as [->|Hne].
  - rewrite aget_aset_same in H. left. split; [reflexivity|congruence].
  - rewrite aget_aset_other in H by exact Hne. right. exact H.
Qed.

Lemma aget_adel_cases {A} i j (b : A) l : aget i (adel j l) = Some b -> aget i l = Some b.
Proof. intros H. apply aget_adel_some in H. tauto. Qed.

Theorem kstep_mono s e : KInv s -> k_shard s <= k_shard (kstep s e).
Proof.
  intros I. destruct e as [t wall|t sp|t ts|t sp]; cbn [kstep].
  - cbn. lia.
  - destruct (aget t (k_thr s)) as [[wall last|ts last]|] eqn:T; try lia.
    destruct ((k_shard s =? last) && negb sp) eqn:C; cbn [k_shard]; [|lia].
    apply andb_true_iff in C. destruct C as [C _]. apply N.eqb_eq in C.
    destruct (ki_regs s I _ _ T) as [Hl Hw]. pose proof (ki_bound s I).
    destruct (next_val_spec wall last) as [A _]; lia.
  - destruct (clamp ts =? U64M); cbn; lia.
  - destruct (aget t (k_thr s)) as [[wall last|ts last]|] eqn:T; try lia.
    destruct (N.leb_spec ts last); cbn [k_shard]; [lia|].
    destruct ((k_shard s =? last) && negb sp) eqn:C; cbn [k_shard]; [|lia].
    apply andb_true_iff in C. destruct C as [C _]. apply N.eqb_eq in C. lia.
Qed.

Theorem kstep_inv s e : KInv s -> KInv (kstep s e).
Proof.
  intros I. pose proof (ki_bound s I) as Hb.
  destruct e as [t wall|t sp|t ts|t sp]; cbn [kstep].
  - constructor; cbn [k_shard k_thr k_line]; try apply I.
    intros t0 p H. apply aget_aset_cases in H. destruct H as [[_ ->]|H]; [|exact (ki_regs s I _ _ H)].
    cbn. split; [lia|apply clamp_le].
  - destruct (aget t (k_thr s)) as [[wall last|ts last]|] eqn:T; try exact I.
    destruct (ki_regs s I _ _ T) as [Hl Hw].
    destruct ((k_shard s =? last) && negb sp) eqn:C.
    + apply andb_true_iff in C. destruct C as [C _]. apply N.eqb_eq in C.
      destruct (next_val_spec wall last) as [A [B [D E]]]; [lia|lia|].
      constructor; cbn [k_shard k_thr k_line].
      * exact D.
      * intros t0 p H. apply aget_adel_cases in H. eapply reg_ok_mono; [|exact (ki_regs s I _ _ H)]. lia.
      * cbn [line_ok]. repeat split; [exact B|exact E| |exact (ki_line s I)].
        rewrite <- C. exact (ki_below s I).
      * constructor; [cbn; lia|]. eapply below_mono; [|exact (ki_below s I)]. lia.
    + constructor; cbn [k_shard k_thr k_line]; try apply I.
      intros t0 p H. apply aget_aset_cases in H. destruct H as [[_ ->]|H]; [|exact (ki_regs s I _ _ H)].
      cbn. split; lia.
  - destruct (clamp ts =? U64M) eqn:E.
    + constructor; cbn [k_shard k_thr k_line].
      * exact Hb.
      * intros t0 p H. apply aget_adel_cases in H. exact (ki_regs s I _ _ H).
      * cbn [line_ok]. split; [exact Logic.I|exact (ki_line s I)].
      * constructor; [unfold mval; rewrite N.eqb_refl; lia|exact (ki_below s I)].
    + constructor; cbn [k_shard k_thr k_line]; try apply I.
      intros t0 p H. apply aget_aset_cases in H. destruct H as [[_ ->]|H]; [|exact (ki_regs s I _ _ H)].
      cbn. split; [lia|apply clamp_le].
  - destruct (aget t (k_thr s)) as [[wall last|ts last]|] eqn:T; try exact I.
    destruct (ki_regs s I _ _ T) as [Hl Hw].
    destruct (N.leb_spec ts last) as [Hle|Hgt].
    + constructor; cbn [k_shard k_thr k_line].
      * exact Hb.
      * intros t0 p H. apply aget_adel_cases in H. exact (ki_regs s I _ _ H).
      * cbn [line_ok]. split; [exact Logic.I|exact (ki_line s I)].
      * constructor; [cbn; destruct (ts =? U64M); lia|exact (ki_below s I)].
    + destruct ((k_shard s =? last) && negb sp) eqn:C.
      * apply andb_true_iff in C. destruct C as [C _]. apply N.eqb_eq in C.
        constructor; cbn [k_shard k_thr k_line].
        -- exact Hw.
        -- intros t0 p H. apply aget_adel_cases in H. eapply reg_ok_mono; [|exact (ki_regs s I _ _ H)]. lia.
        -- cbn [line_ok]. split; [exact Logic.I|exact (ki_line s I)].
        -- constructor; [cbn; destruct (ts =? U64M); lia|]. eapply below_mono; [|exact (ki_below s I)]. lia.
      * constructor; cbn [k_shard k_thr k_line]; try apply I.
        intros t0 p H. apply aget_aset_cases in H. destruct H as [[_ ->]|H]; [|exact (ki_regs s I _ _ H)].
        cbn. split; lia.
Qed.

Theorem krun_inv es : forall s, KInv s -> KInv (krun s es).
Proof. induction es as [|e t IH]; intros s I; [exact I|]. unfold krun. cbn [fold_left]. apply IH. apply kstep_inv. exact I. Qed.

Theorem krun_mono es : forall s, KInv s -> k_shard s <= k_shard (krun s es).
Proof.
  induction es as [|e t IH]; intros s I; [cbn; lia|]. unfold krun. cbn [fold_left].
  pose proof (kstep_mono s e I). pose proof (IH (kstep s e) (kstep_inv s e I)). unfold krun in *. lia.
Qed.

Lemma line_ok_suffix l1 : forall l2, line_ok (l1 ++ l2) -> line_ok l2.
Proof. induction l1 as [|m t IH]; intros l2 H; [exact H|]. cbn [app line_ok] in H. apply IH. tauto. Qed.

(* every timestamp `next` hands out exceeds every timestamp handed out before it on the shard and
   every timestamp whose observe had returned before it, unless the shard is saturated *)
Theorem issued_exceeds_everything_before v es l1 t w r b l2 m :
  k_line (krun (kinit v) es) = l1 ++ MNext t w r b :: l2 -> In m l2 ->
  clamp w = w /\ w <= r /\ (mval m < r \/ r = U64M).
Proof.
  intros E Hm. pose proof (krun_inv es _ (kinit_inv v)) as I.
  pose proof (ki_line _ I) as L. rewrite E in L. apply line_ok_suffix in L. cbn [line_ok] in L.
  destruct L as [[Hw [Hr F]] _]. rewrite Forall_forall in F. specialize (F _ Hm).
  split; [|split; [exact Hw|lia]].
  pose proof (ki_below _ I) as B. rewrite E in B. rewrite Forall_forall in B.
  assert (Hin : In (MNext t w r b) (l1 ++ MNext t w r b :: l2)) by (apply in_or_app; right; left; reflexivity).
  specialize (B _ Hin). cbn in B. pose proof (ki_bound _ I). unfold clamp. lia.
Qed.

(* a returned observe(ts) is covered by the shard from then on *)
Theorem observed_is_covered v es t ts :
  In (MObs t ts) (k_line (krun (kinit v) es)) -> ts <> U64M -> ts <= k_shard (krun (kinit v) es).
Proof.
  intros H Hn. pose proof (ki_below _ (krun_inv es _ (kinit_inv v))) as B. rewrite Forall_forall in B.
  specialize (B _ H). cbn in B. destruct (N.eqb_spec ts U64M); [contradiction|exact B].
Qed.

Theorem issued_is_covered v es t w r b :
  In (MNext t w r b) (k_line (krun (kinit v) es)) -> r <= k_shard (krun (kinit v) es).
Proof.
  intros H. pose proof (ki_below _ (krun_inv es _ (kinit_inv v))) as B. rewrite Forall_forall in B.
  exact (B _ H).
Qed.

(* a call run alone is what the reference map's clock rules (Model.Lww auto_ok / observe, which
   the sequence engines compare with the real shard after every call) say *)
Theorem next_alone_is_auto_ok s t wall tb ta :
  KInv s -> tb <= clamp wall -> clamp wall <= ta ->
  k_shard (next_alone s t wall) = next_val (clamp wall) (k_shard s) /\
  auto_ok (k_shard s) (k_shard (next_alone s t wall)) tb ta = true.
Proof.
  intros I Hb Ha. unfold next_alone. cbn [kstep k_thr k_shard]. rewrite aget_aset_same. rewrite N.eqb_refl. cbn [negb andb k_shard].
  split; [reflexivity|]. pose proof (ki_bound s I) as Hs. pose proof (clamp_le wall) as Hc.
  unfold auto_ok, next_val, sat_succ.
  destruct (N.eqb_spec (k_shard s) U64M) as [E|E].
  - destruct (N.ltb_spec (k_shard s) (clamp wall)); [lia|]. apply N.eqb_eq. lia.
  - destruct (N.ltb_spec (k_shard s) (clamp wall)) as [Hlt|Hge].
    + apply andb_true_iff. split; [apply andb_true_iff; split|].
      * apply N.ltb_lt. exact Hlt.
      * apply orb_true_iff. left. apply N.leb_le. exact Hb.
      * apply orb_true_iff. left. apply N.leb_le. exact Ha.
    + assert (X : N.min (k_shard s + 1) U64M = k_shard s + 1) by lia. rewrite X.
      apply andb_true_iff. split; [apply andb_true_iff; split|].
      * apply N.ltb_lt. lia.
      * apply orb_true_iff. right. apply N.eqb_refl.
      * apply orb_true_iff. right. apply N.eqb_refl.
Qed.

Theorem observe_alone_is_observe s t ts :
  KInv s -> k_shard (observe_alone s t ts) = observe (k_shard s) (clamp ts).
Proof.
  intros I. unfold observe_alone, observe. cbn [kstep].
  destruct (N.eqb_spec (clamp ts) U64M) as [E|E].
  - cbn [k_thr k_shard]. rewrite aget_adel_same. reflexivity.
  - cbn [k_thr k_shard]. rewrite aget_aset_same.
    destruct (N.leb_spec (clamp ts) (k_shard s)); cbn [k_shard]; [lia|].
    rewrite N.eqb_refl. cbn [negb andb k_shard]. lia.
Qed.

(* the unrestricted statement fails at saturation (finding F2's mechanism): two automatic
   timestamps in a row are equal once the shard holds 2^64-1 *)
Theorem saturated_shard_repeats :
  exists v es t1 w1 b1 t2 w2 b2,
    k_line (krun (kinit v) es) = [MNext t2 w2 U64M b2; MNext t1 w1 U64M b1].
Proof.
  exists (U64M - 1), [KNextLoad 1 5; KNextCas 1 false; KNextLoad 2 5; KNextCas 2 false], 1, 5, (U64M - 1), 2, 5, U64M.
  vm_compute. reflexivity.
Qed.
