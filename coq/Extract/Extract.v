(* Extraction of the executable model to OCaml.  ExtrOcamlBasic only: bool, option,
   unit, list, prod, sumbool, sumor map to OCaml's; N / positive / Z / nat stay
   extracted inductive datatypes. No Extract Constant of ours. *)
From Coq Require Import Extraction ExtrOcamlBasic.
From Feox Require Import Model.FreeSpace Model.Bytes Model.Crc32c Model.Codec Model.MetaJournal Model.Recovery Model.Lww Model.Monitor Model.Cache Model.Migration Model.Sched Model.Lin Model.Extent Model.InFlight Model.WriteBehind Model.Sweep Model.Scan Model.AlignedBuf Model.FailPath Model.Gate Model.CacheGen Model.Clock Model.FailBatches.
Extraction Language OCaml.
Separate Extraction FreeSpace Bytes Crc32c Codec MetaJournal Recovery Lww Monitor Cache Migration Sched Lin Extent InFlight WriteBehind Sweep Scan AlignedBuf FailPath Gate CacheGen Clock FailBatches.
