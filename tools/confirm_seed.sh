#!/bin/bash
# usage: confirm_seed.sh <ID> <demo file name> -- re-confirm a seeded change in its scratch worktree:
#   suite passes with the change; demo fails with it and passes without it.
#   DEMO_RUSTFLAGS='--cfg feoxdb_verif' for demos that use the hooks (the suite runs with the guard off).
id="$1"; demo="$2"; wt="${3:-/tmp/mut_$id}"; seed="${4:-/verif/seeded/$id}"
export CARGO_TARGET_DIR="$wt/target" CARGO_NET_OFFLINE=true
cd "$wt" || exit 2
git checkout -q -- src && git apply "$seed/patch.diff" || { echo "patch does not apply"; exit 2; }
mkdir -p tests; rm -f tests/demo_*.rs
suite=$(cargo test --offline --no-fail-fast 2>&1 | grep -E "^test result" | awk '{p+=$4; f+=$6} END {print "passed=" p " failed=" f}')
cp "$seed/$demo" tests/
with=$(RUSTFLAGS="${DEMO_RUSTFLAGS:-${RUSTFLAGS:-}}" cargo test --offline --test "${demo%.rs}" 2>&1 | grep -E "^test result" | head -1)
git checkout -q -- src
without=$(RUSTFLAGS="${DEMO_RUSTFLAGS:-${RUSTFLAGS:-}}" cargo test --offline --test "${demo%.rs}" 2>&1 | grep -E "^test result" | head -1)
rm -f tests/demo_*.rs
echo "{\"id\": \"$id\", \"suite_with_change\": \"$suite\", \"demo_with_change\": \"$with\", \"demo_without_change\": \"$without\"}"
