#!/usr/bin/env python3
"""T-gen for C18: extract the lock-nesting relation from /repo's source.

For every function of the files that take the store's locks, the sequence of lock acquisitions is
read off the text: a guard bound with `let` is held until its block ends (or `drop(name)` /
`name.take()`), a temporary (`x.write().method(..)`) is held for its statement only.  Whenever a
lock is acquired -- directly, or by a called function of the same files that (transitively) takes
locks -- while a guard is held, the pair (held, acquired) is an edge.  The edges are written to
coq/Gen/LockSites.v; Properties/C18.v proves that they respect a rank, hence cannot form a cycle.
This is a syntactic approximation (regular expressions over the token stream), stated as such in
the trusted base."""
import os
import re
import sys

REPO = os.environ.get("VERIF_REPO", "/repo")
FILES = ["src/storage/write_buffer.rs", "src/core/store/persistence.rs", "src/core/store/recovery.rs",
         "src/storage/io.rs", "src/core/cache.rs", "src/core/store/init.rs", "src/core/store/mod.rs",
         "src/core/ttl_sweep.rs", "src/core/store/migration.rs"]

LOCKS = [  # (id, name, receiver regex)
    (1, "retirement_flush", r"(retirement_queue|queue)\.flush$"),
    (2, "retirement_pending", r"(retirement_queue|queue)\.pending$"),
    (3, "metadata", r"_metadata$"),
    (4, "disk_io", r"disk(_io)?$"),
    (5, "free_space", r"free_space$"),
    (6, "shard_buffer", r"self\.buffer$"),
    (7, "cache_eviction", r"eviction_lock$"),
    (8, "thread_handles", r"(periodic_flush_handle|worker_handles|handle|sweeper)$"),
    (9, "file_registry", r"(registry|indeterminate_files\(\)|INDETERMINATE[A-Z_]*|files)$"),
]
OTHER = 99


def strip(src):
    out = []
    i, n = 0, len(src)
    while i < n:
        c = src[i]
        if src.startswith("//", i):
            j = src.find("\n", i)
            i = n if j < 0 else j
        elif src.startswith("/*", i):
            j = src.find("*/", i + 2)
            i = n if j < 0 else j + 2
        elif c == '"':
            j = i + 1
            while j < n and src[j] != '"':
                j += 2 if src[j] == "\\" else 1
            out.append('""')
            i = j + 1
        elif c == "'" and i + 2 < n and (src[i + 2] == "'" or (src[i + 1] == "\\" and src.find("'", i + 2) in (i + 3, i + 4))):
            j = src.find("'", i + 2 if src[i + 1] != "\\" else i + 3)
            out.append("' '")
            i = j + 1
        else:
            out.append(c)
            i += 1
    return "".join(out)


def functions(text):
    """yield (name, body) for every fn with a body"""
    for m in re.finditer(r"\bfn\s+([A-Za-z_0-9]+)\s*(<[^>{]*>)?\s*\(", text):
        i = text.find("{", m.end())
        semi = text.find(";", m.end())
        if i < 0 or (0 <= semi < i):
            continue
        depth, j = 0, i
        while j < len(text):
            if text[j] == "{":
                depth += 1
            elif text[j] == "}":
                depth -= 1
                if depth == 0:
                    break
            j += 1
        yield m.group(1), text[i:j + 1]


def lock_of(receiver):
    r = re.sub(r"\s+", "", receiver)
    r = re.sub(r"(\.as_ref\(\)|\.unwrap\(\)|\?|\.clone\(\))+$", "", r)
    for lid, _name, rx in LOCKS:
        if re.search(rx, r):
            return lid
    return None


ACQ = re.compile(r"((?:[A-Za-z_][A-Za-z_0-9]*|\(\))(?:\s*\.\s*(?:[A-Za-z_][A-Za-z_0-9]*(?:\(\))?))*)\s*\.\s*(read|write|lock)\s*\(\s*\)")


def analyse(body, fname):
    """-> (direct acquisitions, nesting edges, calls made while holding, all calls)"""
    events = []  # (pos, kind, payload)
    for m in ACQ.finditer(body):
        lid = lock_of(m.group(1))
        if lid is None:
            continue
        # bound?  look back to the start of the statement
        start = max(body.rfind(";", 0, m.start()), body.rfind("{", 0, m.start()), body.rfind("}", 0, m.start())) + 1
        head = body[start:m.start()]
        tail = body[m.end():m.end() + 4]
        bm = re.match(r"\s*let\s+(?:mut\s+)?([A-Za-z_][A-Za-z_0-9]*)\s*(?::[^=]+)?=\s*(.*)$", head, re.S)
        bound = None
        if bm and re.match(r"\s*\)?\s*;", tail) and ("|" in bm.group(2) or bm.group(2).strip() == ""):
            bound = bm.group(1)
        events.append((m.start(), "acq", (lid, bound)))
    for m in re.finditer(r"\bdrop\s*\(\s*([A-Za-z_][A-Za-z_0-9]*)\s*\)", body):
        events.append((m.start(), "drop", m.group(1)))
    for m in re.finditer(r"\b([A-Za-z_][A-Za-z_0-9]*)\s*\.\s*take\s*\(\s*\)", body):
        events.append((m.start(), "drop", m.group(1)))
    for m in re.finditer(r"\b([a-z_][a-z_0-9]*)\s*\(", body):
        events.append((m.start(), "call", m.group(1)))
    for i, c in enumerate(body):
        if c == "{":
            events.append((i, "open", None))
        elif c == "}":
            events.append((i, "close", None))
        elif c == ";":
            events.append((i, "semi", None))
    events.sort(key=lambda e: (e[0], {"close": 0, "semi": 0, "open": 1}.get(e[1], 2)))
    held = []  # (lock, name or None, depth)
    depth = 0
    direct, edges, held_calls, calls = set(), set(), set(), set()
    for _pos, kind, p in events:
        if kind == "open":
            depth += 1
        elif kind == "close":
            held = [h for h in held if h[2] < depth]
            depth -= 1
        elif kind == "semi":
            held = [h for h in held if h[1] is not None]        # temporaries end with the statement
        elif kind == "drop":
            held = [h for h in held if h[1] != p]
        elif kind == "acq":
            lid, bound = p
            direct.add(lid)
            for h in held:
                if h[0] != lid or True:
                    edges.add((h[0], lid))
            held.append((lid, bound, depth))
        elif kind == "call":
            calls.add(p)
            for h in held:
                held_calls.add((h[0], p))
    return direct, edges, held_calls, calls


COMMON = {"new", "drop", "clear", "get", "insert", "remove", "len", "take", "extend", "push", "read", "write", "lock",
          "flush", "shutdown", "load", "store", "default", "clone", "iter", "map", "from", "into", "with_capacity", "is_empty",
          "unwrap", "expect", "ok", "err", "then", "min", "max", "send", "recv", "spawn", "join", "sleep", "update", "build"}


def main():
    fns = {}
    for f in FILES:
        p = os.path.join(REPO, f)
        if not os.path.exists(p):
            continue
        text = strip(open(p).read())
        # drop test modules
        text = re.sub(r"#\[cfg\(test\)\]\s*mod\s+\w+\s*\{.*", "", text, flags=re.S)
        local = [n for n, _ in functions(text)]
        unique = {n for n in local if local.count(n) == 1 and n not in COMMON}
        for name, body in functions(text):
            d, e, hc, c = analyse(body, name)
            # calls are resolved by name inside the same file only, and only to uniquely named functions
            hc = {(h, "%s::%s" % (f, cal)) for (h, cal) in hc if cal in unique}
            c = {"%s::%s" % (f, cal) for cal in c if cal in unique}
            name = "%s::%s" % (f, name)
            cur = fns.setdefault(name, [set(), set(), set(), set()])
            cur[0] |= d
            cur[1] |= e
            cur[2] |= hc
            cur[3] |= c
    # transitive acquisitions through calls (names are matched syntactically)
    acq = {n: set(v[0]) for n, v in fns.items()}
    changed = True
    while changed:
        changed = False
        for n, v in fns.items():
            for c in v[3]:
                if c in acq and c != n and not acq[c] <= acq[n]:
                    acq[n] |= acq[c]
                    changed = True
    edges = {}
    for n, v in fns.items():
        for e in v[1]:
            edges.setdefault(e, set()).add(n.split("::")[-1])
        for held, callee in v[2]:
            if callee in acq and callee != n:
                for l in acq[callee]:
                    edges.setdefault((held, l), set()).add("%s->%s" % (n.split("::")[-1], callee.split("::")[-1]))
    names = {lid: nm for lid, nm, _ in LOCKS}
    out = ["(* GENERATED by tools/gen_locks.py from %s -- do not edit.  lock ids: %s *)" % (REPO, ", ".join("%d=%s" % (l, n) for l, n, _ in LOCKS)),
           "From Coq Require Import List NArith.", "Import ListNotations.", "Local Open Scope N_scope.", "",
           "(* (held, acquired): `acquired` is taken while `held` is held, somewhere in the source *)",
           "Definition lock_edges : list (N * N) :=", "  ["]
    items = sorted(edges.items())
    for i, ((a, b), where) in enumerate(items):
        out.append("    (%d, %d)%s   (* %s -> %s : %s *)" % (a, b, ";" if i + 1 < len(items) else "", names.get(a, a), names.get(b, b), ", ".join(sorted(where))[:140]))
    out.append("  ].")
    out.append("")
    out.append("Definition lock_sites : N := %d.   (* functions that take at least one of the locks *)" % sum(1 for v in fns.values() if v[0]))
    dst = os.path.join(os.path.dirname(os.path.abspath(__file__)), "..", "coq", "Gen", "LockSites.v")
    new = "\n".join(out) + "\n"
    old = open(dst).read() if os.path.exists(dst) else None
    if new != old:
        open(dst, "w").write(new)
    if "-v" in sys.argv:
        print(new)
    return 0


if __name__ == "__main__":
    sys.exit(main())
