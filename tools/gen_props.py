#!/usr/bin/env python3
"""Helper used while writing Properties/*.v: expands a compact spec into
Theorem / Proof. exact lemma. Qed. / Check (pinned statement) / Print Assumptions."""
import sys, re
src = open(sys.argv[1]).read()
out = []
for block in re.split(r"\n(?=@T )", src):
    if not block.startswith("@"):
        out.append(block)
        continue
    head, _, rest = block.partition("\n")
    kind, name, lemma = head[1:].split()
    stmt = rest.rstrip()
    tail = ""
    if "\n@@\n" in stmt + "\n":
        stmt, tail = (stmt + "\n").split("\n@@\n", 1)
    out.append("Theorem %s :\n%s.\nProof. exact %s. Qed.\nCheck %s :\n%s.\nPrint Assumptions %s.\n%s" % (name, stmt, lemma, name, stmt, name, tail))
open(sys.argv[2], "w").write("\n".join(out))
