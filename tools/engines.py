"""Per-property registry and the generic decision procedure of a check run."""
import glob
import json
import os
import subprocess
import time

import vlib
from vlib import log

# Each property: theorem file Properties/<pid>.v + a list of correspondence runs.
#   teq: [{engine, quick:{args}, thorough:{args}, oracle: bool, mismatch_is_failure: bool, what: str}]
# oracle=True: the harness also evaluates the property text directly on the implementation's
#   answers (oracle.*.txt); a FAIL line is a concrete failing input.
SEQ_WHAT = 'the real FeoxStore driven through every public call (all insert/get/delete/CAS/increment/insert-if-absent/JSON-patch/TTL/range calls, len, contains, get_size, flush, clean reopen) in 16 configurations (memory-only x {limit, no limit} x TTL; persistent x cache x TTL x v1/v2/v3), with the background flusher running, vs the reference map Model.Lww: every return value, memory_usage(), len() and a digest of (key, timestamp, expiry, length) of every live record after every call, full value dumps at random points, clock-shard values checked against the clock rules'


def seq(extra_quick=None, extra_thorough=None, oracle=True):
    q = {"n": 2, "ops": 70}
    t = {"tier": "thorough"}
    q.update(extra_quick or {})
    t.update(extra_thorough or {})
    return {"engine": "seq", "quick": q, "thorough": t, "oracle": oracle, "mismatch_is_failure": True, "timeout": 3400,
            "nontrivial": lambda case, res: res.count(" | ") >= 20 and "true" in res,
            "distinct_key": lambda case, res: res,
            "what": SEQ_WHAT}


# mismatch_is_failure=True: the model's answer is what the property dictates (the model is the
#   reference map/codec by theorem), so a disagreeing case is itself the failing input.
REGISTRY = {
    "C06": {
        "title": "free-space allocator",
        "teq": [{"engine": "fs", "quick": {}, "thorough": {"tier": "thorough"}, "oracle": True,
                 "mismatch_is_failure": False,
                 "nontrivial": lambda case, res: " ok" in res and " r" in case,
                 "what": "FreeSpaceManager (allocate_sectors/release_sectors + 4 getters) vs Model.FreeSpace on exhaustive short sequences, every free set x every op, random long sequences"}],
        "nontrivial_rule": "a case is one op sequence on one device size; distinct = distinct (device, op sequence) by 64-bit hash; non-trivial = at least one call succeeded and at least one release was attempted (so the free set really changed and a release decision was compared)",
        "assumptions": ["BTreeMap is a sorted, key-unique map (by_start/by_size modelled as one sorted run list)",
                        "precondition of the theorems: 16 < device sectors and device bytes < 2^64 (validate_device_size)"],
    },
    "C01": {
        "title": "sequential calls match a last-writer-wins map on every storage tier",
        "teq": [seq()],
        "nontrivial_rule": "a case is one call sequence in one configuration; non-trivial = at least 20 calls compared and at least one write accepted; distinct by 64-bit hash of the whole result line; cases the model cannot decide (a wall-clock comparison inside the observation window) are counted separately as undecided and skipped",
        "assumptions": ["wall clock is monotone within a call's observation window [tb, ta]", "JSON patch results are computed by the crate's own apply_json_patch on the harness's shadow of the last written value (serde_json/json-patch are not modelled)", "the reference map is tier-free by construction: agreement in persistent configurations with flush/reopen is what shows tier independence of the implementation"],
    },
    "C11": {
        "title": "expiry is exact",
        "teq": [seq({"seedoff": 11, "lastsec": 1}, {"lastsec": 1}),
                {"engine": "crash", "quick": {"n": 1, "points": 10, "ttl": 1, "seedoff": 211}, "thorough": {"tier": "thorough", "ttl": 1, "seedoff": 211}, "oracle": True, "mismatch_is_failure": True, "timeout": 3400,
                 "nontrivial": lambda case, res: "plan=" in case and res.startswith("ok") and "keys=-" not in res,
                 "distinct_key": lambda case, res: res,
                 "what": "crash images of TTL-on workloads that include generations expired on arrival (explicit 1970 timestamps) and never-expiring ones of the same keys: real reopen with TTL on vs Model.Recovery (newest generation chosen first, then dropped if expired, older generations never exposed), plus the window oracle (an expired newest generation means the key is absent)"}],
        "nontrivial_rule": "as C01; expiries are generated at least one hour before or after the wall clock so visibility is decidable; TTL-on configurations carry the expiry clauses",
        "assumptions": ["the 1 ns boundary of the real clock is not decidable by this check (the model fixes > vs >=; comparisons inside the observation window are reported undecided)", "with the sweeper running, 150 ms either side of an expiry instant are not judged", "sweeper interleavings and crash points inside recovery are not part of this check (C04/C07 machinery)"],
    },
    "C12": {
        "title": "automatic versions strictly increase per key",
        "teq": [seq({"seedoff": 12, "autocheck": 1}, {"autocheck": 1}), seq({"extreme": 1, "autocheck": 1, "n": 1, "ops": 60, "seedoff": 112}, {"extreme": 1, "autocheck": 1})],
        "nontrivial_rule": "as C01; the second stream adds explicit timestamps 2^64-2 and 2^64-1 and the directed replay of known finding F2; an implementation-side oracle flags every automatically timestamped call answered OlderTimestamp on a key the application did not pin at the maximum",
        "assumptions": ["clock shard index and value are read through hook H4 after every call"],
    },
    "C13": {
        "title": "memory accounting is exact",
        "teq": [seq({"seedoff": 13})],
        "nontrivial_rule": "as C01; memory_usage() and len() are compared after every call; two of the four memory-only configurations run under a limit that admits only some writes",
        "assumptions": ["size_of::<Record>() is read through hook H4", "the concurrent clause (no interleaving exceeds the limit) is not decided by this check"],
    },
    "C14": {
        "title": "range queries",
        "teq": [seq({"seedoff": 14}), seq({"seedoff": 114, "focus": 1, "n": 6, "ops": 60}, {"focus": 1, "seedoff": 114})],
        "nontrivial_rule": "as C01; range queries with empty/extreme/inverted bounds, prefixes and limits 0,1,2,1000 are part of every sequence; a second stream (focus=1, TTL stores) makes a third of the calls range queries with limits 1..5 over key sets where about a third of the inserts are expired on arrival, so skipped index entries interact with the limit",
        "assumptions": ["sequentially crossbeam_skiplist::SkipMap iteration is modelled as the sorted binding list; concurrently (Model/Scan.v) lower_bound / Entry::next are assumed linearizable: each returns the node with the least key >= start / > the entry's key among the nodes linked at some instant of the call; an unlinked node's slot keeps its last record", "between two H10 points the scan performs one skip-list call or one slot load; writers' calls are atomic in the model (their own interleavings are C07's subject)"],
    },
    "C02": {
        "title": "acknowledged data survives any later crash",
        "teq": [
            {"engine": "crash", "quick": {"n": 1, "points": 12, "bulkdel": 1}, "thorough": {"tier": "thorough", "bulkdel": 1}, "oracle": True, "mismatch_is_failure": False, "timeout": 3400,
             "nontrivial": lambda case, res: "plan=" in case and not case.endswith("none") and res.startswith("ok") and "keys=-" not in res,
             "distinct_key": lambda case, res: res,
             "what": "real workloads (1-8 shards' worth of workers, io_uring and forced-pwrite paths, periodic flusher, explicit flushes, clean close) traced through hook H1; (a) T-run: the Coq monitor must accept the real device history (journal discipline R1-R3); (b) crash images = every sampled trace prefix x subsets of the un-synced writes x sector-granular tearing, each reopened by the real code in a child process and by Model.Recovery.open_image (must agree, incl. file bytes after recovery); (c) oracle on the real reopen: it opens, every key is in its window [state at the last acknowledgement before the cut .. latest invoked], nothing never written surfaces, len = keys"},
            {"engine": "f3", "quick": {"tries": 1}, "thorough": {"tries": 3}, "oracle": True, "mismatch_is_failure": False,
             "nontrivial": lambda case, res: res.startswith("ok"),
             "what": "directed replay of finding F3 (split retired extent, hook H6 holds one worker between allocation and the device lock, process killed)"},
        ],
        "nontrivial_rule": "a case is one crash image of one traced workload (or one whole trace for the monitor); non-trivial = at least one un-synced write applied and at least one key recovered; distinct by 64-bit hash of the recovered contents line",
        "assumptions": ["A2 sector atomicity (512 B), A3 fsync contract, A1 checksum detection for torn journal slots (DESIGN section 4)",
                        "the theorems are over the abstract device of Model/Device.v (cells = extents); block-level scan alignment is covered by the image correspondence, not proved",
                        "crash images are rebuilt from the H1 write trace (no real power failure)"],
    },
    "C03": {
        "title": "any crash leaves a file that reopens to authentic, untorn, recent contents",
        "teq": [
            {"engine": "crash", "quick": {"n": 1, "points": 12, "hostile": 1, "bulkdel": 1, "seedoff": 3}, "thorough": {"tier": "thorough", "hostile": 1, "bulkdel": 1, "seedoff": 3}, "oracle": True, "mismatch_is_failure": False, "timeout": 3400,
             "nontrivial": lambda case, res: "plan=" in case and not case.endswith("none") and res.startswith("ok") and "keys=-" not in res,
             "distinct_key": lambda case, res: res,
             "what": "as C02, with hostile values: multi-block values whose later blocks are byte-exact retirement markers (valid marker token for a plausible sector) or record heads of other keys with far-future timestamps stamped with a valid token; plus one directed workload (recipe bulkdel) whose single flush retires about 1150 non-adjacent extents -- more than one allocation-journal transaction names -- with the monitor on its device history and crash images inside each retirement transaction (everything in flight written, the highest in-flight write torn)"},
        ],
        "nontrivial_rule": "as C02",
        "assumptions": ["as C02"],
    },
    "C04": {
        "title": "recovery is idempotent, restartable and never discards a live record",
        "teq": [
            {"engine": "recrash", "quick": {"n": 1, "points": 8}, "thorough": {"tier": "thorough"}, "oracle": True, "mismatch_is_failure": False, "timeout": 3400,
             "nontrivial": lambda case, res: "level=2" in case and res.startswith("ok") and "keys=-" not in res,
             "distinct_key": lambda case, res: case.split("plan=")[-1] + res,
             "what": "crash images of traced workloads (TTL on and off, processes killed without close) are recovered by the real code with recovery's own device writes traced (hook H1); crash points x subsets x tearing INSIDE that recovery give second-level images, each reopened by the real code and by Model.Recovery (must agree); oracle: every second-level image reopens to exactly the contents the first recovery reported; images whose recovery wrote nothing are reopened twice. Every fourth shard adds a directed workload (durable never-expiring generations overwritten by generations that are expired on arrival; image cut before the old ones are retired), whose TTL-aware recovery retires superseded generations AND expired winners, so that crash points fall between its retirement transactions"},
            {"engine": "crash", "quick": {"n": 1, "points": 8, "ttl": 1, "seedoff": 404}, "thorough": {"tier": "thorough", "ttl": 1, "seedoff": 404}, "oracle": True, "mismatch_is_failure": True, "timeout": 3400,
             "nontrivial": lambda case, res: "plan=" in case and res.startswith("ok") and "keys=-" not in res,
             "distinct_key": lambda case, res: res,
             "what": "first-level recoveries with TTL on: crash images of TTL workloads whose expired-on-arrival generations have on-disk sizes ending in the last 200 bytes of a block and are followed by live records; the real recovery's result AND the device bytes it leaves (its retirement writes) must equal Model.Recovery.open_image, so a repair write that touches a block of a live record is a concrete failing image"},
        ],
        "nontrivial_rule": "a case is one second-level crash image (a crash inside a recovery of a crash image); non-trivial = recovered at least one key; distinct by (first-level plan, inner plan, contents)",
        "assumptions": ["as C02; retirement lists longer than one journal chunk come from the directed f1 engine only"],
    },
    "C05": {
        "title": "each data block has exactly one owner or is free",
        "teq": [
            {"engine": "partition", "quick": {"n": 1}, "thorough": {"tier": "thorough"}, "oracle": True, "mismatch_is_failure": True, "timeout": 3400,
             "nontrivial": lambda case, res: res.startswith("ok") and "keys=-" not in res,
             "distinct_key": lambda case, res: res,
             "what": "workloads with mixed 1-5 block extents on 40-96 block devices with immediate reuse; at every quiescent point (flush acknowledged, clean reopen) (a) oracle on the live store: extents in the data area, pairwise disjoint, free pool = exact complement, usage/record counters and the persisted metadata counters equal the live totals; (b) the state Model.Recovery rebuilds from a copy of the file (contents, extents, free-space statistics, file untouched) must equal the live state; finally the device is emptied by deletes and must be one free run again and accept what a fresh device accepts"}],
        "nontrivial_rule": "a case is one quiescent point of one workload; non-trivial = at least one live key; distinct by 64-bit hash of the state line",
        "assumptions": ["quiescence = flush() returned Ok on a healthy device (retirements drained)"],
    },
    "C07": {
        "title": "concurrent operations on a key are atomic and timestamp-ordered",
        "teq": [
            {"engine": "conc", "quick": {"n": 250, "mode": "sched"}, "thorough": {"tier": "thorough", "mode": "sched"}, "oracle": True, "mismatch_is_failure": False, "timeout": 3400,
             "nontrivial": lambda case, res: res.count(";") >= 1 and ("older" in res or "false" in res or "i:" in res),
             "distinct_key": lambda case, res: case.split("prog=")[-1] + res,
             "what": "T-sched: 2-4 real threads with 1-4 calls each (get, insert, delete, compare-and-swap, increment, insert-if-absent, JSON patch; explicit timestamps with collisions, far-future ones, automatic ones; slice and Bytes spellings; memory-only and persistent with the flusher and cache on) are parked by a controller at the H7 points (loop tops and the instruction before every guarded block) and released one segment at a time following a random schedule; Model.Sched runs the same programs under the same schedule; every response and the final contents must be equal. Oracle: no call hangs, no unexpected error kind"},
            {"engine": "conc", "quick": {"n": 250, "mode": "hist", "seedoff": 7}, "thorough": {"tier": "thorough", "mode": "hist", "seedoff": 7}, "oracle": True, "mismatch_is_failure": True, "timeout": 3400,
             "nontrivial": lambda case, res: case.count(",") >= 16 and res == "lin=1",
             "distinct_key": lambda case, res: case,
             "what": "real histories -- half from controlled schedules, half from free-running threads that yield or sleep at random at the H7 points -- with the positions of every invocation and response in one global order, followed by a final get of every key, are judged by the extracted, proved-sound checker Model.Lin.lin_check: a history it rejects has no sequential last-writer-wins witness respecting real time even with the two permitted refusals"},
        ],
        "nontrivial_rule": "sched: a case is one (programs, schedule) pair, non-trivial when at least two threads ran and some call was refused or incremented; hist: a case is one complete history, non-trivial when it has at least 4 calls and was accepted; distinct by the full text",
        "assumptions": ["segments between H7 points are atomic in the model: each contains one hash-table access (scc read or entry-guarded block) plus reads of monotone data (shard clock, retired_at); scc entry guards are exclusive per key",
                        "the wall clock is abstracted to 2^60; the harness uses explicit timestamps below 2^20 or from 2^62, which makes every comparison order-isomorphic",
                        "lin_check is proved sound, not complete; its witness gives automatic writes the smallest admissible timestamp",
                        "values stay resident or are offloaded by the running flusher; TTL is off in these runs"],
    },
    "C08": {
        "title": "reads racing with flush, retirement and reuse return only genuine values",
        "teq": [
            {"engine": "race", "quick": {"n": 3}, "thorough": {"tier": "thorough"}, "oracle": True, "mismatch_is_failure": True, "timeout": 3400,
             "nontrivial": lambda case, res: "pinned=0 " not in case and res == "ok",
             "distinct_key": lambda case, res: case[:400],
             "what": "persistent stores on 44-72 block devices (freed blocks are reused at once), cache on/off, io_uring and pwrite paths, 1-2 writers (one writer per key: inserts of 1-3 block values through both spellings, deletes, TTL-only rewrites whose bytes stay in the predecessor's extent, explicit flushes) against 2-3 readers (get, get_bytes, range_query, never-matching compare-and-swap) with random sleeps at the H5 points (before the pin, while pinned, after the release, after the retired bit, after the markers are durable). (a) the trace of pin/unpin events (H5) and device writes (H1), in one global order, is judged by the extracted monitor Model.Extent.emon: a write that overlaps an open pin is the violation; (b) oracle: every value returned is byte-for-byte a value written to that key, of a generation no older than the last update completed before the read began and not newer than the last one invoked before it ended; not-found only if absent at such a generation; StaleExtent only on keys that were rewritten; no other error"},
        ],
        "nontrivial_rule": "a case is one whole run (all reads + the event trace); non-trivial = at least one read was served from the device under a pin and the monitor accepted; distinct by configuration and trace prefix",
        "assumptions": ["pin events are reported after the acquire and before the release, write events before the write is issued, so a flagged overlap is real and a real overlap can be missed only inside those few instructions",
                        "one writer per key makes generation order equal time order, so recency is decidable",
                        "the model covers one extent; independence of different extents is by construction (extent_state is per record)"],
    },
    "C19": {
        "title": "write-behind is bounded: accepted writes reach the device without explicit flush",
        "teq": [
            {"engine": "lag", "quick": {"n": 2}, "thorough": {"tier": "thorough"}, "oracle": True, "mismatch_is_failure": True, "timeout": 3400,
             "nontrivial": lambda case, res: res.startswith("ok") and "keys=-" not in res,
             "distinct_key": lambda case, res: res,
             "what": "child processes pinned (taskset) to 1,2,3,4,6,8,12 or 16 CPUs -- which fixes how many write-buffer shards and workers the store builds -- run workloads over 8-400 keys (so every shard is touched), small ones and bursts of 600-1500 calls, that never call flush and never close; after 3-3.5 s of waiting, idle or with a neighbour thread that keeps writing other keys, the process is killed. The device image rebuilt from the H1 trace with ONLY the writes covered by a successful fsync must reopen (real code, fresh process) with every key at the state it had before the wait (window oracle, the wait counts as the acknowledgement) and must equal Model.Recovery.open_image; in idle runs the image must also hold no un-retired superseded or deleted generation"},
        ],
        "nontrivial_rule": "a case is one image of one workload; non-trivial = it opened and held at least one key; distinct by contents",
        "assumptions": ["the bound checked is 3 s (30 flush intervals): the property speaks of well under a few seconds on a responsive machine; the check must not raise an alarm on a loaded one",
                        "a woken worker is scheduled and its device calls return: runtime behaviour, observed not proved"],
    },
    "C20": {
        "title": "the safe API is memory safe under every interleaving (partial)",
        "teq": [
            {"engine": "inflight", "quick": {"n": 20000}, "thorough": {"tier": "thorough"}, "oracle": False, "mismatch_is_failure": True, "timeout": 3400,
             "nontrivial": lambda case, res: "L" in res and "F" in res,
             "distinct_key": lambda case, res: case,
             "what": "io.rs InFlightBuffers driven through hook H8 with drop-tracking tokens in the shape of batch_write_inner (push all, mark + submit each, a failed submission, completions in any order, missing or duplicated) vs Model.InFlight: which buffers are freed and which kept alive at the drop, and every mark_complete result"},
            {"engine": "asanselftest", "quick": {}, "thorough": {}, "asan": True, "expect_asan_report": True, "oracle": False, "mismatch_is_failure": False,
             "what": "self-test of the instrumentation: a deliberate heap out-of-bounds read in the harness must be reported by AddressSanitizer"},
            {"engine": "conc", "quick": {"n": 60, "mode": "hist", "seedoff": 20}, "thorough": {"n": 1500, "mode": "hist", "seedoff": 20}, "asan": True, "oracle": True, "mismatch_is_failure": False, "timeout": 3400,
             "nontrivial": lambda case, res: res == "lin=1", "distinct_key": lambda case, res: case,
             "what": "C07 histories (controlled and free-running threads on shared keys, memory-only and persistent) " + 're-executed under AddressSanitizer (nightly toolchain, -Zsanitizer=address on the crate and the harness; child processes are the same instrumented binary): any sanitizer report or abnormal termination is the violation'},
            {"engine": "race", "quick": {"n": 1, "seedoff": 20}, "thorough": {"n": 12, "seedoff": 20}, "asan": True, "oracle": True, "mismatch_is_failure": False, "timeout": 3400,
             "nontrivial": lambda case, res: res == "ok", "distinct_key": lambda case, res: case[:300],
             "what": "C08 races (readers incl. range scans against updates, deletes, TTL rewrites, flushes, retirement and reuse, cache eviction, io_uring and pwrite paths) " + 're-executed under AddressSanitizer (nightly toolchain, -Zsanitizer=address on the crate and the harness; child processes are the same instrumented binary): any sanitizer report or abnormal termination is the violation'},
            {"engine": "scan", "quick": {"n": 4, "ms": 400, "seedoff": 20}, "thorough": {"n": 40, "ms": 1000, "seedoff": 20}, "asan": True, "oracle": True, "mismatch_is_failure": False, "timeout": 3400,
             "nontrivial": lambda case, res: "pairs=0" not in case, "distinct_key": lambda case, res: case,
             "what": "four scanners running range_query at full speed against four writers that replace (slice and Bytes), delete, re-create, TTL-rewrite and compare-and-swap the same 2-6 keys with 40 B - 20 KiB values, memory-only and persistent " + 're-executed under AddressSanitizer (nightly toolchain, -Zsanitizer=address on the crate and the harness; child processes are the same instrumented binary): any sanitizer report or abnormal termination is the violation'},
            {"engine": "seq", "quick": {"n": 1, "ops": 50, "seedoff": 20}, "thorough": {"n": 20, "ops": 120, "seedoff": 20}, "asan": True, "oracle": True, "mismatch_is_failure": False, "timeout": 3400,
             "nontrivial": lambda case, res: res.count(" | ") >= 20, "distinct_key": lambda case, res: res,
             "what": "C01 call sequences over every API spelling, expiry, cache, reopen and shutdown " + 're-executed under AddressSanitizer (nightly toolchain, -Zsanitizer=address on the crate and the harness; child processes are the same instrumented binary): any sanitizer report or abnormal termination is the violation'},
            {"engine": "fault", "quick": {"n": 1, "faults": 2, "seedoff": 20}, "thorough": {"n": 3, "faults": 6, "seedoff": 20}, "asan": True, "oracle": True, "mismatch_is_failure": False, "timeout": 3400,
             "nontrivial": lambda case, res: res.startswith("ok"), "distinct_key": lambda case, res: res,
             "what": "C09 failed and interrupted device writes and fsyncs " + 're-executed under AddressSanitizer (nightly toolchain, -Zsanitizer=address on the crate and the harness; child processes are the same instrumented binary): any sanitizer report or abnormal termination is the violation'},
            {"engine": "mutimg", "quick": {"bases": 1, "mutants": 6, "seedoff": 20}, "thorough": {"bases": 6, "mutants": 20, "seedoff": 20}, "asan": True, "oracle": True, "mismatch_is_failure": False, "timeout": 3400,
             "nontrivial": lambda case, res: True, "distinct_key": lambda case, res: res,
             "what": "C17 opens of damaged and forged device files " + 're-executed under AddressSanitizer (nightly toolchain, -Zsanitizer=address on the crate and the harness; child processes are the same instrumented binary): any sanitizer report or abnormal termination is the violation'},
        ],
        "nontrivial_rule": "inflight: a case is one event sequence, non-trivial when the drop both freed and kept alive a buffer; sanitizer runs: a case is one case of the re-executed engine",
        "assumptions": ["AddressSanitizer instruments the crate and the harness, not the prebuilt standard library and C dependencies; it reports what the explored executions touch, nothing more",
                        "the kernel holds a reference from the submission push to the completion entry (ghost state of Model.InFlight)"],
    },
    "C18": {
        "title": "calls, flush and close always terminate (partial)",
        "teq": [
            {"engine": "term", "quick": {"n": 2}, "thorough": {"tier": "thorough"}, "oracle": True, "mismatch_is_failure": False, "timeout": 3400,
             "nontrivial": lambda case, res: case.startswith("note term"),
             "distinct_key": lambda case, res: case,
             "what": "contention scenarios, each in its own process with every call under a 20 s watchdog and the whole scenario under a 90 s limit: 3-8 threads with half of them calling flush() in a loop against writers; a device of 24-40 blocks that fills up; a device whose writes and fsyncs start failing at a random call (both I/O paths); the TTL sweeper running against writers of 1 s TTLs; a general mix with range scans and increments; each ends with a write followed at once by the drop of the store (shutdown with work pending). A call or a shutdown that does not come back is the violation"},
            {"engine": "conc", "quick": {"n": 40, "mode": "hist", "seedoff": 18}, "thorough": {"n": 1000, "mode": "hist", "seedoff": 18}, "oracle": True, "mismatch_is_failure": False, "timeout": 3400,
             "nontrivial": lambda case, res: res == "lin=1", "distinct_key": lambda case, res: case,
             "what": "the C07 controller holds one thread inside each optimistic-read / guarded-swap window while the others run (every grant under a 20 s watchdog): a parked thread must never block the others, and every call returns"},
        ],
        "nontrivial_rule": "a case is one scenario run to completion (term) or one controlled/free history (conc); all of them count: the property is that they finish",
        "assumptions": ["tools/gen_locks.py reads the nesting relation off the source text (let-bound guards held to the end of their block, temporaries for their statement, calls resolved by name inside a file): an approximation, stated in DESIGN section 7",
                        "scc bucket guards, crossbeam epochs, channels and condition variables are not in the relation",
                        "the watchdog limits (20 s per call, 90 s per scenario) are far above what the scenarios need in this sandbox"],
    },
    "C09": {
        "title": "I/O failures are reported, contained and never destroy durable data",
        "teq": [
            {"engine": "fault", "quick": {"n": 1, "faults": 3}, "thorough": {"tier": "thorough"}, "oracle": True, "mismatch_is_failure": False, "timeout": 3400,
             "nontrivial": lambda case, res: "fault=" in case and res.startswith("ok") and "keys=-" not in res,
             "distinct_key": lambda case, res: case.split("fault=")[-1] + res,
             "what": "forced-pwrite path with hook H2: for each workload a fault-free run counts the device calls, then runs with EVERY single failing call of that workload (each write and each fsync, failing before and after the bytes reached the device; the 16 shards split the list), random pairs of failures, persistent failure from a point, and persistent failure that heals; (a) the Coq monitor must accept the faulted device history (scrub markers only inside journaled extents, re-issued journal writes, ordering); (b) crash images along the faulted history and the device as it stands are reopened by the real code and by Model.Recovery (must agree); (c) oracle: flush()==Ok acknowledges (window check on every image; a close during which a call failed acknowledges nothing), reads issued during the failure return the latest accepted values, the workload neither hangs nor dies, and after healing the last flush succeeds unless the device was poisoned"}],
        "nontrivial_rule": "a case is one crash image of one faulted run (or one faulted history for the monitor); non-trivial = at least one key recovered; distinct by (fault kind, plan, contents)",
        "assumptions": ["A4 fail-stop faults: a failed write left the old bytes or wrote the new ones; a failed fsync persisted any subset (modelled as: the writes stay un-synced)",
                        "io_uring-path faults are not injected (only observed)"],
    },
    "C10": {
        "title": "documented v1/v2/v3 layout",
        "teq": [
            {"engine": "codec", "quick": {}, "thorough": {"tier": "thorough"}, "oracle": True, "mismatch_is_failure": True,
             "nontrivial": lambda case, res: True,
             "what": "pure format functions through hook H3 (crc32c, record/marker tokens, marker fill, journal encode/decode with damaged slots, metadata encode/decode, record serialize/parse/header_range/stamp/sector_holds for v1,v2,v3 at boundary key and value lengths) vs the Coq codecs written from the documented layout; oracle: every journal image the encoder accepts -- the largest transactions it accepts included -- fits the three blocks of its slot"},
            {"engine": "flushimg", "quick": {}, "thorough": {"tier": "thorough"}, "oracle": True, "mismatch_is_failure": True,
             "nontrivial": lambda case, res: res.startswith("flushed") and "keys=-" not in res,
             "distinct_key": lambda case, res: res,
             "what": "whole file after flush(): the model, as an independent read-only reader of the documented layout, must find exactly the live keys/values/timestamps/expiries, a clear journal and metadata counters equal to the live totals (v1, v2, v3 devices; killed and cleanly closed processes)"},
            {"engine": "golden", "quick": {}, "thorough": {}, "oracle": True, "mismatch_is_failure": True,
             "nontrivial": lambda case, res: res.startswith("flushed"),
             "distinct_key": lambda case, res: case + res,
             "what": "golden files written by the pinned release (v3, v2, v1; /verif/golden): the model decodes each to its recorded manifest; the working tree opens each, reads back the manifest, writes more and flushes, and the model then decodes the result (legacy files must keep their record format)"},
        ],
        "nontrivial_rule": "codec: every case compares one function result; flushimg/golden: a case is one device file, non-trivial when it decodes to at least one live key; distinct by 64-bit hash of the decoded contents",
        "assumptions": ["the documented layout is the one written down in coq/Model/Codec.v and MetaJournal.v header comments (README, constants.rs, metadata.rs, allocation_journal.rs)",
                        "golden files were produced by the pinned tree with this harness' genimg workload"],
    },
    "C15": {
        "title": "offline migration is a faithful, verified, non-destructive copy",
        "teq": [
            {"engine": "migrate", "quick": {"n": 4}, "thorough": {"tier": "thorough"}, "oracle": True, "mismatch_is_failure": True, "timeout": 3400,
             "nontrivial": lambda case, res: res.startswith("ok") and " n=0 " not in res,
             "distinct_key": lambda case, res: res + case.split("src=")[-1],
             "what": "legacy sources produced by the engine itself in v1/v2 compatibility mode (updates, deletes, reuse, TTL; processes killed with active journals and pending retirements, clean closes; up to 700 operations over 400 keys so that several 256-record batches are copied), v3 sources, and sources damaged by the C17 mutators or carrying an ambiguous legacy tombstone; with and without the opt-in; with and without an existing destination. The real migrate() runs in a child process: outcome/error kind, report (source version, records, ambiguous markers), and the destination read back by the real store must equal Model.Migration.migrate_spec of the source image; oracle: source byte-identical, nothing published and no temporary left on failure, an existing destination untouched, destination is v3"}],
        "nontrivial_rule": "a case is one migration attempt; non-trivial = it succeeded and copied at least one record; distinct by (result line, source kind)",
        "assumptions": ["the filesystem (create_new, hard_link, directory fsync) is not modelled: publication and rollback are only observed", "the feox-migrate binary is not exercised separately (it calls migrate())"],
    },
    "C16": {
        "title": "the read cache is transparent and its accounting exact",
        "teq": [
            {"engine": "cache", "quick": {"n": 3}, "thorough": {"tier": "thorough"}, "oracle": True, "mismatch_is_failure": True, "timeout": 3400,
             "nontrivial": lambda case, res: "hit:" in res and "ev=0 " not in res.split(" | ")[-1] + " ",
             "distinct_key": lambda case, res: res,
             "what": "the public ClockCache API (insert / get / remove / evict_entries / clear / adjust_watermarks / stats) under 1-4 MB watermarks with 40-220 KB entries vs Model.Cache (buckets by murmur3, CLOCK hand, MAX_SCANS, large-value rule): every hit/miss with the value, memory_usage, eviction count and watermarks after every call; oracle: no hit after an explicit remove, usage at or below the low watermark after evict_entries, zero after clear"},
            seq({"only": "persistent", "n": 2, "ops": 80, "seedoff": 16}, {"only": "persistent", "seedoff": 16}),
        ],
        "nontrivial_rule": "cache: a case is one operation sequence on a fresh cache, non-trivial when it had at least one hit and at least one eviction; seq: as C01 restricted to the 12 persistent configurations (cache on and off), both must equal the same reference map; cgen: one sequence of tagged cache calls, non-trivial when a lookup hit",
        "assumptions": ["size_of::<CacheEntry>() is measured through the public accounting of a one-entry cache", "Weak<Record> keeps the allocation of a cached generation, so a pointer-identity tag is never reused while its entry exists (Model.CacheGen: identities are never reused)", "Model.CacheGen layer B (the store's read/write/TTL paths around the cache) is tied to the code by the sequence and race engines only; layer A by hook H13", "a disk read that is not refused returns the value of the generation read (C08)"],
    },
    "C17": {
        "title": "opening arbitrary or damaged files fails cleanly",
        "teq": [
            {"engine": "mutimg", "quick": {}, "thorough": {"tier": "thorough"}, "oracle": True,
             "mismatch_is_failure": False, "timeout": 3000,
             "nontrivial": lambda case, res: not res.startswith("err invalid-metadata") and not res.startswith("fresh") and not res.startswith("note"),
             "distinct_key": lambda case, res: res + case.split("mut=")[-1],
             "what": "engine-built v1/v2/v3 images (flushed, killed, closed) mutated by 16 mutators (random bytes, bit flips, block swaps, duplicated/truncated extents, forged record fields, markers, journal slots and metadata re-checksummed with the real encoders, missing signature, almost-zero, legacy tombstones); real open in a child process (catch_unwind, 20 s watchdog, post-open probe workload) vs Model.Recovery.open_image: outcome, error kind, contents, values, free-space stats, and the file bytes after the open (also after a failed open)"},
            {"engine": "img", "quick": {"n": 4}, "thorough": {"tier": "thorough"}, "oracle": True,
             "mismatch_is_failure": False, "timeout": 3000,
             "nontrivial": lambda case, res: res.startswith("ok") and "keys=-" not in res,
             "distinct_key": lambda case, res: res,
             "what": "unmutated engine-built images opened with TTL on and off"},
        ],
        "nontrivial_rule": "a case is one device image + open configuration; non-trivial = the open got past the metadata gate (mutants) / recovered at least one key (unmutated); distinct = distinct (outcome line, mutation kinds) by 64-bit hash",
        "assumptions": ["blocks are 4096 bytes; the model reads an image file the same way the device is read",
                        "post-open behaviour (every call on an opened store returns) is only observed (probe workload under catch_unwind), not proved",
                        "the implementation-side oracle (no panic / no hang / no abort / unchanged on metadata-or-size rejection) is evaluated in a child process with a 20 s watchdog"],
    },
}


# ---- directed replay of finding F1 (fixed), part of C04 and C11 ----
def _f1(seedoff):
    return {"engine": "f1",
            "quick": {"blocks": 4096, "fillers": 1500, "xkeys": 750, "cuts": 0, "narrow": 1, "seedoff": seedoff},
            "thorough": {"blocks": 8192, "fillers": 2600, "xkeys": 1300, "cuts": 6, "seedoff": seedoff},
            "oracle": True, "mismatch_is_failure": True, "timeout": 3400,
            "nontrivial": lambda case, res: "level=2" in case and res.startswith("ok"),
            "distinct_key": lambda case, res: case.split("plan=")[-1] + res,
            "what": "directed replay of finding F1 (fixed): 750-1300 keys are rewritten with generations that are expired on arrival while their superseded generations are still on the device, so that recovery's retirement list is longer than one journal chunk (1024 extents); the first-level image is cut where every new generation is durable and no retirement has started, recovery runs traced and is cut after every one of its own fsyncs: each second-level image must reopen (real code and model) to the contents the first recovery reported -- no older generation of a key whose newest one expired may reappear"}


REGISTRY["C04"]["teq"].append(_f1(4))
# the concurrent clauses of C14: stable keys complete, dead keys absent, indexes agree at quiescence
REGISTRY["C14"]["teq"].append({"engine": "scan", "quick": {"n": 8, "ms": 300, "seedoff": 14}, "thorough": {"n": 80, "ms": 800, "seedoff": 14},
                                "oracle": True, "mismatch_is_failure": False, "timeout": 3400,
                                "nontrivial": lambda case, res: "pairs=0" not in case, "distinct_key": lambda case, res: case,
                                "what": "four scanners run range_query at full speed against four writers that replace, delete, re-create, TTL-rewrite and compare-and-swap 2-6 keys (memory-only and persistent, 40 B - 20 KiB values); 4-12 keys that nobody touches sort between and around the churned ones, as do keys deleted before the scans began. Oracle: every scan is strictly ascending, holds every untouched key exactly once, never a key deleted beforehand, every value is one written to its key; at quiescence the ordered index, the hashed index (H4) and a full range query hold the same keys"})
# C11 with the background sweeper running
REGISTRY["C11"]["teq"].append({"engine": "sweep", "quick": {"n": 16, "seedoff": 11}, "thorough": {"n": 64, "seedoff": 11},
                                "oracle": True, "mismatch_is_failure": False, "timeout": 3400,
                                "nontrivial": lambda case, res: "reads=0" not in case, "distinct_key": lambda case, res: case,
                                "what": "stores with the TTL sweeper running every 10-80 ms, and stores with no sweeper at all where only the lazy check of each read enforces expiry (memory-only and persistent, flushed so that values are offloaded, cache on/off): 6-30 keys without TTL, with 1 s and with 3600 s TTLs, some made permanent (persist) or re-timed (update_ttl 1 s / 3600 s) before anything expires; a reader polls for 2.4 s; every answer is judged against the wall clock read before and after the call, with 150 ms either side of the expiry instant left unjudged: visible with the right value before, not found after; then a range scan, and for persistent stores flush, reopen and the same judgement"})
# refused writes (memory limit; memory-only and persistent): next to records still in the write-behind buffer (C01, C13),
# and with explicit timestamps that a failing call must not leave in the clock (C12)
REGISTRY["C01"]["teq"].append(seq({"only": "limited", "n": 10, "ops": 80, "seedoff": 101}, {"only": "limited", "seedoff": 101}))
# round 8 (C01h): range queries with small limits over key sets holding expired, unswept entries are C01 business too
REGISTRY["C01"]["teq"].append(seq({"seedoff": 201, "focus": 1, "n": 6, "ops": 60}, {"focus": 1, "seedoff": 201}))
# round 10 (C11j): "never hidden while unexpired" holds for range queries with small limits too: expired, unswept
# entries in front of live keys must not use up the limit
REGISTRY["C11"]["teq"].append(seq({"seedoff": 1111, "focus": 1, "n": 6, "ops": 60}, {"focus": 1, "seedoff": 1111}))
# round 10 (C13j): the writers' own lazy expiry (increment, insert, CAS, TTL update, patch, delete over an expired, unswept key)
REGISTRY["C13"]["teq"].append(seq({"seedoff": 1313, "expdir": 1, "n": 1, "ops": 40}, {"expdir": 1, "seedoff": 1313}))
REGISTRY["C13"]["teq"].append({"engine": "conc", "quick": {"n": 150, "mode": "hist", "accounting": 1, "seedoff": 13}, "thorough": {"n": 4000, "mode": "hist", "accounting": 1, "seedoff": 13},
                                "oracle": True, "mismatch_is_failure": False, "timeout": 3400,
                                "nontrivial": lambda case, res: res == "lin=1", "distinct_key": lambda case, res: case,
                                "what": "the C07 histories (2-4 threads racing creates, growing and shrinking replacements with 20 B - 8 KB values, deletes, increments, compare-and-swap on shared keys; controlled schedules and free-running) with an oracle at quiescence: memory_usage() must equal the sum over the live records (H4 snapshot) of overhead + key + value, len() the number of live keys"})
REGISTRY["C13"]["teq"].append({"engine": "conc", "quick": {"n": 24, "mode": "mem", "seedoff": 13}, "thorough": {"n": 400, "mode": "mem", "seedoff": 13},
                                "oracle": True, "mismatch_is_failure": False, "timeout": 3400,
                                "nontrivial": lambda case, res: "refused=0" not in case, "distinct_key": lambda case, res: case,
                                "what": "four writers (creators, growers, deleters; slice, Bytes and insert-if-absent spellings) race for 60 ms against a memory limit that admits only some of them while a monitor thread samples memory_usage(): a sample above the limit is the violation; afterwards the accounting must be exact"})
REGISTRY["C12"]["teq"].append(seq({"only": "limited", "autocheck": 1, "n": 6, "ops": 80, "seedoff": 212}, {"only": "limited", "autocheck": 1, "seedoff": 212}))
REGISTRY["C13"]["teq"].append(seq({"only": "limited", "n": 10, "ops": 80, "seedoff": 113}, {"only": "limited", "seedoff": 113}))
REGISTRY["C11"]["teq"].append(_f1(11))
REGISTRY["C13"]["teq"].append({"engine": "sweep", "quick": {"n": 16, "seedoff": 313}, "thorough": {"n": 64, "seedoff": 313},
                                "oracle": True, "mismatch_is_failure": False, "timeout": 3400,
                                "nontrivial": lambda case, res: "reads=0" not in case, "distinct_key": lambda case, res: case,
                                "what": "accounting with the TTL sweeper: stores whose sweeper removes expired keys every 10-80 ms (and stores without one); after the run memory_usage() must equal the sum over the records still indexed of overhead + key + value, and len() their number"})
REGISTRY["C12"]["teq"].append({"engine": "crash", "quick": {"n": 1, "points": 10, "seedoff": 12}, "thorough": {"tier": "thorough", "seedoff": 12},
                                "oracle": True, "mismatch_is_failure": False, "timeout": 3400,
                                "nontrivial": lambda case, res: "plan=" in case and not case.endswith("none") and res.startswith("ok") and "keys=-" not in res,
                                "distinct_key": lambda case, res: res,
                                "what": "the clock after crash recovery: the C02 crash images (several generations of a key on the device in either sector order) reopened by the real code; in the reopening child every clock shard must be at or above every timestamp recovered into it (2^64-1 excepted), so that the next automatic write on any recovered key is newer"})
REGISTRY["C10"]["teq"].append({"engine": "crash", "quick": {"n": 1, "points": 8, "ttl": 1, "seedoff": 310}, "thorough": {"tier": "thorough", "ttl": 1, "seedoff": 310},
                                "oracle": True, "mismatch_is_failure": True, "timeout": 3400,
                                "nontrivial": lambda case, res: "plan=" in case and res.startswith("ok") and "keys=-" not in res,
                                "distinct_key": lambda case, res: res,
                                "what": "counters that end up in the metadata block: crash images of TTL-on workloads (generations expired on arrival next to live ones) reopened by the real code; record count, memory, disk usage (the value flush and Drop copy into Metadata.total_size) and free-space statistics after recovery must equal Model.Recovery.open_image's, and so must the file bytes recovery leaves behind"})
REGISTRY["C05"]["teq"].append({"engine": "crash", "quick": {"n": 1, "points": 12, "seedoff": 5}, "thorough": {"tier": "thorough", "seedoff": 5},
                                "oracle": True, "mismatch_is_failure": False, "timeout": 3400,
                                "nontrivial": lambda case, res: "plan=" in case and not case.endswith("none") and res.startswith("ok") and "keys=-" not in res,
                                "distinct_key": lambda case, res: res,
                                "what": "the partition after recovery: the C02 crash images (several generations of a key on the device in either sector order, expired winners, torn batches, tiny devices filled to their last block) reopened by the real code; in the reopening child the free blocks plus the blocks of the recovered records' extents must be exactly the data area (oracle), and the free-space statistics must equal Model.Recovery.open_image's"})
for _pid in ("C02", "C09"):
    REGISTRY[_pid]["teq"].append({"engine": "gate", "quick": {"n": 8000, "seedoff": 60}, "thorough": {"n": 300000, "seedoff": 60},
                                  "oracle": False, "mismatch_is_failure": True, "timeout": 3400,
                                  "nontrivial": lambda case, res: case.count(" ") >= 4, "distinct_key": lambda case, res: case,
                                  "what": "T-eq for Model.Gate (hook H12): Record::successor_is_durable_or_deleted -- the gate consulted before a superseded generation's extent is retired -- on synthetic forward successor chains of 1-9 generations with every mix of durable, live, deleted and superseded nodes and of memo bits; the answer and the memo bits afterwards must equal Model.Gate.gate"})
REGISTRY["C12"]["teq"].append({"engine": "clocksim", "quick": {"n": 4000, "seedoff": 712}, "thorough": {"n": 150000, "seedoff": 712},
                                "oracle": False, "mismatch_is_failure": False, "timeout": 3400,
                                "nontrivial": lambda case, res: " 0," in case and " 1," in case, "distinct_key": lambda case, res: case,
                                "what": "T-eq for Model.Clock (hook H14): a fresh VersionClock shard started at a chosen value and driven call by call -- next(key, wall) and observe(key, ts) with walls and timestamps below, at and above the shard, around 2^64-1 included; the timestamp issued and the shard value after every call must equal Model.Clock.next_alone / observe_alone (non-trivial = the sequence has both kinds of call)"})
REGISTRY["C16"]["teq"].append({"engine": "cachesched", "quick": {"n": 12, "seedoff": 816}, "thorough": {"n": 600, "seedoff": 816},
                                "oracle": True, "mismatch_is_failure": False, "timeout": 3400,
                                "nontrivial": lambda case, res: ":" in res and (" F" in case), "distinct_key": lambda case, res: case,
                                "what": "T-sched for Model.CacheGen layer B: one persistent store with the cache and TTL on, two keys whose values all have one length; a script of puts, update_ttl calls, deletes, flushes (the harness reads from the live snapshot which current generations were offloaded), full reads, and one reader HELD between its device read and its return (scheduling point c08_unpinned, hook H5) while other calls run, is executed on the real store and as the same event list by Model.CacheGen.brun with the cache on; every read result (which generation's value, or not found), every update_ttl / delete answer and whether the held reader went to the device must agree (non-trivial = a flush happened and a read returned a value)"})
REGISTRY["C16"]["teq"].append({"engine": "cgen", "quick": {"n": 4000, "seedoff": 616}, "thorough": {"n": 120000, "seedoff": 616},
                                "oracle": False, "mismatch_is_failure": False, "timeout": 3400,
                                "nontrivial": lambda case, res: any(t != "-" and int(t) >= 100 for t in res.split()), "distinct_key": lambda case, res: case,
                                "what": "T-eq for Model.CacheGen layer A (hook H13): get_for_record / insert_for_record / remove_for_record / record_entry and can_replace_generation of a real ClockCache over real Records -- random sequences over 1-3 keys and up to 8 generations created with colliding and decreasing timestamps, superseded (refcount 0), dropped, looked up, filled, removed, re-tagged, mixed with the untagged public calls; every result must equal Model.CacheGen.arun (non-trivial = at least one lookup hit)"})
REGISTRY["C03"]["teq"].append({"engine": "recrash", "quick": {"n": 0, "points": 8, "directed_every": 2, "seedoff": 303}, "thorough": {"n": 4, "points": 30, "directed_every": 1, "seedoff": 303},
                                "oracle": True, "mismatch_is_failure": False, "timeout": 3400,
                                "nontrivial": lambda case, res: "level=2" in case and res.startswith("ok") and "keys=-" not in res,
                                "distinct_key": lambda case, res: case.split("plan=")[-1] + res,
                                "what": "crashes INSIDE a TTL-aware recovery: directed workloads (durable never-expiring generations of several keys overwritten by generations that are expired on arrival, among fillers; process killed) are cut before the superseded generations are retired, so that recovery has to retire superseded generations and expired winners; recovery's own device writes are traced (H1) and crash points x subsets x tearing inside it -- between its retirement transactions too -- give second-level images, each reopened by the real code and by Model.Recovery (must agree); oracle: every second-level image reopens to exactly the contents the first recovery reported (an expired newest generation never lets an older one resurface)"})
REGISTRY["C02"]["teq"].append({"engine": "failpath", "quick": {"n": 4, "burst_every": 1, "seedoff": 402}, "thorough": {"n": 40, "burst_every": 1, "seedoff": 402},
                                "oracle": True, "mismatch_is_failure": False, "timeout": 3400,
                                "nontrivial": lambda case, res: "failpath-burst" in case, "distinct_key": lambda case, res: case,
                                "what": "bursts: 9-14 thousand one-block inserts pile up behind the buffer-full trigger, whose background passes span several journal batches and are still running when flush() is called; half of the bursts also fail one journal write once. flush() is repeated until it answers Ok; at that instant every accepted key must be published on the device (oracle on the live snapshot) and readable"})
for _pid, _off in (("C09", 9), ("C05", 5)):
    REGISTRY[_pid]["teq"].append({"engine": "failpath", "quick": {"n": 60, "big_every": 20, "keyfail_every": 10 if _pid == "C09" else 0, "seedoff": 400 + _off}, "thorough": {"n": 2500, "big_every": 25, "keyfail_every": 10 if _pid == "C09" else 0, "seedoff": 400 + _off},
                                  "oracle": True, "mismatch_is_failure": True, "timeout": 3400,
                                  "nontrivial": lambda case, res: "r=io" in res or "r=indet" in res or "r=space" in res, "distinct_key": lambda case, res: case,
                                  "what": "T-eq for Model.FailPath: one shard's write path with the periodic coordinator paused (hook H11) and the pwrite path forced, so that the device calls of every flush() are numbered deterministically; an observer fails the calls named by a random plan (0-30 % of the first 90 calls, before or after the call), on roomy and on nearly full devices; 1-3 rounds of 0-3 inserts of 1-3 blocks and a flush. After every flush the result class (Ok / IoError / IndeterminateWrite / OutOfSpace), the allocator statistics, the disk-usage counter, the published records with their sectors and the number of device calls made must equal Model.FailPath.flush on the same plan. Every 20th case (thorough: 25th) is a pass over several journal transactions (T-eq with Model.FailBatches, hook H16 pausing the buffer-full trigger): 1025-2300 entries of one shard wait in the queue, the flush drains them in one pass of two or three batches, up to three device calls around the batch boundaries fail, flush is repeated; the same observables must equal Model.FailBatches.pflush. Oracle independent of the model: every accepted key stays readable with its bytes whatever failed; a flush that returned Ok left every earlier key published; the shard counters equal the queue lengths (H15). For C09 every 10th case is the several-workers case: the device refuses every write of ONE key's record (a TTL renewal or removal of an offloaded value, or a replacement) while the periodic flusher and the other shards' workers keep running healthy passes over filler traffic; flush() must report the failure, reads return the accepted value, a copy of the device as it stands still recovers a generation of the key, and once the record is accepted again flush() succeeds and a copy of the device recovers the accepted state"})
for _asan in (False, True):
    REGISTRY["C20"]["teq"].append({"engine": "abuf", "quick": {"n": 1500, "seedoff": 20}, "thorough": {"n": 30000, "seedoff": 20}, "asan": _asan,
                                    "oracle": True, "mismatch_is_failure": True, "timeout": 3400,
                                    "nontrivial": lambda case, res: " L" in case and "panic" in res, "distinct_key": lambda case, res: case,
                                    "what": ("under AddressSanitizer: " if _asan else "") + "the public AlignedBuffer driven directly: new(capacity) for odd, tiny, block-multiple and block-multiple +-1 sizes, sequences of set_len (within, equal to and beyond the capacity) and clear, the whole safe slice written and read back after every step; capacity(), len(), refused set_len and the allocation counter compared with Model.AlignedBuf; oracle: the allocator's usable size of the block covers the advertised capacity and the block is 4096-aligned"})
REGISTRY["C14"]["teq"].append({"engine": "scansched", "quick": {"n": 40, "seedoff": 314}, "thorough": {"n": 1500, "seedoff": 314},
                                "oracle": True, "mismatch_is_failure": True, "timeout": 3400,
                                "nontrivial": lambda case, res: case.count(" S") >= 3 and (" D" in case.split(" S", 1)[-1] or " P" in case.split(" S", 1)[-1]) and res != "",
                                "distinct_key": lambda case, res: case,
                                "what": "T-sched for Model.Scan (hook H10): a thread running range_query is parked before lower_bound, at the top of every loop iteration and before every entry.next() while the controlling thread inserts, replaces, deletes and re-creates keys (visible and expired-on-arrival) under and around the cursor; memory-only and persistent stores, TTL on/off, random bounds and limits 0..5 or unbounded. The executed event sequence is replayed by the extracted Model.Scan.wstep and the query's result must equal the model's. Oracle independent of the model: strictly ascending, inside bounds and limit, every value one written to its key, no key absent throughout, every untouched visible key present unless the limit cut the scan"})
REGISTRY["C11"]["teq"].append({"engine": "sweepsched", "quick": {"n": 25, "seedoff": 311}, "thorough": {"n": 600, "seedoff": 311},
                                "oracle": True, "mismatch_is_failure": True, "timeout": 3400,
                                "nontrivial": lambda case, res: " X" in case and "removed=0" not in res, "distinct_key": lambda case, res: case,
                                "what": "T-sched for Model.Sweep (hook H9): the real sweeper thread is parked right after its sample and again between finding a sampled record expired and its guarded removal, while the controlling thread renews (insert with/without TTL, update_ttl, persist), deletes, reads or adds expired-on-arrival keys, mostly on the very key the sweeper is about to handle; then the sweeper is released. The executed event sequence is replayed by the extracted Model.Sweep.sstep: every client result, the final table (ordered and hashed index, value, expiry class), len() and the number of removals by expiry must agree. Oracle independent of the model: what this thread's own calls imply for every read (an unexpired or permanent key is found with its latest value, an expired or deleted one is not)"})
REGISTRY["C17"]["teq"].append({"engine": "mutimg", "quick": {"seedoff": 1717}, "thorough": {"tier": "thorough", "seedoff": 1717}, "ovf": True, "oracle": True,
                                "mismatch_is_failure": False, "timeout": 3000,
                                "nontrivial": lambda case, res: not res.startswith("err invalid-metadata") and not res.startswith("fresh") and not res.startswith("note"),
                                "distinct_key": lambda case, res: res + case.split("mut=")[-1],
                                "what": "the same mutated images opened by a build of /repo with integer-overflow checks on (what an application's debug build does: `-C overflow-checks=on`): arithmetic on values that a damaged file controls -- lengths, counts, sectors, journal generations at the top of their range -- must not panic; the outcome must equal Model.Recovery.open_image as in the release build"})
REGISTRY["C17"]["teq"].append({"engine": "migrate", "quick": {"n": 3, "damage": 9, "seedoff": 1716}, "thorough": {"n": 40, "damage": 9, "seedoff": 1716}, "oracle": True, "mismatch_is_failure": False, "timeout": 3400,
                                "nontrivial": lambda case, res: "marker-across" in case,
                                "distinct_key": lambda case, res: res + case.split("src=")[-1],
                                "what": "the READ-ONLY open again, every source carrying an ACTIVE journal of a crashed batch plus a valid retirement marker in front of a journaled extent that reaches across it (the journal-virtualising scan jumps over a journaled extent without ever standing inside it)"})
REGISTRY["C17"]["teq"].append({"engine": "migrate", "quick": {"n": 4, "seedoff": 1715}, "thorough": {"tier": "thorough", "seedoff": 1715}, "oracle": True, "mismatch_is_failure": False, "timeout": 3400,
                                "nontrivial": lambda case, res: "+" in case.split("src=")[-1],
                                "distinct_key": lambda case, res: res + case.split("src=")[-1],
                                "what": "the READ-ONLY open (what migrate() does to its source, any version): sources damaged by the C17 mutators, ambiguous tombstones, planted stale generations, pending-batch journals -- a third of those with a valid retirement marker in front of a journaled extent that reaches across it, so that the journal-virtualising scan jumps over a journaled extent -- are migrated by the real code in a child (panic, abort, hang = failure) and by Model.Migration.migrate_spec"})
REGISTRY["C04"]["teq"].append({"engine": "mutimg", "quick": {"twice": 1, "bases": 2, "mutants": 12, "seedoff": 404}, "thorough": {"tier": "thorough", "twice": 1, "seedoff": 404}, "oracle": True,
                                "mismatch_is_failure": False, "timeout": 3000,
                                "nontrivial": lambda case, res: case.startswith("note reopen-twice"),
                                "distinct_key": lambda case, res: case.split("mut=")[-1],
                                "what": "idempotence on damaged and unusual files: the C17 mutants (among them a planted older generation that spans two blocks and carries a well-formed record image in its continuation block, above the newest generation of its key) are opened by the real code; every open that succeeds is followed by a second open of the file as the first one left it (TTL off) and both must report the same keys; the first open is also compared with Model.Recovery.open_image"})
REGISTRY["C07"]["teq"].append({"engine": "race", "quick": {"n": 0, "shards": 6, "seedoff": 707}, "thorough": {"n": 0, "shards": 6, "seedoff": 707}, "oracle": True, "mismatch_is_failure": True, "timeout": 3400,
                                "nontrivial": lambda case, res: "parked-explicit-timestamp-writer" in case and "refused" in case,
                                "distinct_key": lambda case, res: case,
                                "what": "directed, last-writer-wins across the stale-extent fallback: an increment, a compare-and-swap and a JSON patch with an explicit timestamp T on a key whose generation lives only on the device are parked (hook point c08_before_pin) after their optimistic read and before they pin the extent; another writer installs a generation stamped above T and a flush makes it durable and retires the old extent; released, the call falls over to the newer generation and must be refused or have no effect -- the key's timestamp never goes backwards (the other directed cases of the race engine run too)"})
REGISTRY["C14"]["teq"].append({"engine": "sweepsched", "quick": {"n": 25, "seedoff": 1411}, "thorough": {"n": 600, "seedoff": 1411},
                                "oracle": True, "mismatch_is_failure": True, "timeout": 3400,
                                "nontrivial": lambda case, res: " X" in case and "removed=0" not in res, "distinct_key": lambda case, res: case,
                                "what": "the two indexes under the sweeper (hook H9, T-sched for Model.Sweep as under C11): the real sweeper thread is parked after its sample and before its guarded removal while the controlling thread renews, replaces, deletes or re-creates the very key it is about to handle; at quiescence the ordered and the hashed index must hold the same keys and a range query over everything must return exactly the keys a read finds"})
REGISTRY["C16"]["teq"].append({"engine": "sweep", "quick": {"n": 16, "cache": 1, "seedoff": 16}, "thorough": {"n": 64, "cache": 1, "seedoff": 16},
                                "oracle": True, "mismatch_is_failure": False, "timeout": 3400,
                                "nontrivial": lambda case, res: "reads=0" not in case and "persistent=1" in case, "distinct_key": lambda case, res: case,
                                "what": "the cache must not mask expiry: persistent stores with the read cache on, values offloaded by a flush and read (hence cached) while alive, with and without the sweeper; once the expiry instant has passed (150 ms margin) get / get_bytes / range must not find the key, exactly as with the cache off; then reopen"})
REGISTRY["C13"]["teq"].append({"engine": "crash", "quick": {"n": 1, "points": 12, "seedoff": 13}, "thorough": {"tier": "thorough", "seedoff": 13},
                                "oracle": True, "mismatch_is_failure": False, "timeout": 3400,
                                "nontrivial": lambda case, res: "plan=" in case and not case.endswith("none") and res.startswith("ok") and "keys=-" not in res,
                                "distinct_key": lambda case, res: res,
                                "what": "accounting after recovery: the C02 crash images (several on-disk generations of a key with different value lengths, replacement durable but retirement not, expired winners, torn batches) reopened by the real code; memory_usage() must equal the sum over the recovered records of overhead + key + value and len() their number (oracle in the child), and must equal Model.Recovery.open_image's counters"})


def load_oracle_fails(outdir, limit=20):
    fails = []
    n = 0
    for p in sorted(glob.glob(os.path.join(outdir, "oracle.*.txt"))):
        with open(p) as f:
            for line in f:
                n += 1
                if len(fails) < limit:
                    cid, _, why = line.rstrip("\n").partition(" ")
                    fails.append({"id": cid, "why": why})
    return n, fails


def find_case(outdir, cid):
    shard = cid.rsplit("-", 1)[0]
    res = {}
    for kind in ("cases", "impl", "model"):
        p = os.path.join(outdir, "%s.%s.txt" % (kind, shard))
        if not os.path.exists(p):
            continue
        with open(p) as f:
            for line in f:
                if line.startswith(cid + " "):
                    res["case" if kind == "cases" else kind] = line.rstrip("\n").partition(" ")[2]
                    break
    return res


def finding_matches(pid, text):
    for kf in vlib.known_findings():
        if kf.get("property") != pid or kf.get("status") == "fixed":
            continue
        if kf.get("match") and kf["match"] in text:
            return kf
    return None


def run_property(pid, eng, tier, seed, t0):
    violations = []   # (replay_path, suffix)
    known = []
    notes = []
    # ---------------- 1. build: constants, Coq, audit, runner, harness ----------------
    proof_problems = []
    with vlib.BuildLock():
        rc, out = vlib.gen_constants(pid)
        if rc != 0:
            proof_problems.append({"what": "T-gen: constants / sites could not be regenerated from the source", "log": out[-2000:]})
        ok, mk = vlib.coq_make_property(pid)
        if not ok:
            proof_problems.append({"what": "Coq build failed (a proof obligation no longer checks against the regenerated constants/model)",
                                   "log": mk[-3000:]})
        audit = vlib.coq_audit()
        if audit:
            proof_problems.append({"what": "forbidden declaration in the development", "log": "\n".join(audit)})
        rok, rout = vlib.build_runner()
        hok, hout = vlib.build_harness()
        aok, aout = True, ""
        ook, oout = True, ""
        if any(t.get("asan") for t in eng["teq"]):
            aok, aout = vlib.build_harness_asan()
        if any(t.get("ovf") for t in eng["teq"]):
            ook, oout = vlib.build_harness_ovf()
    prop = vlib.coq_property(pid)
    if not prop["ok"]:
        proof_problems.append({"what": "Properties/%s.v does not check or depends on a non-allow-listed axiom" % pid,
                               "log": prop["log"][-3000:], "bad_axioms": prop["bad_axioms"]})
    if not rok:
        proof_problems.append({"what": "modelrun (extraction) did not build", "log": rout[-3000:]})
    if not hok:
        # the harness does not compile against the working tree: correspondence cannot run
        proof_problems.append({"what": "harness does not build against /repo's working tree", "log": hout[-3000:]})
    if not aok:
        proof_problems.append({"what": "AddressSanitizer build of the harness failed", "log": aout[-3000:]})
    if not ook:
        proof_problems.append({"what": "overflow-checked build of the harness failed", "log": oout[-3000:]})

    # ---------------- 2. correspondence ----------------
    total_cases = 0
    distinct = 0
    samples = []
    teq_reports = []
    corr_broken = []
    concrete = []
    if rok and hok:
        for t in eng["teq"]:
            outdir = os.path.join(vlib.BUILD, "cases", pid, "%s-%d" % (t["engine"], eng["teq"].index(t)))
            args = dict(t.get(tier, t.get("quick", {})))
            args["seed"] = seed + int(args.pop("seedoff", 0))
            t1 = time.time()
            if t.get("asan") and not aok:
                continue
            if t.get("ovf") and not ook:
                continue
            try:
                rc, so, se = vlib.run_harness(t["engine"], outdir, args, timeout=t.get("timeout", 3000), asan=bool(t.get("asan")), ovf=bool(t.get("ovf")))
            except subprocess.TimeoutExpired:
                rc, so, se = 124, "", "harness timed out"
            if t.get("expect_asan_report"):
                # self-test: a deliberate out-of-bounds read must be reported, otherwise the
                # instrumentation is not active and the other sanitizer runs mean nothing
                if "AddressSanitizer" not in se:
                    corr_broken.append({"what": "AddressSanitizer self-test: a deliberate heap overflow was not reported (rc=%d)" % rc, "log": se[-1500:]})
                else:
                    teq_reports.append({"engine": t["engine"], "what": t["what"], "cases": 1, "mismatches": 0, "oracle_failures": 0,
                                        "undecided_skipped": 0, "wall_s": round(time.time() - t1, 1), "distribution": {"asan_report_seen": 1}})
                continue
            if rc != 0 and t.get("asan") and "AddressSanitizer" in se:
                i = se.find("AddressSanitizer")
                concrete.append({"engine": t["engine"], "kind": "implementation violates the property on this input",
                                 "why": "FAIL address-sanitizer-report " + " ".join(se[i:i + 160].split()),
                                 "case": "%s %s" % (t["engine"], " ".join("%s=%s" % kv for kv in args.items())),
                                 "report": se[max(0, i - 200):i + 6000]})
                continue
            if rc != 0:
                corr_broken.append({"what": "harness engine %s failed (rc=%d)" % (t["engine"], rc), "log": se[-3000:]})
                continue
            if not vlib.run_model(outdir):
                corr_broken.append({"what": "modelrun failed on engine %s" % t["engine"]})
                continue
            cmp_ = vlib.compare(outdir, nontrivial=t.get("nontrivial"), distinct_key=t.get("distinct_key"))
            nfail, fails = load_oracle_fails(outdir) if t.get("oracle") else (0, [])
            total_cases += cmp_["total"]
            distinct += cmp_["distinct"]
            samples += cmp_["samples"]
            extra = {}
            statp = os.path.join(outdir, "stats.json")
            if os.path.exists(statp):
                try:
                    extra = json.load(open(statp))
                except Exception:
                    extra = {}
            if not cmp_["nmismatch"] and not nfail:
                import shutil
                shutil.rmtree(os.path.join(outdir, "images"), ignore_errors=True)
            teq_reports.append({"engine": t["engine"], "what": t["what"], "cases": cmp_["total"],
                                "mismatches": cmp_["nmismatch"], "oracle_failures": nfail, "undecided_skipped": cmp_.get("undecided", 0),
                                "wall_s": round(time.time() - t1, 1), "distribution": extra})
            # concrete failing inputs
            for f in fails:
                c = find_case(outdir, f["id"])
                concrete.append({"engine": t["engine"], "kind": "implementation violates the property on this input",
                                 "why": f["why"], **c})
            for m in cmp_["mismatches"]:
                rec = {"engine": t["engine"], "case": m["case"], "impl": m["impl"], "model": m["model"]}
                if t.get("mismatch_is_failure"):
                    rec["kind"] = "implementation differs from the proven reference on an observable the property constrains"
                    concrete.append(rec)
                else:
                    rec["kind"] = "correspondence model<->implementation broken"
                    corr_broken.append(rec)
    # ---------------- 3. decide ----------------
    def report(kind, payload, concrete_input):
        text = json.dumps(payload)
        kf = finding_matches(pid, text)
        if kf is not None:
            known.append(kf)
            return
        name = "%s-%s-%d" % (tier, kind, len(violations))
        path = vlib.write_replay(pid, name, {"property": pid, "kind": kind, "seed": seed, "tier": tier, **payload})
        violations.append((path, "" if concrete_input else " no-failing-input-found"))

    if concrete:
        # group: one violation per distinct 'why'/engine, first case as the replay
        seen = set()
        for c in concrete:
            why = c.get("why", c["kind"])
            key = (c["engine"], " ".join(why.replace(":", " ").split()[:2]))
            if key in seen:
                continue
            seen.add(key)
            report("failing-input", {"failing_input": c,
                                     "replay_cmd": "./check replay <this file>"}, True)
    elif corr_broken or proof_problems:
        report("unproven", {"no_longer_checks": {"proof": proof_problems, "correspondence": corr_broken[:5]},
                            "searched": [r["what"] for r in teq_reports],
                            "note": "the search over the implementation found no input on which the property fails"}, False)
    if concrete and proof_problems:
        notes.append("proof problems as well: %s" % [p["what"] for p in proof_problems])

    # ---------------- 4. evidence ----------------
    coverage = {
        "obligations": prop["obligations"],
        "discharged": prop["discharged"] if not proof_problems else 0,
        "checker_cmd": "make -C coq (coqc 8.16.1, full .vo build) ; coqc -Q coq Feox coq/Properties/%s.v (Print Assumptions parsed)" % pid,
        "trusted_base": vlib.TRUSTED_BASE_COMMON + eng.get("assumptions", []),
        "theorems": prop["theorems"],
        "evaluations": total_cases,
        "distinct_nontrivial": distinct,
        "rule": eng.get("nontrivial_rule", ""),
        "samples": samples[:5] if samples else [{"note": "no correspondence case ran"}],
        "traces_validated_against_impl": total_cases,
        "correspondence": teq_reports,
        "proof_problems": [p["what"] for p in proof_problems],
        "known_findings_hit": [k.get("id") for k in known],
        "notes": notes,
    }
    if tier == "thorough" and os.environ.get("VERIF_COQCHK", "1") == "1" and prop["ok"]:
        rc, out = vlib.sh("timeout 1500 coqchk -silent -o -Q . Feox Feox.Properties.%s 2>&1 | tail -40" % pid, cwd=vlib.COQ, timeout=1600)
        coverage["coqchk"] = out[-3000:]
    vlib.write_evidence(pid, tier, seed, coverage, time.time() - t0, len(violations), eng.get("assumptions", []))
    seen_known = set()
    for k in known:
        if k.get("id") in seen_known:
            continue
        seen_known.add(k.get("id"))
        print("KNOWN-FINDING: property=%s %s" % (pid, k.get("what", k.get("id"))))
    for path, suffix in violations:
        print("VIOLATION property=%s replay=%s%s" % (pid, path, suffix))
    if not violations:
        print("OK property=%s tier=%s cases=%d obligations=%d discharged=%d wall=%.1fs" % (
            pid, tier, total_cases, coverage["obligations"], coverage["discharged"], time.time() - t0))
    return 1 if violations else 0


def replay(path):
    with open(path) as f:
        obj = json.load(f)
    fi = obj.get("failing_input")
    if not fi or "case" not in fi and "cases" not in fi:
        print("replay file names what no longer checks (no concrete input):")
        print(json.dumps(obj.get("no_longer_checks", obj), indent=1)[:4000])
        return 1
    case = fi.get("case") or fi.get("cases")
    with vlib.BuildLock():
        vlib.build_runner()
        vlib.build_harness()
    p = subprocess.run([vlib.MODELRUN], input=("replay " + case + "\n").encode(), stdout=subprocess.PIPE)
    model = p.stdout.decode().rstrip("\n").partition(" ")[2]
    p = subprocess.run([vlib.HARNESS, "replay", "case=" + case], stdout=subprocess.PIPE, env=vlib.ENV)
    impl = p.stdout.decode().rstrip("\n")
    print("case : " + case[:2000])
    print("model: " + model[:2000])
    print("impl : " + impl[:2000])
    same = model == impl.partition(" | ")[0]
    print("agree" if same else "DISAGREE")
    return 0 if same else 1
