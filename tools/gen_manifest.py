#!/usr/bin/env python3
"""Regenerates MANIFEST.json from the table below (kept in one place so it stays valid)."""
import json
import os

HERE = os.path.dirname(os.path.dirname(os.path.abspath(__file__)))
ALL = ["C%02d" % i for i in range(1, 21)]

TRUST = ("Trusted: Coq 8.16.1 kernel; extraction (ExtrOcamlBasic only) + OCaml driver; Rust harness, comparison "
         "and generators; the hooks compiled with --cfg feoxdb_verif. The model is hand-written; its agreement with "
         "the code is checked by execution on every run, not proved. Theorems are closed under the global context "
         "(no axioms) unless the evidence lists an allow-listed standard-library axiom.")

CHECKS = {
    "C06": {
        "text": "Full functional correctness of the allocator model (every call sequence, every size, every range) proved in Coq: invariant on all reachable states, allocate/release sound and complete, rejected calls change nothing, no double allocation, canonical (fully merged) run list whose totals equal the true free set. The model is tied to free_space.rs on every run by differential execution (exhaustive short sequences, every free set x every call, random long sequences) plus a direct property oracle on the implementation's answers.",
        "note": TRUST + " BTreeMap is assumed to behave as a sorted unique map.",
        "design": "DESIGN.md section 5 C06",
    },
    "C01": {
        "text": "The reference last-writer-wins map (Model.Lww, one page) is compared call by call with the real store in 16 configurations (memory-only/persistent x cache x TTL x v1/v2/v3) with flush and reopen at random positions: every return value, memory_usage(), len() and the full (key, timestamp, expiry, length) state after every call. About the reference map Coq proves, for all states/keys/values/timestamps: a write or delete takes effect iff its timestamp is greater than the current one, reads return the latest accepted value, an error leaves the contents unchanged, bindings stay canonical along every sequence. The reference is tier-free, so agreement of the persistent/cached/recovered runs is what shows tier independence of the implementation.",
        "note": TRUST + " Not proved: a tiered model of the store (resident/cached/offloaded) refining the map -- tier independence is established by execution only.",
        "design": "DESIGN.md section 5 C01",
    },
    "C11": {
        "text": "Coq, sequential clause, over the reference map for all states and clock windows: after the expiry instant no value-reading call (get, CAS, update_ttl, range) returns the value; before it (or without expiry) the value is returned and no call other than a delete of that key removes it; recovery keeps every unexpired key; a TTL-only update keeps the value. Coq, concurrent clause, over Model/Sweep.v (the sweeper's sample / guarded removal and the lazy retirement of read-modify-write calls, racing with writers that renew, replace or delete the key, under a clock that only grows), for every schedule: the current generation of a key nobody writes stays in the table for as long as it is unexpired; every removal by expiry took out the key's current generation, expired at the wall clock of the removal; generation identities only move forward and a key removed by expiry stays absent until written again; a read never returns an expired generation. Ties: the whole-sequence correspondence of C01 in TTL-on configurations with expiries placed before/after the wall clock, including flush+reopen; T-sched for the sweeper and for lazy retirement (hook H9: the real sweeper thread parked after its sample and before each guarded removal, and an atomic_increment parked between seeing its counter expired and retire_expired_if_current, while the key is renewed, deleted or read) replayed by the extracted model; real-time runs with and without the sweeper judged against the wall clock; absolute expiry surviving restart bit for bit is C10's codec round trip plus the whole-file check. Recovery at the byte level (Model/Recovery.v): after the scan has kept the newest generation of every key, the expiry pass over the whole index leaves a key exposed exactly when its newest generation on the device has not expired; a key whose newest generation has expired is absent although older generations of it are on the device.",
        "note": TRUST + " Not decided here: the 1 ns clock boundary (real-time runs leave 150 ms either side of the expiry instant unjudged); the lazy-retirement tie parks atomic_increment only (the one caller of retire_expired_if_current); crash points inside recovery and older-generation resurrection over crashes are C04's machinery (finding F1, fixed).",
        "design": "DESIGN.md section 5 C11",
    },
    "C12": {
        "text": "Coq: an issued automatic timestamp exceeds everything its shard has seen unless saturated; hence (for not-KnownClass histories: shard above the key's timestamp and not saturated) automatic insert/delete/CAS/patch are never answered Older; a failing explicit timestamp is not absorbed; and the unrestricted statement is refuted by a witness (known finding F2). Tie: every call of the C01 sequences reports the clock shard value, which the reference map checks against the clock rules (strictly above the previous value, within the wall-clock window, observe=max, recovered timestamps covered after reopen); an implementation-side oracle flags any automatically timestamped call answered OlderTimestamp on a key the application did not pin at the maximum; a second stream uses 2^64-2 / 2^64-1 and replays F2. Under any interleaving: Coq over Model/Clock.v (one VersionClock shard; every load and weak compare-exchange of next and observe is a step, any number of threads, any schedule): the shard never decreases; a timestamp handed out is at least the wall clock given and exceeds every timestamp handed out earlier and every timestamp whose observe had returned earlier, unless it is 2^64-1; observed (recovered, explicit) timestamps stay covered; run alone the two calls are exactly the reference map's clock rules; tied by T-eq through hook H14 (a fresh shard driven call by call).",
        "note": TRUST + " Known finding F2 is listed in known_findings.json (class near-max-accepted).",
        "design": "DESIGN.md section 5 C12",
    },
    "C13": {
        "text": "Coq (sequential clause, all call sequences): after every call and after recovery memory_usage = sum over live keys of (R + |key| + |value|) and one binding per key (so len = number of live keys); with a limit no call pushes usage above it; a refused write changes neither contents nor the counter. Tie: memory_usage() and len() compared after every call of the C01 sequences, including configurations under a limit that admits only some writes (memory-only and persistent) and after reopen. Concurrent clause: proved over Model/MemLimit.v (the compare-exchange loop of reserve_memory, commits, drops, releases) that for any number of threads and any interleaving the counter never exceeds the limit and equals what the threads account for; tied by races of creators, growers and deleters against a limit with a sampling monitor, and by an exact-accounting oracle at quiescence over the C07 histories.",
        "note": TRUST + " The link between the store's call paths and the reservation protocol (each path reserves its growth before publishing and releases after) is checked by the quiescent accounting oracle, not proved; relaxed atomics are modelled as sequentially consistent steps on one counter.",
        "design": "DESIGN.md section 5 C13",
    },
    "C14": {
        "text": "Coq, sequential clause: for every sorted binding list, bounds and limit the query returns exactly the first `limit` live (present, unexpired) bindings inside the inclusive bounds in ascending byte order (skipped entries do not consume the limit; start > end and limit 0 give the empty list), each with the key's current value. Coq, concurrent clauses, over Model/Scan.v (the scan as its sequence of skip-list calls and slot loads; writers replacing records in a node's slot, linking new nodes, unlinking nodes; any schedule): the result is strictly ascending, inside the bounds and the limit; every returned value was written to its key; a key that stays linked, untouched and visible from before the scan's first step is returned with its value unless the limit cut the scan; a key absent throughout (never written or deleted beforehand) is not returned. Ties: range queries with empty/extreme/inverted bounds, prefixes and limits inside every C01 sequence in all configurations, plus a stream with small limits over key sets holding expired entries; T-sched for the scan (hook H10: a range_query thread parked before lower_bound, at every loop top and before every next() while keys under and around the cursor are inserted, replaced, deleted and re-created) replayed by the extracted model, result equal; scanners at full speed against writers with an oracle (strictly ascending, every untouched key exactly once, no key deleted beforehand, genuine values, ordered = hashed index at quiescence).",
        "note": TRUST + " Assumed for the concurrent clauses: crossbeam SkipMap lower_bound / Entry::next are linearizable (least linked key >= start / > the entry's key at some instant of the call) and an unlinked node's slot keeps its last record; the T-sched tie checks this model against the real skip list on every run. Writers' calls are atomic in this model; their internal interleavings are C07's subject.",
        "design": "DESIGN.md section 5 C14",
    },
    "C02": {
        "text": "Coq, over the abstract device + two-slot journal protocol (Model/Device.v), for every protocol history, every state and every crash image (any sub-multiset of the un-synced writes, each possibly torn): the device reopens and its contents are those of some quiescent state at or after the last acknowledgement (ack_durable); within a transaction the outcome is all-or-nothing (crash_atomic); new-record batches and retirement of superseded generations are admissible transactions. Also proved over Model/Gate.v (Record::successor_is_durable_or_deleted, the gate consulted before the extent of a superseded generation is retired, with its memo bits): a positive answer means the generation was deleted outright or its successor chain reaches a generation that is on the device or ends in a deleted one -- the newest durable generation of a key is never the one retired; the gate refuses only when the chain ends in a live generation that is not on the device; memo bits stay sound under publication, deletion and supersession; tied by T-eq on synthetic chains (hook H12). Tie: the real device history of traced workloads must be accepted by the extracted Coq monitor (journal discipline), crash images rebuilt from the trace are reopened by the real code and by the byte-level recovery model (must agree), and an oracle checks every real reopen against the per-key acknowledgement window. Found and repaired with it: F3 (split retired extent loses an acknowledged key) and F4 (unsynced initial metadata).",
        "note": TRUST + " The abstract device treats an extent as one cell; scan alignment at block level is checked by execution only. Assumptions A1-A3 (checksum detection, sector atomicity, fsync contract) are hypotheses of the model.",
        "design": "DESIGN.md sections 4 and 5 C02",
    },
    "C03": {
        "text": "Coq: in every reachable protocol state every crash image reopens (recover never fails), no torn cell is ever seen by the scan, and the contents are exactly those before or after the transaction in flight (crash_atomic); the invariant holds along every history; admissibility of record batches and retirements. Tie as C02, with hostile values containing byte-exact markers and record heads with valid tokens; the oracle additionally requires that every exposed key carries a generation the application stored under that key and that len equals the number of exposed keys. At the byte level (Model/Recovery.v): a data area holding any number of generations of each key in any order, completed marker runs and free blocks is scanned without error to exactly the newest-wins fold over the records in device order; every key exposed carries one generation that is on the device and is at least as new as every generation of that key on the device.",
        "note": TRUST + " As C02.",
        "design": "DESIGN.md sections 4 and 5 C03",
    },
    "C04": {
        "text": "Coq, over the abstract device: from any disk on which recovery selects an active journal, every crash image of the replay's marker writes and of its final journal clear recovers to the same seen cells as the first recovery, the completed repair too (idempotent, restartable at any point, nested), and the repair writes only cells that are markers in the recovered view (touches no live record); post-scan retirement of losers is an admissible transaction, so by crash_atomic a crash inside it changes no key. Tie: second-level crash images cut inside the real recovery's own traced writes must reopen (real code and model) to the contents of the first recovery.",
        "note": TRUST + " Finding F1 (a retirement call with more than 1024 coalesced extents can resurrect an older generation) is outside what this engine generates; see DESIGN section 8.",
        "design": "DESIGN.md section 5 C04",
    },
    "C05": {
        "text": "Coq: an ownership ledger over the proven allocator (C06) keeps, along every sequence of acquisitions and give-backs, the exact partition free xor owned-by-exactly-one-extent of the data area; give-backs of owned extents are always accepted (no leak); with nothing owned the manager is exactly the fresh one. The link from the write path to that ledger is proved over Model/FailPath.v: through allocation, refused allocation, failed batches, scrubs, quarantine and publication, for every choice of failing device calls, every block is free exactly when no reservation (clean, dirty or quarantined) and no published record covers it, none is covered twice, and the disk-usage counter equals the covered blocks. Tie: the T-eq of that model against the real write path under planned failures (allocator statistics, usage counter and sectors after every flush); at every quiescent point of real workloads an oracle checks disjointness, complement, usage/record counters and persisted counters on the live store, the byte-level recovery model must rebuild the same state (incl. free-space statistics) from the file, and an emptied device must be a single free run that accepts a fresh device's fill.",
        "note": TRUST + " The write-path model covers one shard's inserts and the deletes of published records (their extents stay owned in the retirement queue until given back: ownership_partition_with_deletes); replacements and expiry reach the ledger through the quiescent-point oracle and the recovery correspondence, not through a theorem.",
        "design": "DESIGN.md section 5 C05",
    },
    "C09": {
        "category": "proof",
        "text": "PARTIAL proof. Proved in Coq (abstract device): at every protocol state -- hence at the state where a device call fails -- every crash image and the device as it stands recover to the contents before or after the transaction in flight and never to anything older than the last acknowledgement; a failed write-before or fsync changes no crash image; whatever part of a journaled batch reached the device is contained in the journaled extents (so it can be scrubbed, and is wiped by replay). Also proved: the scrub of a failed batch whose intent is durable (journal ACTIVE again in the other slot, markers, clear) is restartable at every point and recovers, from the failure to its end, exactly the cells the batch found. Also proved, over Model/FailPath.v (the failure-handling code itself: process_write_batch, failed_batch_outcome, cleanup_failed_allocations, release_scrubbed_allocations, release_allocations, quarantine, poison, on top of the real allocator model), for every choice of failing device calls and every sequence of inserts and flushes: a flush answers Ok only when the device is not poisoned and every queued entry has been published; no entry is ever lost (all published or all still queued, in order); a poisoned device never answers Ok again; a quarantined reservation stays with its entry; extents that may hold bytes of a failed batch are never free unless scrubbed. Tie: T-eq of that model against the real write path with the coordinator paused (hook H11), calls failed by plan, comparing result class, allocator statistics, usage counter, published sectors and the number of device calls after every flush. The model also carries deletes of published records and their retirement (journal, markers, clear, one release per group of adjacent extents; a failed retirement poisons the device) and the reclaim-and-retry of a pass the allocator refused, with the same theorems (flush_with_deletes_is_honest). The clause that a failure never destroys the last durable generation of a key rests, for retirements of superseded generations, on the retirement gate proved over Model/Gate.v (see C02). NOT proved: error propagation across several workers/shards, the io_uring completion path (its IndeterminateWrite outcomes), retirements gated by readers or undurable successors, healing. Those are decided by execution: fault injection at every device call (before/after), pairs, persistent and healing failures on the real store with the Coq monitor accepting each faulted history and an oracle for acknowledgement windows, reads during failure, no hang/death, and flush success after healing. Over Model/FailBatches.v (the pass cut into batches of the journal's entry limit, stopping at the first failing batch and requeueing the rest): for any queue length and any fault oracle flush answers Ok only when nothing is left and the device is not poisoned, and every queued entry is afterwards published or still queued, none lost and none counted twice.",
        "note": TRUST + " Fault model A4 (fail-stop; failed fsync = writes stay un-synced). io_uring-path faults are not injected.",
        "design": "DESIGN.md section 5 C09",
    },
    "C10": {
        "text": "Codec theorems in Coq over a byte-level model written from the documented layout: little-endian round trips, CRC-32C chaining and table=bitwise definition (finite check lifted), parse.serialize round trip for v1 and v2/v3 record heads (whole extent and head block), value offset, token range/non-zero/idempotent self-verifying stamp, retirement-marker round trip and marker/record/zero disjointness. Tie on every run: (i) every pure format function vs the Coq codec through hook H3, (ii) whole files after flush() decoded by the model as an independent reader must equal the live contents with clear journal and exact counters, (iii) a golden corpus of v1/v2/v3 files from the pinned release must be decoded by the model to their manifests, be read back by the working tree, and keep their format when written to. Codec and recovery are linked by a theorem: one iteration of the byte-level scan loop at the head of an extent image produced by the write path's encoder (serialize, pad, stamp; v1-v3) accepts it, advances exactly over it and indexes exactly the record's key, timestamp, expiry, value length and sector; newest-timestamp-wins holds at the step (an older generation is queued for retirement, a newer one replaces the entry); completed marker runs and zero blocks are stepped over; and any quiescent data area (records with pairwise distinct keys, completed marker runs, free blocks in any order) is scanned without error to exactly those records, with nothing queued for retirement and a free-space manager that holds exactly the blocks no record covers; the metadata block round-trips through its encoder and decoder (checksum and complement included), and open_image on a whole file with such a metadata block, a clear journal and a quiescent data area opens it, leaves it unchanged and reports exactly the records and the partition.",
        "note": TRUST + " Not proved: the whole-file bridge (decode of an encoded abstract disk) -- it is checked by execution (ii, iii).",
        "design": "DESIGN.md section 5 C10",
    },
    "C07": {
        "text": "Coq over Model/Sched.v, a step-by-step rendering of the per-key protocol (optimistic read, local computation, re-validation and swap under the entry guard, retirement-timestamp checks, retry loops) for get, insert, delete, compare-and-swap, increment, insert-if-absent and JSON patch: for every number of threads, every program and every schedule the commits in response order form a legal sequential last-writer-wins history ending in the final contents, each thread receives exactly its commits' responses, the only deviations are flagged refusals (OlderTimestamp / no-swap) that change nothing; consequences proved on the witness: no increment is lost, one insert-if-absent wins, an accepted write never lands on an equal or newer timestamp. Ties: (i) the same programs under the same schedule on the real store, threads parked at the H7 scheduling points, must give the model's responses and final contents; (ii) real histories from controlled and free-running threads are judged by the extracted checker lin_check, proved sound in Coq.",
        "note": TRUST + " Both permitted deviations are proved justified in the model: an OlderTimestamp refusal is preceded by an accepted delete of the same key with an equal or newer timestamp, and a flagged compare-and-swap refusal happens only when the key's modification counter (one unit per accepted, logged insert/replace/delete of the key) moved between the call's read and its response; on real histories the same rule is applied by lin_check. Atomicity of the segments between H7 points and exclusiveness of scc entry guards are assumptions of the model; interleavings inside a segment are exercised only by the free-running histories.",
        "design": "DESIGN.md section 5 C07",
    },
    "C08": {
        "text": "Coq over Model/Extent.v (the extent pin / retire protocol: acquire_extent CAS, pread, release + identity check; retired bit, reader checks before the marker write and before the release, reuse by another key), for any number of readers and every interleaving: while a reader is pinned the blocks hold the generation's own record and no step changes them (pinned_not_overwritten), every completed read returned exactly that record or StaleExtent, never a marker or another key's bytes, and the retired bit admits no new reader. Tie: on real stores under racing readers, writers, deleters, TTL rewrites and flushes with immediate block reuse, the global trace of pin/unpin events and device writes must be accepted by the extracted monitor (no write into a pinned extent), and an oracle checks every returned value for authenticity and recency.",
        "note": TRUST + " The model is of one extent and takes the sequential composition acquire -> load sector -> pread -> release from the code; the value_source chain of deferred TTL rewrites is exercised by the runs, not modelled separately. Recency is decided by the run-time oracle, not by a theorem.",
        "design": "DESIGN.md section 5 C08",
    },
    "C19": {
        "category": "proof",
        "text": "PARTIAL proof. Proved in Coq over Model/WriteBehind.v for every shard count S, every worker count W >= 1 and every interleaving of writers, coordinator ticks and worker passes: each shard is owned by exactly one worker (its residue class, as flush_worker_shards strides); at every tick the coordinator wakes the owner of every non-empty shard and worker 0 whenever retirements are pending; a worker's pass empties all its shards; hence an entry queued in any shard is gone once its owner has run, whatever else happens -- nothing can be overlooked indefinitely. Over Model/Backlog.v (the counters the coordinator reads; a pass is drain ... finish with any subset sent back): in every reachable state a shard's counter equals the length of its queue, so a tick wakes the owner of every shard with a backlog; every accepted entry is written, queued and counted, or in its owner's hands; this invariant is checked on the real store through hook H15 under the shard's lock while the lag, crash and failure-path workloads run. Not provable in this model: that a woken worker is scheduled and its I/O returns within the stated time. Tie: real stores built with 1..8 shards (CPU visibility 1..16), workloads that never flush, killed 3-3.5 s after the last call: the image made of fsync-covered writes only must contain every accepted write and, when idle, no un-retired superseded generation.",
        "note": TRUST + " The time bound itself (flush interval + I/O) is measured, not proved; the theorem is the liveness skeleton: ownership partition + coordinator coverage + pass completeness.",
        "design": "DESIGN.md section 5 C19",
    },
    "C20": {
        "category": "proof",
        "text": "PARTIAL. Proved in Coq over Model/InFlight.v (io.rs InFlightBuffers): for every order of pushes, submissions, submission failures, completions and the final drop, a buffer the kernel may still read from is never freed, and only buffers marked in flight are kept alive; tied to the code by driving the real type with drop-tracking tokens (hook H8). The rest of the property -- use-after-free, double free, out-of-bounds access anywhere in the crate's unsafe code, under races with expiry, eviction, flushes, failed writes and shutdown -- cannot be expressed by an executable Gallina model of compiled Rust; it is exercised by re-running the concurrency (C07), race (C08), sequence (C01), fault (C09) and damaged-file (C17) engines under AddressSanitizer, with a self-test showing the instrumentation is live. A sanitizer report is a concrete violation; the absence of one is evidence for the executions explored, not a proof. FeoxAllocator: Gen/AllocSites.v is regenerated from src/utils/allocator.rs on every run (tools/gen_alloc.py) and it is proved for every size that a block is released by the path that produced it, with the same Layout alignment and exactly the mapped length, the mapping covering the request in whole pages.",
        "note": TRUST + " Memory safety of the epoch-managed ordered index (TreeSlot), AlignedBuffer and the scc/crossbeam dependencies is NOT proved; AddressSanitizer does not instrument the prebuilt standard library. Miri was not used (io_uring and threads with real files are outside what it supports).",
        "design": "DESIGN.md section 5 C20",
    },
    "C18": {
        "category": "proof",
        "text": "PARTIAL. Proved in Coq: the 'acquired while held' relation of the store's locks (retirement flush/pending mutexes, metadata, device, free-space RwLocks, shard buffers, cache eviction, thread handles), regenerated from the source text on every run, respects a rank; and for any relation that respects a rank no set of threads acquiring locks along it can be stuck on each other (no lock-order deadlock). A change that nests two of these locks the other way round breaks the obligation. Not provable with this technique: real termination (scheduler, channels, condition variables, bounded retry loops against a live device, the sweeper's stop). That part is decided by execution under watchdogs: contention scenarios (concurrent flushers, full device, failing device, sweeper, shutdown with work pending) and the C07 controller parking threads inside every optimistic window.",
        "note": TRUST + " The lock relation comes from a syntactic analysis (tools/gen_locks.py); scc/crossbeam internals are outside it. Absence of a hang in the explored runs is evidence, not proof.",
        "design": "DESIGN.md section 5 C18",
    },
    "C15": {
        "text": "Coq: the read-only recovery used for the migration source writes nothing for any image and outcome (source untouched); a successful migration spec means no destination existed, the source is v1/v2 with a successful read-only recovery, and the destination record list is exactly the recovered keys with identical timestamps and absolute expiries (TTL filtering off, so expired newest generations are copied and no older value can reappear). Tie: the real migrate() on engine-built and damaged legacy images vs migrate_spec of the source image (outcome, report, destination contents read back by the real store), with an oracle for non-destructiveness (source hash, no publication or temporary on failure, existing destination untouched, v3 result).",
        "note": TRUST + " Filesystem operations (hard_link publication, rollback, directory sync) are observed, not modelled; record-by-record verification inside migrate() is covered only through its outcome.",
        "design": "DESIGN.md section 5 C15",
    },
    "C16": {
        "text": "Coq over Model/Cache.v (bucketed CLOCK cache with murmur3 bucket choice): after every operation of every sequence the reported memory equals the total size of the held entries and there is at most one entry per key; an explicit remove is never followed by a hit; eviction reaches the low watermark; if evicting every unreferenced entry would reach the low watermark, every referenced entry survives evict_entries. Coq over Model/CacheGen.v (the generation-tagged cache calls and the store's read / write / update_ttl paths around them, as atomic steps under an arbitrary schedule of readers, writers, offloads, record drops and evictions): a tagged entry always holds the value of the generation it is tagged with, so a hit serves exactly the generation asked for and every read result is a value of a generation of the key; refinement: the results, table and generations of any run with the cache on are those of the same machine without a cache under the same schedule (only device-staleness answers the cached run never asked for are chosen), and with no refused device reads -- every sequential execution -- the two runs are equal step for step. Ties: the public ClockCache API vs Model.Cache on random sequences with evictions plus an oracle; the tagged calls of a real ClockCache over real Records vs Model.CacheGen through hook H13 (T-eq); end to end, the C01 call sequences in all 12 persistent configurations, cache on and off, must equal the same reference map with offloaded and cached values.",
        "note": TRUST + " The store-level layer of Model.CacheGen is tied step for step on scripted schedules with one held reader (engine cachesched); free-running reader/writer interleavings of the real store are sampled by the race engine (C08), not enumerated.",
        "design": "DESIGN.md section 5 C16",
    },
    "C17": {
        "text": "Totality/no-panic/termination of a byte-level model of open+recovery proved in Coq for every image and configuration (fuel never exhausted, every scan step strictly advances, parse_record never slices out of range), plus: rejected-for-size-or-metadata leaves the image untouched, unrecognised files are rejected unmodified. The model is tied to the code on every run: thousands of mutated/forged images are opened by the real code (child process, watchdog) and by the extracted model and must agree on outcome, error kind, contents, values, free-space stats and the file bytes after the open; an implementation-side oracle flags panics, hangs, aborts and modification on rejection directly.",
        "note": TRUST + " 'A store that opens answers every call' is observed by a probe workload, not proved.",
        "design": "DESIGN.md section 5 C17",
    },
}

REASON_PENDING = "no check is claimed for this property at this commit"


def main():
    checks = []
    for pid in ALL:
        if pid not in CHECKS:
            continue
        c = CHECKS[pid]
        checks.append({
            "property_id": pid,
            "quick_cmd": "./check %s quick" % pid,
            "thorough_cmd": "./check %s thorough" % pid,
            "evidence_file": "evidence/%s.json" % pid,
            "replay_cmd_template": "./check replay {path}",
            "engine": "coq+modelrun+harness",
            "level_claimed": {"category": c.get("category", "proof"), "text": c["text"], "design_ref": c["design"]},
            "level_note": c["note"],
            "technique": c.get("technique", "Coq proof over a hand-written executable model + differential correspondence check against the Rust implementation"),
        })
    hooks = []
    try:
        import subprocess
        out = subprocess.run(["git", "-C", "/repo", "log", "--format=%H %s"], stdout=subprocess.PIPE).stdout.decode()
        hooks = [l.split()[0] for l in out.splitlines() if "verif hook" in l]
    except Exception:
        pass
    man = {
        "version": 1,
        "setup_cmd": "./check setup",
        "hooks": {
            "guard": "feoxdb_verif",
            "enable": "RUSTFLAGS=\"--cfg feoxdb_verif\" (set by tools/vlib.py for every harness build; the harness crate depends on /repo by path)",
            "baseline_off_cmd": "cd /repo && cargo test --workspace --no-fail-fast --offline",
            "source_commits": hooks,
            "add_only": True,
        },
        "engines": [
            {"name": "coq", "path": "coq", "serves_properties": sorted(CHECKS), "kind_free_text": "Coq 8.16 development: executable model (Model/), lemmas (Proofs/), property theorems (Properties/), constants regenerated from /repo (Gen/)"},
            {"name": "modelrun", "path": "runner", "serves_properties": sorted(CHECKS), "kind_free_text": "extracted OCaml model + driver, evaluates the model on the harness's cases"},
            {"name": "harness", "path": "harness", "serves_properties": sorted(CHECKS), "kind_free_text": "Rust crate linked against /repo's working tree: case generators, implementation runs, property oracles"},
        ],
        "checks": checks,
        "not_applicable": [{"property_id": p, "reason": REASON_PENDING} for p in ALL if p not in CHECKS],
    }
    with open(os.path.join(HERE, "MANIFEST.json"), "w") as f:
        json.dump(man, f, indent=1)
    print("MANIFEST.json: %d checks, %d not claimed" % (len(checks), len(man["not_applicable"])))
    # schema validation (the tooling venv has jsonschema)
    try:
        import subprocess
        r = subprocess.run(["python3-vt", "-c", "import json,jsonschema;jsonschema.validate(json.load(open('/verif/MANIFEST.json')),json.load(open('/root/.vp/MANIFEST.schema.json')))"],
                           stdout=subprocess.PIPE, stderr=subprocess.PIPE)
        print("schema: %s" % ("valid" if r.returncode == 0 else "INVALID\n" + r.stderr.decode()[-600:]))
    except Exception as e:
        print("schema: not checked (%s)" % e)


if __name__ == "__main__":
    main()
