#!/usr/bin/env python3
"""Regenerates MANIFEST.json from the table below (kept in one place so it stays valid)."""
import json
import os

HERE = os.path.dirname(os.path.dirname(os.path.abspath(__file__)))
ALL = ["C%02d" % i for i in range(1, 21)]

TRUST = ("Trusted: Coq 8.16.1 kernel; extraction (ExtrOcamlBasic only) + OCaml driver; Rust harness, comparison "
         "and generators; the hooks compiled with --cfg feoxdb_verif. The model is hand-written; its agreement with "
         "the code is checked by execution on every run, not proved. Theorems are closed under the global context "
         "(no axioms) unless the evidence lists an allow-listed standard-library axiom.")

CHECKS = {
    "C06": {
        "text": "Full functional correctness of the allocator model (every call sequence, every size, every range) proved in Coq: invariant on all reachable states, allocate/release sound and complete, rejected calls change nothing, no double allocation, canonical (fully merged) run list whose totals equal the true free set. The model is tied to free_space.rs on every run by differential execution (exhaustive short sequences, every free set x every call, random long sequences) plus a direct property oracle on the implementation's answers.",
        "note": TRUST + " BTreeMap is assumed to behave as a sorted unique map.",
        "design": "DESIGN.md section 5 C06",
    },
    "C10": {
        "text": "Codec theorems in Coq over a byte-level model written from the documented layout: little-endian round trips, CRC-32C chaining and table=bitwise definition (finite check lifted), parse.serialize round trip for v1 and v2/v3 record heads (whole extent and head block), value offset, token range/non-zero/idempotent self-verifying stamp, retirement-marker round trip and marker/record/zero disjointness. Tie on every run: (i) every pure format function vs the Coq codec through hook H3, (ii) whole files after flush() decoded by the model as an independent reader must equal the live contents with clear journal and exact counters, (iii) a golden corpus of v1/v2/v3 files from the pinned release must be decoded by the model to their manifests, be read back by the working tree, and keep their format when written to.",
        "note": TRUST + " Not proved: the whole-file bridge (decode of an encoded abstract disk) -- it is checked by execution (ii, iii).",
        "design": "DESIGN.md section 5 C10",
    },
    "C17": {
        "text": "Totality/no-panic/termination of a byte-level model of open+recovery proved in Coq for every image and configuration (fuel never exhausted, every scan step strictly advances, parse_record never slices out of range), plus: rejected-for-size-or-metadata leaves the image untouched, unrecognised files are rejected unmodified. The model is tied to the code on every run: thousands of mutated/forged images are opened by the real code (child process, watchdog) and by the extracted model and must agree on outcome, error kind, contents, values, free-space stats and the file bytes after the open; an implementation-side oracle flags panics, hangs, aborts and modification on rejection directly.",
        "note": TRUST + " 'A store that opens answers every call' is observed by a probe workload, not proved.",
        "design": "DESIGN.md section 5 C17",
    },
}

REASON_PENDING = "not yet built in this round (see DESIGN.md section 9 build order); no check is claimed"


def main():
    checks = []
    for pid in ALL:
        if pid not in CHECKS:
            continue
        c = CHECKS[pid]
        checks.append({
            "property_id": pid,
            "quick_cmd": "./check %s quick" % pid,
            "thorough_cmd": "./check %s thorough" % pid,
            "evidence_file": "evidence/%s.json" % pid,
            "replay_cmd_template": "./check replay {path}",
            "engine": "coq+modelrun+harness",
            "level_claimed": {"category": c.get("category", "proof"), "text": c["text"], "design_ref": c["design"]},
            "level_note": c["note"],
            "technique": c.get("technique", "Coq proof over a hand-written executable model + differential correspondence check against the Rust implementation"),
        })
    hooks = []
    try:
        import subprocess
        out = subprocess.run(["git", "-C", "/repo", "log", "--format=%H %s"], stdout=subprocess.PIPE).stdout.decode()
        hooks = [l.split()[0] for l in out.splitlines() if "verif hook" in l]
    except Exception:
        pass
    man = {
        "version": 1,
        "setup_cmd": "./check setup",
        "hooks": {
            "guard": "feoxdb_verif",
            "enable": "RUSTFLAGS=\"--cfg feoxdb_verif\" (set by tools/vlib.py for every harness build; the harness crate depends on /repo by path)",
            "baseline_off_cmd": "cd /repo && cargo test --workspace --no-fail-fast --offline",
            "source_commits": hooks,
            "add_only": True,
        },
        "engines": [
            {"name": "coq", "path": "coq", "serves_properties": sorted(CHECKS), "kind_free_text": "Coq 8.16 development: executable model (Model/), lemmas (Proofs/), property theorems (Properties/), constants regenerated from /repo (Gen/)"},
            {"name": "modelrun", "path": "runner", "serves_properties": sorted(CHECKS), "kind_free_text": "extracted OCaml model + driver, evaluates the model on the harness's cases"},
            {"name": "harness", "path": "harness", "serves_properties": sorted(CHECKS), "kind_free_text": "Rust crate linked against /repo's working tree: case generators, implementation runs, property oracles"},
        ],
        "checks": checks,
        "not_applicable": [{"property_id": p, "reason": REASON_PENDING} for p in ALL if p not in CHECKS],
    }
    with open(os.path.join(HERE, "MANIFEST.json"), "w") as f:
        json.dump(man, f, indent=1)
    print("MANIFEST.json: %d checks, %d not claimed" % (len(checks), len(man["not_applicable"])))


if __name__ == "__main__":
    main()
