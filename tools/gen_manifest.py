#!/usr/bin/env python3
"""Regenerates MANIFEST.json from the table below (kept in one place so it stays valid)."""
import json
import os

HERE = os.path.dirname(os.path.dirname(os.path.abspath(__file__)))
ALL = ["C%02d" % i for i in range(1, 21)]

TRUST = ("Trusted: Coq 8.16.1 kernel; extraction (ExtrOcamlBasic only) + OCaml driver; Rust harness, comparison "
         "and generators; the hooks compiled with --cfg feoxdb_verif. The model is hand-written; its agreement with "
         "the code is checked by execution on every run, not proved. Theorems are closed under the global context "
         "(no axioms) unless the evidence lists an allow-listed standard-library axiom.")

CHECKS = {
    "C06": {
        "text": "Full functional correctness of the allocator model (every call sequence, every size, every range) proved in Coq: invariant on all reachable states, allocate/release sound and complete, rejected calls change nothing, no double allocation, canonical (fully merged) run list whose totals equal the true free set. The model is tied to free_space.rs on every run by differential execution (exhaustive short sequences, every free set x every call, random long sequences) plus a direct property oracle on the implementation's answers.",
        "note": TRUST + " BTreeMap is assumed to behave as a sorted unique map.",
        "design": "DESIGN.md section 5 C06",
    },
    "C01": {
        "text": "The reference last-writer-wins map (Model.Lww, one page) is compared call by call with the real store in 16 configurations (memory-only/persistent x cache x TTL x v1/v2/v3) with flush and reopen at random positions: every return value, memory_usage(), len() and the full (key, timestamp, expiry, length) state after every call. About the reference map Coq proves, for all states/keys/values/timestamps: a write or delete takes effect iff its timestamp is greater than the current one, reads return the latest accepted value, an error leaves the contents unchanged, bindings stay canonical along every sequence. The reference is tier-free, so agreement of the persistent/cached/recovered runs is what shows tier independence of the implementation.",
        "note": TRUST + " Not proved: a tiered model of the store (resident/cached/offloaded) refining the map -- tier independence is established by execution only.",
        "design": "DESIGN.md section 5 C01",
    },
    "C11": {
        "text": "Coq, sequential clause, over the reference map for all states and clock windows: after the expiry instant no value-reading call (get, CAS, update_ttl, range) returns the value; before it (or without expiry) the value is returned and no call other than a delete of that key removes it; recovery keeps every unexpired key; a TTL-only update keeps the value. Coq, concurrent clause, over Model/Sweep.v (the sweeper's sample / guarded removal and the lazy retirement of read-modify-write calls, racing with writers that renew, replace or delete the key, under a clock that only grows), for every schedule: the current generation of a key nobody writes stays in the table for as long as it is unexpired; every removal by expiry took out the key's current generation, expired at the wall clock of the removal; generation identities only move forward and a key removed by expiry stays absent until written again; a read never returns an expired generation. Ties: the whole-sequence correspondence of C01 in TTL-on configurations with expiries placed before/after the wall clock, including flush+reopen; T-sched for the sweeper (hook H9: the real sweeper thread parked after its sample and before each guarded removal while the key is renewed, deleted or read) replayed by the extracted model; real-time runs with and without the sweeper judged against the wall clock; absolute expiry surviving restart bit for bit is C10's codec round trip plus the whole-file check.",
        "note": TRUST + " Not decided here: the 1 ns clock boundary (real-time runs leave 150 ms either side of the expiry instant unjudged); the lazy-retirement steps are proved in the model but parked only at the sweeper's points, their code path is exercised sequentially (C01 sequences) and by the C07 histories; crash points inside recovery and older-generation resurrection over crashes are C04's machinery (finding F1, fixed).",
        "design": "DESIGN.md section 5 C11",
    },
    "C12": {
        "text": "Coq: an issued automatic timestamp exceeds everything its shard has seen unless saturated; hence (for not-KnownClass histories: shard above the key's timestamp and not saturated) automatic insert/delete/CAS/patch are never answered Older; a failing explicit timestamp is not absorbed; and the unrestricted statement is refuted by a witness (known finding F2). Tie: every call of the C01 sequences reports the clock shard value, which the reference map checks against the clock rules (strictly above the previous value, within the wall-clock window, observe=max, recovered timestamps covered after reopen); an implementation-side oracle flags any automatically timestamped call answered OlderTimestamp on a key the application did not pin at the maximum; a second stream uses 2^64-2 / 2^64-1 and replays F2.",
        "note": TRUST + " Known finding F2 is listed in known_findings.json (class near-max-accepted).",
        "design": "DESIGN.md section 5 C12",
    },
    "C13": {
        "text": "Coq (sequential clause, all call sequences): after every call and after recovery memory_usage = sum over live keys of (R + |key| + |value|) and one binding per key (so len = number of live keys); with a limit no call pushes usage above it; a refused write changes neither contents nor the counter. Tie: memory_usage() and len() compared after every call of the C01 sequences, including configurations under a limit that admits only some writes (memory-only and persistent) and after reopen. Concurrent clause: proved over Model/MemLimit.v (the compare-exchange loop of reserve_memory, commits, drops, releases) that for any number of threads and any interleaving the counter never exceeds the limit and equals what the threads account for; tied by races of creators, growers and deleters against a limit with a sampling monitor, and by an exact-accounting oracle at quiescence over the C07 histories.",
        "note": TRUST + " The link between the store's call paths and the reservation protocol (each path reserves its growth before publishing and releases after) is checked by the quiescent accounting oracle, not proved; relaxed atomics are modelled as sequentially consistent steps on one counter.",
        "design": "DESIGN.md section 5 C13",
    },
    "C14": {
        "text": "Coq, sequential clause: for every sorted binding list, bounds and limit the query returns exactly the first `limit` live (present, unexpired) bindings inside the inclusive bounds in ascending byte order (skipped entries do not consume the limit; start > end and limit 0 give the empty list), each with the key's current value. Coq, concurrent clauses, over Model/Scan.v (the scan as its sequence of skip-list calls and slot loads; writers replacing records in a node's slot, linking new nodes, unlinking nodes; any schedule): the result is strictly ascending, inside the bounds and the limit; every returned value was written to its key; a key that stays linked, untouched and visible from before the scan's first step is returned with its value unless the limit cut the scan; a key absent throughout (never written or deleted beforehand) is not returned. Ties: range queries with empty/extreme/inverted bounds, prefixes and limits inside every C01 sequence in all configurations, plus a stream with small limits over key sets holding expired entries; T-sched for the scan (hook H10: a range_query thread parked before lower_bound, at every loop top and before every next() while keys under and around the cursor are inserted, replaced, deleted and re-created) replayed by the extracted model, result equal; scanners at full speed against writers with an oracle (strictly ascending, every untouched key exactly once, no key deleted beforehand, genuine values, ordered = hashed index at quiescence).",
        "note": TRUST + " Assumed for the concurrent clauses: crossbeam SkipMap lower_bound / Entry::next are linearizable (least linked key >= start / > the entry's key at some instant of the call) and an unlinked node's slot keeps its last record; the T-sched tie checks this model against the real skip list on every run. Writers' calls are atomic in this model; their internal interleavings are C07's subject.",
        "design": "DESIGN.md section 5 C14",
    },
    "C15": {
        "text": "Coq: the read-only recovery used for the migration source writes nothing for any image and outcome (source untouched); a successful migration spec means no destination existed, the source is v1/v2 with a successful read-only recovery, and the destination record list is exactly the recovered keys with identical timestamps and absolute expiries (TTL filtering off, so expired newest generations are copied and no older value can reappear). Tie: the real migrate() on engine-built and damaged legacy images vs migrate_spec of the source image (outcome, report, destination contents read back by the real store), with an oracle for non-destructiveness (source hash, no publication or temporary on failure, existing destination untouched, v3 result).",
        "note": TRUST + " Filesystem operations (hard_link publication, rollback, directory sync) are observed, not modelled; record-by-record verification inside migrate() is covered only through its outcome.",
        "design": "DESIGN.md section 5 C15",
    },
    "C16": {
        "text": "Coq over Model/Cache.v (bucketed CLOCK cache with murmur3 bucket choice): after every operation of every sequence the reported memory equals the total size of the held entries and there is at most one entry per key; an explicit remove is never followed by a hit. Tie: the public ClockCache API vs the model on random sequences with evictions (every hit/miss, memory_usage, eviction count, watermarks after each call) plus an implementation-side oracle (no hit after remove, usage at or below the low watermark after eviction, zero after clear). Transparency (results identical with the cache on and off; entries served only for the exact generation) is decided by execution: the C01 call sequences in all 12 persistent configurations, cache on and off, must equal the same reference map with offloaded and cached values.",
        "note": TRUST + " Eviction reaching the low watermark is proved (two CLOCK passes suffice); not proved: that referenced entries are spared when unreferenced ones suffice, and transparency -- both only by execution; concurrent reader/writer interleavings are not explored by this check.",
        "design": "DESIGN.md section 5 C16",
    },
    "C17": {
        "text": "Totality/no-panic/termination of a byte-level model of open+recovery proved in Coq for every image and configuration (fuel never exhausted, every scan step strictly advances, parse_record never slices out of range), plus: rejected-for-size-or-metadata leaves the image untouched, unrecognised files are rejected unmodified. The model is tied to the code on every run: thousands of mutated/forged images are opened by the real code (child process, watchdog) and by the extracted model and must agree on outcome, error kind, contents, values, free-space stats and the file bytes after the open; an implementation-side oracle flags panics, hangs, aborts and modification on rejection directly.",
        "note": TRUST + " 'A store that opens answers every call' is observed by a probe workload, not proved.",
        "design": "DESIGN.md section 5 C17",
    },
}

REASON_PENDING = "no check is claimed for this property at this commit"


def main():
    checks = []
    for pid in ALL:
        if pid not in CHECKS:
            continue
        c = CHECKS[pid]
        checks.append({
            "property_id": pid,
            "quick_cmd": "./check %s quick" % pid,
            "thorough_cmd": "./check %s thorough" % pid,
            "evidence_file": "evidence/%s.json" % pid,
            "replay_cmd_template": "./check replay {path}",
            "engine": "coq+modelrun+harness",
            "level_claimed": {"category": c.get("category", "proof"), "text": c["text"], "design_ref": c["design"]},
            "level_note": c["note"],
            "technique": c.get("technique", "Coq proof over a hand-written executable model + differential correspondence check against the Rust implementation"),
        })
    hooks = []
    try:
        import subprocess
        out = subprocess.run(["git", "-C", "/repo", "log", "--format=%H %s"], stdout=subprocess.PIPE).stdout.decode()
        hooks = [l.split()[0] for l in out.splitlines() if "verif hook" in l]
    except Exception:
        pass
    man = {
        "version": 1,
        "setup_cmd": "./check setup",
        "hooks": {
            "guard": "feoxdb_verif",
            "enable": "RUSTFLAGS=\"--cfg feoxdb_verif\" (set by tools/vlib.py for every harness build; the harness crate depends on /repo by path)",
            "baseline_off_cmd": "cd /repo && cargo test --workspace --no-fail-fast --offline",
            "source_commits": hooks,
            "add_only": True,
        },
        "engines": [
            {"name": "coq", "path": "coq", "serves_properties": sorted(CHECKS), "kind_free_text": "Coq 8.16 development: executable model (Model/), lemmas (Proofs/), property theorems (Properties/), constants regenerated from /repo (Gen/)"},
            {"name": "modelrun", "path": "runner", "serves_properties": sorted(CHECKS), "kind_free_text": "extracted OCaml model + driver, evaluates the model on the harness's cases"},
            {"name": "harness", "path": "harness", "serves_properties": sorted(CHECKS), "kind_free_text": "Rust crate linked against /repo's working tree: case generators, implementation runs, property oracles"},
        ],
        "checks": checks,
        "not_applicable": [{"property_id": p, "reason": REASON_PENDING} for p in ALL if p not in CHECKS],
    }
    with open(os.path.join(HERE, "MANIFEST.json"), "w") as f:
        json.dump(man, f, indent=1)
    print("MANIFEST.json: %d checks, %d not claimed" % (len(checks), len(man["not_applicable"])))
    # schema validation (the tooling venv has jsonschema)
    try:
        import subprocess
        r = subprocess.run(["python3-vt", "-c", "import json,jsonschema;jsonschema.validate(json.load(open('/verif/MANIFEST.json')),json.load(open('/root/.vp/MANIFEST.schema.json')))"],
                           stdout=subprocess.PIPE, stderr=subprocess.PIPE)
        print("schema: %s" % ("valid" if r.returncode == 0 else "INVALID\n" + r.stderr.decode()[-600:]))
    except Exception as e:
        print("schema: not checked (%s)" % e)


if __name__ == "__main__":
    main()
