"""Shared machinery for /verif/check: build steps, Coq audit, T-eq comparison, evidence."""
import fcntl
import glob
import hashlib
import json
import os
import re
import shutil
import subprocess
import sys
import time

VERIF = os.path.dirname(os.path.dirname(os.path.abspath(__file__)))
REPO = os.environ.get("VERIF_REPO", "/repo")
BUILD = os.path.join(VERIF, ".build")
COQ = os.path.join(VERIF, "coq")
TARGET = os.path.join(BUILD, "target")
MODELRUN = os.path.join(BUILD, "runner", "modelrun")
HARNESS = os.path.join(TARGET, "release", "feox-verif-harness")
GUARD = "feoxdb_verif"
NCPU = os.cpu_count() or 4

ENV = dict(os.environ)
ENV["CARGO_NET_OFFLINE"] = "true"
ENV["CARGO_TARGET_DIR"] = TARGET
ENV["RUSTFLAGS"] = (os.environ.get("VERIF_EXTRA_RUSTFLAGS", "") + " --cfg " + GUARD).strip()
ENV["VERIF_BUILD"] = BUILD


def log(msg):
    sys.stderr.write("[check] %s\n" % msg)
    sys.stderr.flush()


class BuildLock:
    """Serialises build steps when several checks run at once."""

    def __enter__(self):
        os.makedirs(BUILD, exist_ok=True)
        self.f = open(os.path.join(BUILD, "lock"), "w")
        fcntl.flock(self.f, fcntl.LOCK_EX)
        return self

    def __exit__(self, *a):
        fcntl.flock(self.f, fcntl.LOCK_UN)
        self.f.close()


def sh(cmd, timeout=1800, cwd=VERIF, env=None, check=False):
    p = subprocess.run(cmd, shell=isinstance(cmd, str), cwd=cwd, env=env or ENV,
                       stdout=subprocess.PIPE, stderr=subprocess.STDOUT, timeout=timeout)
    out = p.stdout.decode("utf-8", "replace")
    if check and p.returncode != 0:
        raise RuntimeError("command failed (%d): %s\n%s" % (p.returncode, cmd, out[-4000:]))
    return p.returncode, out


# ----------------------------------------------------------------------------------------
# Coq side
# ----------------------------------------------------------------------------------------

FORBIDDEN = re.compile(
    r"\b(Admitted|admit|Axiom|Axioms|Parameter|Parameters|Conjecture|Conjectures|Admit Obligations|"
    r"bypass_check|type-in-type|impredicative-set)\b|Unset\s+(Guard|Positivity|Universe)\s+Checking")

# Standard-library axioms a proof may depend on (each must be named in DESIGN.md trusted base).
ALLOWED_AXIOMS = {
    # none needed so far; entries are added here only together with DESIGN.md section 7
}


def strip_coq_comments(src):
    out = []
    depth = 0
    i = 0
    n = len(src)
    while i < n:
        if src.startswith("(*", i):
            depth += 1
            i += 2
        elif src.startswith("*)", i) and depth > 0:
            depth -= 1
            i += 2
        else:
            if depth == 0:
                out.append(src[i])
            i += 1
    return "".join(out)


def coq_audit():
    """grep the whole development for forbidden declarations (outside comments)."""
    bad = []
    for path in sorted(glob.glob(os.path.join(COQ, "**", "*.v"), recursive=True)):
        with open(path) as f:
            src = strip_coq_comments(f.read())
        for ln, line in enumerate(src.split("\n"), 1):
            m = FORBIDDEN.search(line)
            if m:
                bad.append("%s:%d: %s" % (os.path.relpath(path, VERIF), ln, m.group(0)))
        # Variable/Hypothesis outside a section
        depth = 0
        for ln, line in enumerate(src.split("\n"), 1):
            if re.match(r"\s*Section\s+\w+", line):
                depth += 1
            elif re.match(r"\s*End\s+\w+", line) and depth > 0:
                depth -= 1
            elif depth == 0 and re.match(r"\s*(Variable|Variables|Hypothesis|Hypotheses|Context)\b", line):
                bad.append("%s:%d: %s outside section" % (os.path.relpath(path, VERIF), ln, line.strip()))
    return bad


# generated files that only some properties' theorems depend on: a source change that makes one of
# them unreadable, or breaks a theorem over it, must not raise an alarm for unrelated properties
SITE_GENERATORS = {"gen_locks.py": ("C18",), "gen_alloc.py": ("C20",)}


def gen_constants(pid=None):
    """Regenerate coq/Gen/*.v from /repo.  Constants.v always; LockSites.v / AllocSites.v for the
    properties proved over them (pid=None: all, used by setup)."""
    rc, out = sh([sys.executable, os.path.join(VERIF, "tools", "gen_constants.py")])
    for script, pids in SITE_GENERATORS.items():
        if pid is None or pid in pids:
            rc2, out2 = sh([sys.executable, os.path.join(VERIF, "tools", script)])
            rc = rc or rc2
            out += out2
    return rc, out


def coq_make_property(pid, timeout=3000):
    """Build what the check of `pid` rests on: every model (the extraction needs them) and
    Properties/<pid>.vo with its own dependencies -- not the theorems of other properties."""
    if not os.path.exists(os.path.join(COQ, "Makefile")) or \
            os.path.getmtime(os.path.join(COQ, "Makefile")) < os.path.getmtime(os.path.join(COQ, "_CoqProject")):
        sh("coq_makefile -f _CoqProject -o Makefile", cwd=COQ)
    models = " ".join("Model/" + os.path.basename(p) + "o" for p in sorted(glob.glob(os.path.join(COQ, "Model", "*.v"))))
    rc, out = sh("timeout %d make -j%d %s Properties/%s.vo 2>&1" % (timeout, NCPU, models, pid), cwd=COQ, timeout=timeout + 30)
    return rc == 0, out


def coq_make(timeout=3000):
    """Full .vo build of the development (incremental). Returns (ok, log)."""
    if not os.path.exists(os.path.join(COQ, "Makefile")) or \
            os.path.getmtime(os.path.join(COQ, "Makefile")) < os.path.getmtime(os.path.join(COQ, "_CoqProject")):
        sh("coq_makefile -f _CoqProject -o Makefile", cwd=COQ)
    rc, out = sh("timeout %d make -j%d 2>&1" % (timeout, NCPU), cwd=COQ, timeout=timeout + 30)
    return rc == 0, out


def coq_make_target(vo, timeout=3000):
    rc, out = sh("timeout %d make -j%d %s 2>&1" % (timeout, NCPU, vo), cwd=COQ, timeout=timeout + 30)
    return rc == 0, out


def coq_property(pid):
    """Re-check Properties/<pid>.v by itself and parse pinned statements + Print Assumptions.

    Returns dict(ok, obligations, discharged, theorems=[{name, assumptions}], log)."""
    path = os.path.join(COQ, "Properties", pid + ".v")
    res = {"ok": False, "obligations": 0, "discharged": 0, "theorems": [], "log": "", "bad_axioms": []}
    if not os.path.exists(path):
        res["log"] = "missing " + path
        return res
    with open(path) as f:
        src = strip_coq_comments(f.read())
    theorems = re.findall(r"^\s*Theorem\s+(\w+)", src, re.M)
    pinned = re.findall(r"^\s*Check\s+(\w+)\s*:", src, re.M)
    printed = re.findall(r"^\s*Print Assumptions\s+(\w+)", src, re.M)
    res["obligations"] = len(theorems)
    missing = [t for t in theorems if t not in pinned or t not in printed]
    if missing:
        res["log"] = "theorems without pinned Check/Print Assumptions: %s" % missing
        return res
    out_vo = os.path.join(BUILD, "propcheck", pid + ".vo")
    os.makedirs(os.path.dirname(out_vo), exist_ok=True)
    rc, out = sh("timeout 1200 coqc -q -Q . Feox -o %s Properties/%s.v 2>&1" % (out_vo, pid), cwd=COQ, timeout=1300)
    res["log"] = out[-6000:]
    if rc != 0:
        return res
    # parse Print Assumptions blocks: either "Closed under the global context" or "Axioms:\n name : ..."
    blocks = re.split(r"(?=Closed under the global context|Axioms:)", out)
    assumptions = []
    for b in blocks:
        if b.startswith("Closed under the global context"):
            assumptions.append([])
        elif b.startswith("Axioms:"):
            names = re.findall(r"^([A-Za-z_][\w.']*)\s*:", b[len("Axioms:"):], re.M)
            assumptions.append(names)
    if len(assumptions) != len(printed):
        res["log"] += "\nPrint Assumptions blocks=%d expected=%d" % (len(assumptions), len(printed))
        return res
    ok = True
    for name, ax in zip(printed, assumptions):
        bad = [a for a in ax if a.split(".")[-1] not in ALLOWED_AXIOMS and a not in ALLOWED_AXIOMS]
        if bad:
            ok = False
            res["bad_axioms"].append({"theorem": name, "axioms": bad})
        res["theorems"].append({"name": name, "assumptions": ax or "closed under the global context"})
    res["discharged"] = len(theorems) if ok else 0
    res["ok"] = ok
    return res


def build_runner():
    """(Re)build modelrun when the model, extraction or driver changed."""
    h = hashlib.sha256()
    files = sorted(glob.glob(os.path.join(COQ, "Model", "*.v")) + glob.glob(os.path.join(COQ, "Gen", "*.v")) +
                   [os.path.join(COQ, "Extract", "Extract.v"), os.path.join(VERIF, "runner", "driver.ml"),
                    os.path.join(VERIF, "runner", "build.sh")])
    for p in files:
        with open(p, "rb") as f:
            h.update(p.encode() + b"\0" + f.read())
    stamp = os.path.join(BUILD, "runner", "stamp")
    digest = h.hexdigest()
    if os.path.exists(MODELRUN) and os.path.exists(stamp) and open(stamp).read() == digest:
        return True, "up to date"
    rc, out = sh(os.path.join(VERIF, "runner", "build.sh"), timeout=1200)
    if rc == 0:
        with open(stamp, "w") as f:
            f.write(digest)
    return rc == 0, out


def build_harness():
    hdir = os.path.join(VERIF, "harness")
    lock_src = os.path.join(REPO, "Cargo.lock")
    lock_dst = os.path.join(hdir, "Cargo.lock")
    try:
        if os.path.exists(lock_src) and not os.path.exists(lock_dst):
            shutil.copy(lock_src, lock_dst)
    except OSError:
        pass
    rc, out = sh("cargo build --release --offline 2>&1", cwd=hdir, timeout=1800)
    return rc == 0, out


# ----------------------------------------------------------------------------------------
# T-eq: run harness, run modelrun over every shard, compare
# ----------------------------------------------------------------------------------------

TARGET_ASAN = os.path.join(BUILD, "target-asan")
HARNESS_ASAN = os.path.join(TARGET_ASAN, "x86_64-unknown-linux-gnu", "release", "feox-verif-harness")


def build_harness_asan():
    """the same harness and /repo, instrumented with AddressSanitizer (nightly toolchain, offline)"""
    hdir = os.path.join(VERIF, "harness")
    env = dict(ENV)
    env["CARGO_TARGET_DIR"] = TARGET_ASAN
    env["RUSTFLAGS"] = "-Zsanitizer=address --cfg feoxdb_verif"
    rc, out = sh("cargo +nightly build --release --offline --target x86_64-unknown-linux-gnu 2>&1", cwd=hdir, timeout=1800, env=env)
    return rc == 0, out


TARGET_OVF = os.path.join(BUILD, "target-ovf")
HARNESS_OVF = os.path.join(TARGET_OVF, "release", "feox-verif-harness")


def build_harness_ovf():
    """the same harness and /repo with integer-overflow checks on (what a debug build of an
    application does): arithmetic on values a damaged file controls must not panic"""
    hdir = os.path.join(VERIF, "harness")
    env = dict(ENV)
    env["CARGO_TARGET_DIR"] = TARGET_OVF
    env["RUSTFLAGS"] = "--cfg feoxdb_verif -C overflow-checks=on"
    rc, out = sh("cargo build --release --offline 2>&1", cwd=hdir, timeout=1800, env=env)
    return rc == 0, out


def run_harness(engine, outdir, args, timeout=3000, asan=False, ovf=False):
    shutil.rmtree(outdir, ignore_errors=True)
    os.makedirs(outdir, exist_ok=True)
    cmd = [HARNESS_ASAN if asan else (HARNESS_OVF if ovf else HARNESS), engine, "out=" + outdir] + ["%s=%s" % kv for kv in args.items()]
    env = ENV
    if asan:
        env = dict(ENV)
        # leaks are deliberate in places (InFlightBuffers, forgotten stores in the harness)
        env["ASAN_OPTIONS"] = "detect_leaks=0:abort_on_error=0:exitcode=77:halt_on_error=1"
    p = subprocess.run(cmd, cwd=VERIF, env=env, stdout=subprocess.PIPE, stderr=subprocess.PIPE, timeout=timeout)
    return p.returncode, p.stdout.decode("utf-8", "replace"), p.stderr.decode("utf-8", "replace")[-20000:]


def run_model(outdir, timeout=3000):
    """modelrun over every cases.*.txt in parallel -> model.*.txt"""
    procs = []
    files = sorted(glob.glob(os.path.join(outdir, "cases.*.txt")))
    pending = list(files)
    running = []
    ok = True
    t0 = time.time()
    while pending or running:
        while pending and len(running) < NCPU:
            c = pending.pop()
            m = c.replace("cases.", "model.")
            fin = open(c, "rb")
            fout = open(m, "wb")
            pr = subprocess.Popen("ulimit -s unlimited 2>/dev/null; exec %s" % MODELRUN, shell=True,
                                  stdin=fin, stdout=fout, stderr=subprocess.PIPE)
            running.append((pr, fin, fout, c))
        for item in list(running):
            pr, fin, fout, c = item
            if pr.poll() is not None:
                fin.close()
                fout.close()
                if pr.returncode != 0:
                    ok = False
                    log("modelrun failed on %s: %s" % (c, pr.stderr.read().decode()[-500:]))
                running.remove(item)
        if time.time() - t0 > timeout:
            for pr, _, _, _ in running:
                pr.kill()
            return False
        time.sleep(0.01)
    return ok


def compare(outdir, max_report=20, nontrivial=None, distinct_key=None):
    """Compare impl.*.txt with model.*.txt line by line.

    Returns dict(total, mismatches=[{id, case, impl, model}], model_errors)."""
    total = 0
    mism = []
    nmism = 0
    model_errors = 0
    undecided = 0
    distinct = set()
    samples = []
    for c in sorted(glob.glob(os.path.join(outdir, "cases.*.txt"))):
        i = c.replace("cases.", "impl.")
        m = c.replace("cases.", "model.")
        with open(c) as fc, open(i) as fi, open(m) as fm:
            for lc in fc:
                li = fi.readline()
                lm = fm.readline()
                total += 1
                cid, _, cbody = lc.rstrip("\n").partition(" ")
                ibody = li.rstrip("\n").partition(" ")[2]      # the result without its case id
                if nontrivial is None or nontrivial(cbody, ibody):
                    dk = distinct_key(cbody, ibody) if distinct_key else cbody
                    distinct.add(hashlib.blake2b(dk.encode(), digest_size=8).digest())
                if len(samples) < 3 and (total % 9973 == 1 or total in (2, 3)):
                    samples.append({"case": cbody[:400], "result": li.rstrip("\n").partition(" ")[2][:400]})
                if "UNDECIDED" in lm:
                    undecided += 1
                    continue
                if li != lm:
                    nmism += 1
                    if "MODEL-ERROR" in lm:
                        model_errors += 1
                    if len(mism) < max_report:
                        mism.append({"id": cid, "case": cbody,
                                     "impl": li.rstrip("\n").partition(" ")[2],
                                     "model": lm.rstrip("\n").partition(" ")[2]})
    return {"total": total, "nmismatch": nmism, "mismatches": mism, "model_errors": model_errors,
            "distinct": len(distinct), "samples": samples, "undecided": undecided}


# ----------------------------------------------------------------------------------------
# evidence, replays, known findings
# ----------------------------------------------------------------------------------------

def known_findings():
    p = os.path.join(VERIF, "known_findings.json")
    if not os.path.exists(p):
        return []
    with open(p) as f:
        return json.load(f).get("findings", [])


def write_replay(pid, name, obj):
    d = os.path.join(VERIF, "replays", pid)
    os.makedirs(d, exist_ok=True)
    path = os.path.join(d, name + ".json")
    with open(path, "w") as f:
        json.dump(obj, f, indent=1)
    return path


def write_evidence(pid, tier, seed, coverage, wall, violations, assumptions, level="proof"):
    os.makedirs(os.path.join(VERIF, "evidence"), exist_ok=True)
    ev = {
        "property_id": pid,
        "tier": tier,
        "seed": seed,
        "level": level,
        "coverage": coverage,
        "assumptions": assumptions,
        "wall_s": round(wall, 2),
        "violations": violations,
    }
    with open(os.path.join(VERIF, "evidence", pid + ".json"), "w") as f:
        json.dump(ev, f, indent=1)
    return ev


TRUSTED_BASE_COMMON = [
    "Coq 8.16.1 kernel (coqc; vm_compute for finite obligations; native_compute not used)",
    "no Axiom/Parameter/Admitted in the development (grep audit on every run); Print Assumptions of every property theorem parsed on every run",
    "extraction: ExtrOcamlBasic only (bool, option, unit, list, prod, sumbool, sumor; andb/orb inlines); no Extract Constant of ours; OCaml 4.13 ocamlopt; runner/driver.ml glue (parsing, printing, N<->decimal via zarith)",
    "correspondence machinery: Rust harness (generators, canonicalisation), tools/vlib.py comparison, tools/gen_constants.py",
]
