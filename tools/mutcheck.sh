#!/bin/bash
# usage: mutcheck.sh <patch.diff> <ID> [<ID>...]
# Run checks against a seeded change WITHOUT touching /repo: a scratch worktree of /repo gets the
# patch, a scratch copy of /verif gets its harness pointed at that worktree (VERIF_REPO for the
# generators).  Everything lives under /tmp/mutcheck.$$ and is removed afterwards.
set -u
patch="$(readlink -f "$1")"; shift
root="/tmp/mutcheck.$$"
wt="$root/repo"; vf="$root/verif"
mkdir -p "$root"
git -C /repo worktree add --detach "$wt" HEAD -q || exit 2
( cd "$wt" && ( git apply "$patch" || git apply --3way "$patch" ) ) || { echo "patch does not apply"; git -C /repo worktree remove --force "$wt"; rm -rf "$root"; exit 2; }
mkdir -p "$vf"
rsync -a --exclude .build --exclude replays --exclude '*.vo' --exclude '*.glob' --exclude '*.aux' --exclude '.git' /verif/ "$vf/"
# reuse the compiled Coq development and runner (they do not depend on the patch unless constants change)
mkdir -p "$vf/.build"
rsync -a /verif/.build/runner "$vf/.build/" 2>/dev/null
# seed the cargo target directories: third-party crates are reused, feoxdb and the harness are rebuilt
mkdir -p "$vf/.build/target" && rsync -a /verif/.build/target/release "$vf/.build/target/" 2>/dev/null
[ -d /verif/.build/target-asan ] && rsync -a /verif/.build/target-asan "$vf/.build/" 2>/dev/null
( cd /verif/coq && find . -name '*.vo' -o -name '*.glob' -o -name '.*.aux' | rsync -a --files-from=- . "$vf/coq/" ) 2>/dev/null
sed -i "s#path = \"/repo\"#path = \"$wt\"#" "$vf/harness/Cargo.toml"
export VERIF_REPO="$wt"
rc=0
for id in "$@"; do
  ( cd "$vf" && ./check "$id" quick 2>&1 | grep -v conda | cut -c1-260 | sed "s#$vf#<scratch>#g" )
  # why (first replay): the engine and the oracle's or comparison's verdict
  for r in "$vf"/replays/"$id"/quick-*-0.json; do
    [ -f "$r" ] && python3 -c "
import json,sys
d=json.load(open('$r')); fi=d.get('failing_input') or {}
print('  WHY', d.get('kind'), '|', fi.get('engine'), '|', (fi.get('why') or fi.get('kind') or str(d.get('no_longer_checks'))[:900])[:900])" 2>/dev/null
  done
done
git -C /repo worktree remove --force "$wt"; git -C /repo worktree prune
rm -rf "$root"
exit $rc
