#!/bin/sh
# usage: goal.sh <file.v relative to coq/> <line>   -- show the proof state after <line>
cd /verif/coq
f="$1"; n="$2"
tmp="$(dirname $f)/zz_goal_tmp.v"
head -n "$n" "$f" > "$tmp"
echo "Show. Abort All." >> "$tmp"
coqc -q -Q . Feox "$tmp" 2>&1 | grep -v conda | tail -${3:-40}
rm -f "$tmp" "$(dirname $f)/zz_goal_tmp.vo" "$(dirname $f)/zz_goal_tmp.glob" "$(dirname $f)/.zz_goal_tmp.aux" "$(dirname $f)/zz_goal_tmp.vok" "$(dirname $f)/zz_goal_tmp.vos"
