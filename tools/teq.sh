#!/bin/bash
# usage: teq.sh <engine> [args...]  -- run a harness engine and compare with the model (dev helper)
eng="$1"; shift
out=/verif/.build/cases/dev-$eng
rm -rf "$out"
/verif/.build/target/release/feox-verif-harness "$eng" out="$out" "$@" 2>&1 | tail -2
for c in "$out"/cases.*.txt; do m=$(echo "$c" | sed 's/cases\./model./'); (ulimit -s unlimited; /verif/.build/runner/modelrun < "$c" > "$m") & done; wait
bad=0
for c in "$out"/cases.*.txt; do m=$(echo "$c" | sed 's/cases\./model./'); i=$(echo "$c" | sed 's/cases\./impl./'); cmp -s "$m" "$i" || { bad=1; diff <(cut -c1-300 "$m") <(cut -c1-300 "$i") | head -8; }; done
cat "$out"/oracle.*.txt | head -5
echo "mismatch=$bad"
