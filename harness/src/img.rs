//! Device-image engines: generate images by running real workloads (child process, killed or
//! closed), probe a real open of an image (child process), and drive both for T-eq of
//! `Model.Recovery.open_image` (C10, C17, C04 ...).
use crate::util::{hex, Opts, Out, Rng};
use feoxdb::{FeoxError, FeoxStore};
use std::io::Write;
use std::process::Command;

pub fn fnv1a(data: &[u8]) -> u64 {
    let mut h: u64 = 0xcbf29ce484222325;
    for b in data {
        h ^= *b as u64;
        h = h.wrapping_mul(0x100000001b3);
    }
    h
}

pub fn err_kind(e: &FeoxError) -> String {
    match e {
        FeoxError::InvalidMetadata => "invalid-metadata".into(),
        FeoxError::CorruptedRecord => "corrupt".into(),
        FeoxError::AmbiguousLegacyTombstone => "ambiguous".into(),
        FeoxError::InvalidDevice => "invalid-device".into(),
        FeoxError::DuplicateKey => "free-dup".into(),
        FeoxError::InvalidArgument => "free-arg".into(),
        FeoxError::OutOfSpace => "free-space".into(),
        FeoxError::CorruptedData => "free-corrupt".into(),
        FeoxError::IndeterminateWrite(_) => "retire".into(),
        FeoxError::IoError(_) => "io".into(),
        other => format!("other:{other}"),
    }
}

pub fn open_store(path: &str, ttl: bool, allow_ambiguous: bool, cache: bool, blocks: Option<u64>) -> feoxdb::Result<FeoxStore> {
    let mut b = FeoxStore::builder()
        .device_path(path.to_string())
        .hash_bits(8)
        .enable_caching(cache)
        .enable_ttl(ttl)
        .allow_ambiguous_legacy_recovery(allow_ambiguous);
    if let Some(n) = blocks {
        b = b.file_size(n * 4096);
    }
    b.build()
}

/// child: open `path` (modifies it: recovery repairs), print the canonical line, exit without Drop.
pub fn probe(opts: &Opts) -> i32 {
    let path = opts.str("path", "");
    let ttl = opts.u64("ttl", 0) == 1;
    let allow = opts.u64("allow", 0) == 1;
    let now_before = std::time::SystemTime::now().duration_since(std::time::UNIX_EPOCH).unwrap().as_nanos() as u64;
    let before = std::fs::read(&path).unwrap_or_default();
    let before_hash = fnv1a(&before);
    let was_zero = before.iter().all(|b| *b == 0);
    // independent classification of "fails for metadata reasons": neither copy decodes
    let meta_valid = before.len() >= 8 * 4096 && {
        use feoxdb::storage::metadata::Metadata;
        let p = Metadata::from_bytes(&before[..4096]);
        let q = Metadata::from_bytes(&before[7 * 4096..8 * 4096]);
        p.is_some() || q.is_some()
    };
    drop(before);
    let rectrace = opts.str("rectrace", "");
    let tracer = if rectrace.is_empty() { None } else { Some(crate::crash::Tracer::new()) };
    if let Some(t) = &tracer {
        feoxdb::verif::dev::install(Some(t.clone()));
    }
    let r = std::panic::catch_unwind(|| open_store(&path, ttl, allow, false, None));
    if let Some(t) = &tracer {
        feoxdb::verif::dev::install(None);
        let blocks = std::fs::metadata(&path).map(|m| m.len() / 4096).unwrap_or(0);
        t.save(&rectrace, blocks, ttl);
    }
    let line = match r {
        Err(_) => "PANIC".to_string(),
        Ok(Err(e)) => {
            let kind = err_kind(&e);
            let after = std::fs::read(&path).map(|d| fnv1a(&d)).unwrap_or(0);
            if kind == "invalid-metadata" && meta_valid {
                // the metadata block is fine: the journal generation cannot advance
                format!("err journal-exhausted post={after:016x}")
            } else if kind == "invalid-metadata" || kind == "invalid-device" {
                format!("err {kind} unchanged={} post={after:016x}", (after == before_hash) as u8)
            } else {
                format!("err {kind} post={after:016x}")
            }
        }
        Ok(Ok(store)) if was_zero => {
            std::mem::forget(store);
            "fresh".to_string()
        }
        Ok(Ok(store)) => {
            let snap = store.verif_snapshot();
            let (tf, chunks, largest, _frag) = store.verif_free_stats();
            let mut keys = String::new();
            for r in &snap {
                let v = match std::panic::catch_unwind(std::panic::AssertUnwindSafe(|| store.get(&r.key))) {
                    Ok(Ok(v)) => format!("{:016x}", fnv1a(&v)),
                    Ok(Err(_)) => "err".to_string(),
                    Err(_) => "PANIC".to_string(),
                };
                keys.push_str(&format!("{}:{}:{}:{}:{}:{};", hex(&r.key), r.timestamp, r.ttl_expiry, r.value_len, r.sector, v));
            }
            let post = std::fs::read(&path).map(|d| fnv1a(&d)).unwrap_or(0);
            let line = format!(
                "ok v={} n={} mem={} disk={} free={},{},{} amb={} keys={} post={:016x}",
                store.verif_format_version(),
                store.len(),
                store.memory_usage(),
                store.verif_disk_usage(),
                tf, chunks, largest,
                store.verif_ambiguous_markers(),
                if keys.is_empty() { "-".to_string() } else { keys },
                post
            );
            // C13 after recovery: memory_usage() = sum over the live records of overhead + key + value
            let expect_mem = snap.iter().fold(0usize, |a, r| {
                a.wrapping_add(FeoxStore::verif_record_overhead()).wrapping_add(r.key.len()).wrapping_add(r.value_len as usize)
            });
            let got_mem = store.memory_usage();
            // C05 after recovery: the usage counter (what the next flush persists as total_size) = the
            // blocks of the live records' extents
            let fmt = feoxdb::storage::format::get_format(store.verif_format_version());
            let expect_disk = snap.iter().filter(|r| r.sector != 0).fold(0u64, |a, r| a + (fmt.total_size(r.key.len(), r.value_len as usize).div_ceil(4096) as u64) * 4096);
            let got_disk = store.verif_disk_usage();
            let line = if expect_disk != got_disk { format!("{line} ACCT-BROKEN-DISK usage-counter={got_disk} live-extents={expect_disk}") } else { line };
            let line = if expect_mem != got_mem || store.len() != snap.len() {
                format!("{line} ACCT-BROKEN expect_mem={expect_mem} got_mem={got_mem} len={} records={}", store.len(), snap.len())
            } else {
                line
            };
            // C12 after recovery: every clock shard covers the timestamps recovered into it (2^64-1, the
            // pin sentinel, is never folded in)
            let line = {
                let behind = snap.iter().find(|r| r.timestamp != u64::MAX && store.verif_clock_value(store.verif_clock_shard(&r.key)) < r.timestamp);
                match behind {
                    Some(r) => format!("{line} CLOCK-BEHIND key={} ts={} clock={}", hex(&r.key), r.timestamp, store.verif_clock_value(store.verif_clock_shard(&r.key))),
                    None => line,
                }
            };
            // C05 after recovery: every data block is free or inside exactly one recovered record's extent
            let line = {
                let format = feoxdb::storage::format::get_format(store.verif_format_version());
                let owned: u64 = snap.iter().filter(|r| r.sector != 0).map(|r| format.total_size(r.key.len(), r.value_len).div_ceil(4096) as u64).sum();
                let data_blocks = (std::fs::metadata(&path).map(|m| m.len()).unwrap_or(0) / 4096).saturating_sub(16);
                if tf / 4096 + owned != data_blocks {
                    format!("{line} PART-BROKEN free_blocks={} owned_blocks={owned} data_blocks={data_blocks}", tf / 4096)
                } else {
                    line
                }
            };
            // "a store that does open answers every call without panicking"
            let skip_workload = opts.u64("noworkload", 0) == 1;
            let probe = std::panic::catch_unwind(std::panic::AssertUnwindSafe(|| {
                if skip_workload {
                    return;
                }
                let _ = store.range_query(b"", &[0xff; 8], 1000);
                let _ = store.insert(b"verif-probe-key", b"verif-probe-value");
                let _ = store.get(b"verif-probe-key");
                if let Some(r) = snap.first() {
                    let _ = store.delete(&r.key);
                    let _ = store.get_size(&r.key);
                }
                let _ = store.insert(b"verif-probe-big", &vec![7u8; 9000]);
                let _ = store.flush();
                let _ = store.get(b"verif-probe-big");
                let _ = store.len();
            }));
            let line = if probe.is_err() { format!("{line} PANIC-after-open") } else { line };
            // non-empty content without a decodable metadata copy is not a FeOx device
            let line = if !meta_valid { format!("{line} OPENED-WITHOUT-SIGNATURE") } else { line };
            std::mem::forget(store);
            line
        }
    };
    println!("now={now_before} recsize={} {line}", FeoxStore::verif_record_overhead());
    let _ = std::io::stdout().flush();
    unsafe { libc::_exit(0) }
}

fn rand_key(rng: &mut Rng, nkeys: u64) -> Vec<u8> {
    let i = rng.below(nkeys);
    match i % 7 {
        0 => format!("k{i}").into_bytes(),
        1 => format!("key/{i}/x").into_bytes(),
        2 => vec![b'a' + (i % 26) as u8; 1],
        3 => {
            let mut k = format!("long{i}-").into_bytes();
            k.resize(100 + (i as usize % 200), b'z');
            k
        }
        4 => vec![0xff, i as u8, 0x00],
        5 => {
            // boundary: longest recoverable key
            let mut k = format!("max{i}").into_bytes();
            k.resize(4066, b'm');
            k
        }
        _ => format!("k{i}").into_bytes(),
    }
}

fn rand_value(rng: &mut Rng, tag: u64) -> Vec<u8> {
    let len = match rng.below(10) {
        0 => 1,
        1 => 4096 - 40,
        2 => 4096,
        3 => rng.range(3900, 4200),
        4 => rng.range(8000, 8300),
        5 => rng.range(9000, 13000),
        _ => rng.range(1, 300),
    } as usize;
    let mut v = Vec::with_capacity(len);
    let mut x = tag.wrapping_mul(0x9E3779B97F4A7C15) | 1;
    while v.len() < len {
        x ^= x << 13;
        x ^= x >> 7;
        x ^= x << 17;
        v.push((x & 0xff) as u8);
    }
    if rng.chance(1, 8) && len >= 4096 + 64 {
        // hostile: second block starts like a record head / a retirement marker
        let off = 4096 - 30; // header size for short keys is near 30; not exact, see C03 engine
        if rng.chance(1, 2) {
            v[off..off + 2].copy_from_slice(&0xABCDu16.to_le_bytes());
        } else {
            v[off..off + 8].copy_from_slice(b"\0DELETED");
        }
    }
    v
}

/// The live contents as an independent reader of the file must find them after flush().
pub fn dump_line(store: &FeoxStore) -> String {
    let snap = store.verif_snapshot();
    let mut keys = String::new();
    for r in &snap {
        let v = match store.get(&r.key) {
            Ok(v) => format!("{:016x}", fnv1a(&v)),
            Err(_) => "err".to_string(),
        };
        keys.push_str(&format!("{}:{}:{}:{}:{};", hex(&r.key), r.timestamp, r.ttl_expiry, r.value_len, v));
    }
    format!(
        "flushed v={} n={} size={} journal=clear keys={}",
        store.verif_format_version(),
        store.len(),
        store.verif_disk_usage(),
        if keys.is_empty() { "-".to_string() } else { keys }
    )
}

/// child: run a workload on `path` and exit (kill-like: no Drop) or close cleanly.
pub fn genimg(opts: &Opts) -> i32 {
    let path = opts.str("path", "");
    let seed = opts.u64("seed", 1);
    let blocks = opts.u64("blocks", 64);
    let ttl = opts.u64("ttl", 0) == 1;
    let nops = opts.u64("ops", 60);
    let version = opts.u64("version", 3) as u32;
    if version < 3 {
        seed_legacy_device(&path, blocks, version, opts.u64("legacy_checksum", 0) == 1);
    }
    let ending = opts.u64("ending", 0); // 0 = flush+exit, 1 = exit without final flush, 2 = clean drop
    let dump = opts.str("dump", "");
    let noexp = opts.u64("noexp", 0) == 1;
    let mut rng = Rng::new(seed);
    let store = match open_store(&path, ttl, false, rng.chance(1, 2), Some(blocks)) {
        Ok(s) => s,
        Err(e) => {
            println!("genimg-open-error {}", err_kind(&e));
            return 3;
        }
    };
    let nkeys = match opts.u64("nkeys", 0) {
        0 => rng.range(2, 10),
        n => n,
    };
    // directed key set for paginated readers (migration copies in batches of 256): every key is
    // followed by a key it is a proper prefix of; with and without one extra key in front, so that
    // whatever the batch size, a batch ends on a prefix key in one of the two layouts
    // a value of exactly the largest accepted size (4 MiB), and one byte less
    if opts.u64("bigvalue", 0) == 1 {
        let max = 4 * 1024 * 1024;
        let mut v = vec![0u8; max];
        for (i, b) in v.iter_mut().enumerate() {
            *b = (i % 253) as u8 + 1;
        }
        let _ = store.insert(b"bigmax", &v);
        let _ = store.flush();
        let _ = store.insert(b"bigmax-1", &v[..max - 1]);
        let _ = store.flush();
    }
    let pairs = opts.u64("prefixpairs", 0);
    if pairs > 0 {
        if opts.u64("prefixextra", 0) == 1 {
            let _ = store.insert(b"0first", b"extra");
        }
        for i in 0..pairs {
            let _ = store.insert(format!("p{i:03}").as_bytes(), format!("parent-{i}").as_bytes());
            let _ = store.insert(format!("p{i:03}/c").as_bytes(), format!("child-{i}").as_bytes());
        }
        let _ = store.flush();
    }
    let now = store.get_timestamp_pub();
    let hour = 3_600_000_000_000u64;
    for i in 0..nops {
        let key = rand_key(&mut rng, nkeys);
        match rng.below(100) {
            0..=44 => {
                let v = rand_value(&mut rng, seed * 1000 + i);
                let ts = match rng.below(6) {
                    0 => Some(rng.range(1, 1000)),
                    1 => Some(now + rng.below(1000)),
                    _ => None,
                };
                if ttl && rng.chance(1, 3) {
                    // expiry = ts + ttl*1e9 : choose ts so that it is >= 1h in the past or future
                    let (ts, secs) = if !noexp && rng.chance(1, 2) {
                        (Some(now - 3 * hour - rng.below(hour)), rng.range(1, 3000)) // expired
                    } else {
                        // lives: expiry counts from the timestamp, so keep the timestamp near now
                        (if ts.map_or(true, |t| t >= now) { ts } else { None }, rng.range(7200, 100_000))
                    };
                    let _ = store.insert_with_ttl_and_timestamp(&key, &v, secs, ts);
                } else {
                    let _ = store.insert_with_timestamp(&key, &v, ts);
                }
            }
            45..=59 => {
                let _ = store.delete(&key);
            }
            60..=69 => {
                let _ = store.flush();
            }
            70..=74 => {
                let _ = store.atomic_increment(format!("ctr{}", rng.below(2)).as_bytes(), rng.below(10) as i64 - 3);
            }
            75..=79 => {
                let _ = store.get(&key);
            }
            80..=84 if ttl => {
                // every spelling that can attach, change or drop an expiry (a version-1 device has no
                // expiry field: each of them must be refused there, not accepted and then lost)
                let secs = rng.range(7200, 100_000);
                match rng.below(8) {
                    0 | 1 => {
                        let _ = store.update_ttl(&key, secs);
                    }
                    2 => {
                        let _ = store.persist(&key);
                    }
                    3 => {
                        let v = rand_value(&mut rng, seed * 4242 + i);
                        let _ = store.insert_bytes_with_ttl(&key, bytes::Bytes::from(v), secs);
                    }
                    4 => {
                        let v = rand_value(&mut rng, seed * 4343 + i);
                        let _ = store.insert_bytes_with_ttl_and_timestamp(&key, bytes::Bytes::from(v), secs, None);
                    }
                    5 => {
                        let v = rand_value(&mut rng, seed * 4444 + i);
                        let _ = store.insert_with_ttl(&key, &v, secs);
                    }
                    6 => {
                        if let Ok(cur) = store.get(&key) {
                            let v = rand_value(&mut rng, seed * 4545 + i);
                            let _ = store.compare_and_swap_with_ttl(&key, &cur, &v, secs);
                        }
                    }
                    _ => {
                        let _ = store.atomic_increment_with_ttl(format!("ctr{}", rng.below(2)).as_bytes(), 1, secs);
                    }
                }
            }
            85..=89 => {
                std::thread::sleep(std::time::Duration::from_millis(rng.below(120)));
            }
            _ => {
                let v = rand_value(&mut rng, seed * 7777 + i);
                let _ = store.insert(&key, &v);
            }
        }
    }
    if !dump.is_empty() {
        let r = store.flush();
        let line = if r.is_ok() { dump_line(&store) } else { format!("flush-failed {:?}", r.err()) };
        std::fs::write(&dump, line).unwrap();
    }
    match ending {
        0 => {
            let r = store.flush();
            println!("genimg-done flush={}", r.is_ok());
            let _ = std::io::stdout().flush();
            std::mem::forget(store);
            unsafe { libc::_exit(0) }
        }
        1 => {
            println!("genimg-done killed");
            let _ = std::io::stdout().flush();
            std::mem::forget(store);
            unsafe { libc::_exit(0) }
        }
        _ => {
            drop(store);
            println!("genimg-done closed");
            0
        }
    }
}

/// A zero file carrying only a v1/v2 metadata block: the engine then runs in compatibility mode.
pub fn seed_legacy_device(path: &str, blocks: u64, version: u32, with_checksum: bool) {
    use feoxdb::storage::metadata::Metadata;
    let mut m = Metadata::new();
    m.version = version;
    m.device_size = blocks * 4096;
    m.update();
    let mut enc = m.encode().to_vec();
    if !with_checksum {
        // the released v1/v2 formats had no checksum in the reserved area
        for b in &mut enc[64..132] {
            *b = 0;
        }
    }
    let mut img = vec![0u8; (blocks * 4096) as usize];
    img[..enc.len()].copy_from_slice(&enc);
    std::fs::write(path, &img).unwrap();
}

pub fn self_exe() -> std::path::PathBuf {
    std::env::current_exe().unwrap()
}

pub fn run_child(args: &[String], timeout_s: u64) -> Option<String> {
    use std::io::Read;
    let mut child = Command::new(self_exe())
        .args(args)
        .stdout(std::process::Stdio::piped())
        .stderr(std::process::Stdio::null())
        .spawn()
        .ok()?;
    // drain stdout while the child runs: a line longer than the pipe buffer would block it for ever
    let mut pipe = child.stdout.take()?;
    let reader = std::thread::spawn(move || {
        let mut buf = Vec::new();
        let _ = pipe.read_to_end(&mut buf);
        buf
    });
    let start = std::time::Instant::now();
    let status = loop {
        match child.try_wait() {
            Ok(Some(st)) => break st,
            Ok(None) => {
                if start.elapsed().as_secs() > timeout_s {
                    let _ = child.kill();
                    let _ = child.wait();
                    let _ = reader.join();
                    return Some("TIMEOUT".to_string());
                }
                std::thread::sleep(std::time::Duration::from_millis(2));
            }
            Err(_) => return None,
        }
    };
    let stdout = reader.join().ok()?;
    if !status.success() && stdout.is_empty() {
        return Some(format!("CHILD-DIED status={:?}", status.code()));
    }
    Some(String::from_utf8_lossy(&stdout).trim().to_string())
}

/// Probe `image` (left untouched: the probe runs on a copy). Returns (now, recsize, impl line).
pub fn probe_image(image: &str, scratch: &str, ttl: bool, allow: bool) -> (u64, u64, String) {
    std::fs::copy(image, scratch).unwrap();
    let mut out = run_child(
        &["probe".into(), format!("path={scratch}"), format!("ttl={}", ttl as u8), format!("allow={}", allow as u8)],
        180,
    )
    .unwrap_or_else(|| "SPAWN-FAILED".into());
    if out.contains("TIMEOUT") {
        // an open that hangs does so again on the same bytes; a stalled machine (an fsync behind
        // gigabytes of other processes' writes) does not: the verdict is the second attempt's
        std::fs::copy(image, scratch).unwrap();
        out = run_child(
            &["probe".into(), format!("path={scratch}"), format!("ttl={}", ttl as u8), format!("allow={}", allow as u8)],
            180,
        )
        .unwrap_or_else(|| "SPAWN-FAILED".into());
    }
    let _ = std::fs::remove_file(scratch);
    let mut now = 0;
    let mut recsize = 0;
    let mut rest = out.as_str();
    if let Some(r) = rest.strip_prefix("now=") {
        let (a, b) = r.split_once(' ').unwrap_or((r, ""));
        now = a.parse().unwrap_or(0);
        rest = b;
        if let Some(r) = rest.strip_prefix("recsize=") {
            let (a, b) = r.split_once(' ').unwrap_or((r, ""));
            recsize = a.parse().unwrap_or(0);
            rest = b;
        }
    }
    (now, recsize, rest.to_string())
}

/// Two opens in a row of one copy of `image`: the second sees the file as the first left it.
pub fn probe_twice(image: &str, scratch: &str, ttl: bool, allow: bool) -> (String, String) {
    std::fs::copy(image, scratch).unwrap();
    let strip = |out: String| -> String {
        let mut rest = out.as_str();
        if let Some(r) = rest.strip_prefix("now=") {
            rest = r.split_once(' ').map_or("", |x| x.1);
            if let Some(r) = rest.strip_prefix("recsize=") {
                rest = r.split_once(' ').map_or("", |x| x.1);
            }
        }
        rest.to_string()
    };
    let args = ["probe".to_string(), format!("path={scratch}"), format!("ttl={}", ttl as u8), format!("allow={}", allow as u8), "noworkload=1".to_string()];
    let l1 = strip(run_child(&args, 180).unwrap_or_else(|| "SPAWN-FAILED".into()));
    let l2 = strip(run_child(&args, 180).unwrap_or_else(|| "SPAWN-FAILED".into()));
    let _ = std::fs::remove_file(scratch);
    (l1, l2)
}

/// Property oracle on the implementation's own answer (C17 half): no panic, no hang.
pub fn open_verdict(line: &str) -> String {
    if line.contains("unchanged=0") {
        "FAIL rejected-for-size-or-metadata-but-file-modified".into()
    } else if line.contains("PANIC") {
        "FAIL open-or-read-panicked".into()
    } else if line.contains("OPENED-WITHOUT-SIGNATURE") {
        "FAIL non-empty-file-without-a-valid-signature-was-opened-as-a-store".into()
    } else if line.contains("ACCT-BROKEN-DISK") {
        "FAIL disk-usage-counter-after-recovery-differs-from-the-live-records-extents".into()
    } else if line.contains("ACCT-BROKEN") {
        "FAIL memory-usage-or-len-after-recovery-differs-from-the-live-records".into()
    } else if line.contains("TIMEOUT") {
        "FAIL open-hung".into()
    } else if line.contains("CHILD-DIED") || line.contains("SPAWN-FAILED") {
        "FAIL process-aborted".into()
    } else {
        "ok".into()
    }
}

/// engine `img`: engine-built images (flushed, killed, closed) -> open T-eq.
pub fn run(opts: &Opts) -> i32 {
    let dir = opts.str("out", "/verif/.build/cases/img");
    let seed = opts.u64("seed", 1);
    let shards = opts.u64("shards", 16);
    let per = opts.u64("n", if opts.thorough() { 150 } else { 12 });
    let keep = format!("{dir}/images");
    std::fs::create_dir_all(&keep).unwrap();
    let mut handles = Vec::new();
    for sh in 0..shards {
        let dir = dir.clone();
        let keep = keep.clone();
        handles.push(std::thread::spawn(move || {
            let mut out = Out::new(&dir, &format!("s{sh}"));
            let mut rng = Rng::new(seed.wrapping_mul(7919).wrapping_add(sh));
            for i in 0..per {
                let image = format!("{keep}/i{sh}_{i}.img");
                let scratch = format!("{keep}/i{sh}_{i}.probe");
                let ttl = rng.chance(1, 2);
                let blocks = *rng.pick(&[40u64, 64, 64, 96, 160]);
                let ending = rng.below(3);
                let version = *rng.pick(&[3u64, 3, 3, 2, 1]);
                let g = run_child(
                    &[
                        "genimg".into(),
                        format!("version={version}"),
                        format!("legacy_checksum={}", rng.below(2)),
                        format!("path={image}"),
                        format!("seed={}", rng.next() % 1_000_000_007),
                        format!("blocks={blocks}"),
                        format!("ttl={}", ttl as u8),
                        format!("ops={}", rng.range(10, 120)),
                        format!("ending={ending}"),
                    ],
                    180,
                );
                if g.as_deref().map_or(true, |s| !s.starts_with("genimg-done")) {
                    out.emit3(&format!("note genimg-failed {:?}", g), "note", "FAIL workload-child-failed");
                    let _ = std::fs::remove_file(&image);
                    continue;
                }
                // open with TTL on and off
                for probe_ttl in [ttl, !ttl] {
                    let (now, recsize, line) = probe_image(&image, &scratch, probe_ttl, false);
                    let case = format!("open {image} ro=0 allow=0 ttl={} now={now} recsize={recsize}", probe_ttl as u8);
                    out.emit3(&case, &line, &open_verdict(&line));
                }
            }
            out.finish()
        }));
    }
    let mut total = 0;
    for h in handles {
        total += h.join().unwrap();
    }
    println!("cases={total}");
    0
}

pub fn replay(toks: &[&str]) -> (String, String) {
    // open <image> ro=0 allow=<a> ttl=<t> now=.. recsize=..
    let image = toks[0];
    let get = |k: &str| toks.iter().find_map(|t| t.strip_prefix(k)).unwrap_or("0").to_string();
    let scratch = format!("{image}.replay");
    let (_now, _rs, line) = probe_image(image, &scratch, get("ttl=") == "1", get("allow=") == "1");
    let v = open_verdict(&line);
    (line, v)
}

/// child: open an existing image with the working tree, dump, write more, flush, dump again.
pub fn reopen(opts: &Opts) -> i32 {
    let path = opts.str("path", "");
    let ttl = opts.u64("ttl", 0) == 1;
    let seed = opts.u64("seed", 1);
    let mut rng = Rng::new(seed);
    let store = match open_store(&path, ttl, false, rng.chance(1, 2), None) {
        Ok(s) => s,
        Err(e) => {
            println!("reopen-error {}", err_kind(&e));
            return 0;
        }
    };
    println!("{}", dump_line(&store));
    let snap = store.verif_snapshot();
    for i in 0..opts.u64("ops", 12) {
        match rng.below(4) {
            0 if !snap.is_empty() => {
                let k = &snap[rng.below(snap.len() as u64) as usize].key;
                let _ = store.delete(k);
            }
            1 if !snap.is_empty() => {
                let k = &snap[rng.below(snap.len() as u64) as usize].key;
                let _ = store.insert(k, &rand_value(&mut rng, seed + i));
            }
            _ => {
                let _ = store.insert(format!("golden-new-{i}").as_bytes(), &rand_value(&mut rng, seed * 3 + i));
            }
        }
    }
    match store.flush() {
        Ok(()) => println!("{}", dump_line(&store)),
        Err(e) => println!("flush-failed {}", err_kind(&e)),
    }
    let _ = std::io::stdout().flush();
    std::mem::forget(store);
    unsafe { libc::_exit(0) }
}

/// engine `flushimg` (C10 ii): after flush() an independent reader finds exactly the live contents.
pub fn run_flushimg(opts: &Opts) -> i32 {
    let dir = opts.str("out", "/verif/.build/cases/flushimg");
    let seed = opts.u64("seed", 1);
    let shards = opts.u64("shards", 16);
    let per = opts.u64("n", if opts.thorough() { 200 } else { 10 });
    let keep = format!("{dir}/images");
    std::fs::create_dir_all(&keep).unwrap();
    let mut handles = Vec::new();
    for sh in 0..shards {
        let dir = dir.clone();
        let keep = keep.clone();
        handles.push(std::thread::spawn(move || {
            let mut out = Out::new(&dir, &format!("s{sh}"));
            let mut rng = Rng::new(seed.wrapping_mul(15485863).wrapping_add(sh));
            for i in 0..per {
                let image = format!("{keep}/f{sh}_{i}.img");
                let dump = format!("{keep}/f{sh}_{i}.dump");
                let version = *rng.pick(&[3u64, 3, 2, 1]);
                let g = run_child(
                    &[
                        "genimg".into(),
                        format!("version={version}"),
                        format!("legacy_checksum={}", rng.below(2)),
                        format!("path={image}"),
                        format!("dump={dump}"),
                        "noexp=1".into(),
                        format!("seed={}", rng.next() % 1_000_000_007),
                        format!("blocks={}", rng.pick(&[48u64, 96, 160])),
                        format!("ttl={}", rng.below(2)),
                        format!("ops={}", rng.range(5, 150)),
                        format!("ending={}", rng.pick(&[0u64, 2])),
                    ],
                    180,
                );
                let line = std::fs::read_to_string(&dump).unwrap_or_else(|_| format!("no-dump {:?}", g));
                if line.contains("OutOfSpace") {
                    // the workload overfilled the small device: flush reported it; nothing to compare
                    out.emit3("note device-full", "note", "ok");
                    continue;
                }
                let verdict = if line.starts_with("flushed") { "ok" } else { "FAIL flush-did-not-succeed-on-a-healthy-device" };
                out.emit3(&format!("readdev {image}"), &line, verdict);
            }
            out.finish()
        }));
    }
    let mut total = 0;
    for h in handles {
        total += h.join().unwrap();
    }
    println!("cases={total}");
    0
}

/// engine `golden` (C10 iii): files written by the pinned release.
pub fn run_golden(opts: &Opts) -> i32 {
    let dir = opts.str("out", "/verif/.build/cases/golden");
    let gdir = opts.str("golden", "/verif/golden");
    let seed = opts.u64("seed", 1);
    let keep = format!("{dir}/images");
    std::fs::create_dir_all(&keep).unwrap();
    let mut out = Out::new(&dir, "s0");
    let mut names: Vec<String> = std::fs::read_dir(&gdir)
        .map(|d| d.filter_map(|e| e.ok()).map(|e| e.file_name().to_string_lossy().to_string()).filter(|n| n.ends_with(".img.xz")).collect())
        .unwrap_or_default();
    names.sort();
    if names.is_empty() {
        out.emit3("note no-golden-files", "note", "FAIL golden-corpus-missing");
    }
    for name in names {
        let base = name.trim_end_matches(".img.xz");
        let expect = std::fs::read_to_string(format!("{gdir}/{base}.expect")).unwrap_or_default().trim().to_string();
        let orig = format!("{keep}/{base}.orig.img");
        let work = format!("{keep}/{base}.work.img");
        let ok = Command::new("sh")
            .arg("-c")
            .arg(format!("xz -dc {gdir}/{name} > {orig} && cp {orig} {work}"))
            .status()
            .map(|s| s.success())
            .unwrap_or(false);
        if !ok {
            out.emit3(&format!("note cannot-decompress {name}"), "note", "FAIL golden-file-unreadable");
            continue;
        }
        // 1. the model reads the released file to the recorded manifest
        out.emit3(&format!("readdev {orig}"), &expect, "ok");
        // 2./3. the working tree reads it to the same manifest, keeps the format when writing
        // golden files are opened with TTL off: their expiries are absolute instants that pass
        let ttl = false;
        let r = run_child(&["reopen".into(), format!("path={work}"), format!("ttl={}", ttl as u8), format!("seed={seed}")], 180).unwrap_or_default();
        let mut lines = r.lines();
        let first = lines.next().unwrap_or("").to_string();
        let second = lines.next().unwrap_or("").to_string();
        let v1 = if first == expect { "ok" } else { "FAIL released-file-read-back-differs-from-its-manifest" };
        out.emit3(&format!("readdev {orig}"), &first, v1);
        let v2 = if second.starts_with("flushed") { "ok" } else { "FAIL write-to-released-file-failed" };
        out.emit3(&format!("readdev {work}"), &second, v2);
    }
    let n = out.finish();
    println!("cases={n}");
    0
}
