//! Directed replay of finding F3 (C02/C03/C04/C05): a retired extent split between two batches.
//! Worker A allocates the first block of a retired 3-block extent and is held between the
//! allocation and the device lock; worker B allocates the other two blocks, journals, writes,
//! clears, publishes and retires the predecessor; the process is killed. The image is
//! [marker remaining=3][B head][B tail]: recovery trusts the stale span and hides B's record.
use crate::img::{fnv1a, probe_image};
use crate::util::{hex, Opts, Out};
use feoxdb::FeoxStore;
use std::io::Write;
use std::sync::atomic::{AtomicBool, AtomicUsize, Ordering};
use std::sync::Arc;

/// child: builds the scenario on `path` and exits without Drop. prints "f3-done acked=<vh of fastC v1> new=<vh of v2>"
pub fn f3child(opts: &Opts) -> i32 {
    let path = opts.str("path", "");
    let _ = std::fs::remove_file(&path);
    feoxdb::verif::dev::set_force_sync_path(true);
    let store = FeoxStore::builder()
        .device_path(path.clone())
        .file_size(64 * 4096)
        .hash_bits(8)
        .enable_caching(false)
        .build()
        .unwrap();
    // two keys owned by different workers
    let mut slow = None;
    let mut fast = None;
    for i in 0..400 {
        let k = format!("k{i}");
        let (shard, _shards, workers) = store.verif_write_shard(k.as_bytes()).unwrap();
        if workers < 2 {
            println!("f3-skip workers={workers}");
            return 0;
        }
        let w = shard % workers;
        match (&slow, &fast) {
            (None, _) => slow = Some((k, w)),
            (Some((_, sw)), None) if *sw != w => fast = Some((k, w)),
            _ => {}
        }
        if slow.is_some() && fast.is_some() {
            break;
        }
    }
    let (slow_k, slow_w) = slow.unwrap();
    let (fast_k, _fast_w) = fast.unwrap();
    let three = vec![0x33u8; 9000];
    let v1 = vec![0x11u8; 100];
    let v2 = vec![0x22u8; 5000];
    store.insert(b"old", &three).unwrap();
    store.flush().unwrap();
    store.insert(fast_k.as_bytes(), &v1).unwrap();
    store.flush().unwrap(); // fastC v1 acknowledged
    store.delete(b"old").unwrap();
    store.flush().unwrap(); // old's 3 blocks are markers (remaining 3,2,1) and free again
    // hold the first batch that reaches the point (the slow key's worker)
    let armed = Arc::new(AtomicBool::new(true));
    let reached = Arc::new(AtomicUsize::new(0));
    {
        let armed = armed.clone();
        let reached = reached.clone();
        feoxdb::verif::sched::install(Some(Arc::new(move |name: &'static str| {
            if name == "write_batch_after_allocation" && armed.swap(false, Ordering::SeqCst) {
                reached.fetch_add(1, Ordering::SeqCst);
                std::thread::sleep(std::time::Duration::from_millis(2500));
            }
        })));
    }
    store.insert(slow_k.as_bytes(), &[0x44u8; 10]).unwrap();
    // wait until the slow worker sits between its allocation and the device lock
    let t0 = std::time::Instant::now();
    while reached.load(Ordering::SeqCst) == 0 && t0.elapsed().as_millis() < 2000 {
        std::thread::sleep(std::time::Duration::from_millis(5));
    }
    if reached.load(Ordering::SeqCst) == 0 {
        println!("f3-skip slow-worker-not-held worker={slow_w}");
        return 0;
    }
    store.insert(fast_k.as_bytes(), &v2).unwrap();
    // the periodic flusher writes fastC v2 (two blocks), publishes it and retires v1
    std::thread::sleep(std::time::Duration::from_millis(900));
    println!("f3-done key={} acked={:016x} new={:016x}", hex(fast_k.as_bytes()), fnv1a(&v1), fnv1a(&v2));
    let _ = std::io::stdout().flush();
    std::mem::forget(store);
    unsafe { libc::_exit(0) }
}

/// engine `f3`: run the directed scenario, reopen the killed image, judge it with the C02 window.
pub fn run(opts: &Opts) -> i32 {
    let dir = opts.str("out", "/verif/.build/cases/f3");
    let keep = format!("{dir}/images");
    std::fs::create_dir_all(&keep).unwrap();
    let mut out = Out::new(&dir, "s0");
    let tries = opts.u64("tries", 2);
    for i in 0..tries {
        let image = format!("{keep}/f3_{i}.img");
        let g = crate::img::run_child(&["f3child".into(), format!("path={image}")], 180).unwrap_or_default();
        if !g.starts_with("f3-done") {
            out.emit3(&format!("note f3-not-staged {}", g.replace(' ', "_")), "note", "ok");
            continue;
        }
        let toks: Vec<&str> = g.split(' ').collect();
        let get = |k: &str| toks.iter().find_map(|t| t.strip_prefix(k)).unwrap_or("").to_string();
        let (key, acked, newv) = (get("key="), get("acked="), get("new="));
        let (now, recsize, line) = probe_image(&image, &format!("{image}.probe"), false, false);
        // the acknowledged key must come back with the acknowledged or the newer value
        let mut verdict = "ok".to_string();
        match crate::crash::parse_open(&line) {
            None => verdict = format!("FAIL crash-image-does-not-reopen: {}", line.split(' ').take(2).collect::<Vec<_>>().join("_")),
            Some((_n, found)) => match found.get(&key) {
                Some((_ts, vh)) if *vh == acked || *vh == newv => {}
                Some((_ts, vh)) => verdict = format!("FAIL acknowledged-key-has-foreign-value key={key} vh={vh}"),
                None => verdict = format!("FAIL acknowledged-key-missing key={key}"),
            },
        }
        if verdict != "ok" {
            let img = std::fs::read(&image).unwrap_or_default();
            if let Some((b, rem, head)) = crate::crash::stale_marker_span(&img) {
                verdict.push_str(&format!(" class=stale-marker-span marker@{b} remaining={rem} covers-record-head@{head}"));
            }
        }
        out.emit3(&format!("open {image} ro=0 allow=0 ttl=0 now={now} recsize={recsize} directed=F3"), &line, &verdict);
    }
    let n = out.finish();
    println!("cases={n}");
    0
}
