//! C18: targeted contention workloads, every call under a watchdog.  Each scenario runs in its own
//! child process; a call that does not return within the limit, or a child that does not finish,
//! is the violation (the scenario and seed are the replay).
use crate::img::run_child;
use crate::util::{Opts, Out, Rng};
use feoxdb::verif::dev::{Decision, Observer};
use feoxdb::FeoxStore;
use std::sync::atomic::{AtomicBool, AtomicU64, Ordering};
use std::sync::{Arc, Mutex};
use std::time::{Duration, Instant};

const CALL_LIMIT_S: u64 = 20;

struct Beat {
    // per thread: (what, started at ms since epoch; 0 = idle)
    slots: Vec<(Mutex<&'static str>, AtomicU64)>,
    epoch: Instant,
    calls: AtomicU64,
}

impl Beat {
    fn new(n: usize) -> Arc<Self> {
        Arc::new(Beat { slots: (0..n).map(|_| (Mutex::new("idle"), AtomicU64::new(0))).collect(), epoch: Instant::now(), calls: AtomicU64::new(0) })
    }
    fn call<T>(&self, slot: usize, what: &'static str, f: impl FnOnce() -> T) -> T {
        *self.slots[slot].0.lock().unwrap() = what;
        self.slots[slot].1.store(self.epoch.elapsed().as_millis() as u64 + 1, Ordering::SeqCst);
        let r = f();
        self.slots[slot].1.store(0, Ordering::SeqCst);
        self.calls.fetch_add(1, Ordering::Relaxed);
        r
    }
    fn watchdog(self: &Arc<Self>) {
        let me = self.clone();
        std::thread::spawn(move || loop {
            std::thread::sleep(Duration::from_millis(200));
            let now = me.epoch.elapsed().as_millis() as u64;
            for (i, (what, started)) in me.slots.iter().enumerate() {
                let s = started.load(Ordering::SeqCst);
                if s != 0 && now > s + CALL_LIMIT_S * 1000 {
                    println!("HANG call={} thread={i} running_ms={}", what.lock().unwrap(), now - s);
                    use std::io::Write;
                    let _ = std::io::stdout().flush();
                    unsafe { libc::_exit(3) }
                }
            }
        });
    }
}

struct Failing {
    from: u64,
    n: AtomicU64,
}
impl Observer for Failing {
    fn write(&self, _fd: i32, _o: u64, _d: &[u8], _r: bool) -> Decision {
        if self.n.fetch_add(1, Ordering::SeqCst) >= self.from { Decision::FailBefore } else { Decision::Proceed }
    }
    fn fsync(&self, _fd: i32) -> Decision {
        if self.n.fetch_add(1, Ordering::SeqCst) >= self.from { Decision::FailBefore } else { Decision::Proceed }
    }
    fn fsync_done(&self, _fd: i32, _ok: bool) {}
}

/// every write of a record into the data area fails, for ever; journal, marker and metadata writes and
/// fsyncs work: batches fail, their scrub succeeds, nothing poisons the device -- the retryable kind
/// of failure that the final flush of a drop keeps retrying (a bounded number of times)
struct Stubborn;
/// failing record writes still to come (the drop arms a bounded number: enough for two dozen
/// retries of the final flush, few enough to finish in a fraction of a second)
static STUBBORN_LEFT: AtomicU64 = AtomicU64::new(u64::MAX);
impl Observer for Stubborn {
    fn write(&self, _fd: i32, o: u64, d: &[u8], _r: bool) -> Decision {
        if o >= 16 * 4096 && d.len() >= 2 && d[0] == 0xCD && d[1] == 0xAB {
            let left = STUBBORN_LEFT.load(Ordering::SeqCst);
            if left == 0 {
                return Decision::Proceed;
            }
            if left != u64::MAX {
                STUBBORN_LEFT.fetch_sub(1, Ordering::SeqCst);
            }
            Decision::FailBefore
        } else {
            Decision::Proceed
        }
    }
    fn fsync(&self, _fd: i32) -> Decision {
        Decision::Proceed
    }
    fn fsync_done(&self, _fd: i32, _ok: bool) {}
}

pub fn termchild(opts: &Opts) -> i32 {
    let scenario = opts.str("scenario", "flushers");
    let seed = opts.u64("seed", 1);
    let path = opts.str("path", "/verif/.build/cases/term/dev/t.feox");
    let mut rng = Rng::new(seed);
    let _ = std::fs::remove_file(&path);
    let nthreads = rng.range(3, 8) as usize;
    let beat = Beat::new(nthreads + 1);
    beat.watchdog();
    let blocks = match scenario.as_str() {
        "full" => rng.range(24, 40),
        _ => rng.range(256, 2048),
    };
    if scenario == "stubborn" {
        feoxdb::verif::dev::set_force_sync_path(true);
        feoxdb::verif::dev::install(Some(Arc::new(Stubborn)));
    }
    if scenario == "failing" {
        feoxdb::verif::dev::set_force_sync_path(rng.chance(1, 2));
        feoxdb::verif::dev::install(Some(Arc::new(Failing { from: rng.range(5, 200), n: AtomicU64::new(0) })));
    }
    let ttl = scenario == "sweeper" || scenario == "ttlchain" || rng.chance(1, 3);
    let store = match FeoxStore::builder()
        .hash_bits(8)
        .no_memory_limit()
        .enable_ttl(ttl)
        .device_path(path.clone())
        .file_size(blocks * 4096)
        .enable_caching(scenario != "ttlchain" && rng.chance(1, 2))
        .build()
    {
        Ok(s) => Arc::new(s),
        Err(e) => {
            println!("done open-failed {e}");
            return 0;
        }
    };
    if scenario == "sweeper" {
        store.start_ttl_sweeper(None);
    }
    let stop = Arc::new(AtomicBool::new(false));
    let nkeys = rng.range(2, 40);
    let mut handles = Vec::new();
    let budget_ms = rng.range(400, 1500);
    for t in 0..nthreads {
        let store = store.clone();
        let beat = beat.clone();
        let stop = stop.clone();
        let mut rng = rng.fork();
        let scenario = scenario.clone();
        handles.push(std::thread::spawn(move || {
            let flusher = scenario == "flushers" && t % 2 == 0;
            while !stop.load(Ordering::Relaxed) {
                let k = format!("tk{}", rng.below(nkeys)).into_bytes();
                let v = vec![b'x'; rng.range(10, 9000) as usize];
                if flusher {
                    let _ = beat.call(t, "flush", || store.flush());
                    continue;
                }
                if scenario == "ttlchain" {
                    // TTL-only rewrites stacked on values that live only on the device, read back
                    // before the next flush (chains of deferred generations)
                    match rng.below(10) {
                        0 => {
                            let _ = beat.call(t, "insert", || store.insert(&k, &v));
                            let _ = beat.call(t, "flush", || store.flush());
                        }
                        1..=4 => {
                            let _ = beat.call(t, "update_ttl", || store.update_ttl(&k, 3600));
                        }
                        5 => {
                            let _ = beat.call(t, "persist", || store.persist(&k));
                        }
                        6 | 7 => {
                            let _ = beat.call(t, "get", || store.get(&k));
                        }
                        8 => {
                            let _ = beat.call(t, "range_query", || store.range_query(b"tk", b"tk~", 50));
                        }
                        _ => {
                            let _ = beat.call(t, "get_ttl", || store.get_ttl(&k));
                        }
                    }
                    continue;
                }
                match rng.below(12) {
                    0..=4 => {
                        let _ = beat.call(t, "insert", || store.insert(&k, &v));
                    }
                    5 => {
                        let _ = beat.call(t, "delete", || store.delete(&k));
                    }
                    6 | 7 => {
                        let _ = beat.call(t, "get", || store.get(&k));
                    }
                    8 => {
                        let _ = beat.call(t, "range_query", || store.range_query(b"tk", b"tk~", 50));
                    }
                    9 => {
                        let _ = beat.call(t, "flush", || store.flush());
                    }
                    10 if ttl => {
                        if rng.chance(1, 2) {
                            let _ = beat.call(t, "insert_with_ttl", || store.insert_with_ttl(&k, &v, 1));
                        } else {
                            // expired on arrival (expiry in 1970) and, without a sweeper, never removed: every later
                            // range query over the key space walks across it
                            let ek = format!("tk-e{}", rng.below(4)).into_bytes();
                            let _ = beat.call(t, "insert_expired", || store.insert_with_ttl_and_timestamp(&ek, b"gone", 1, Some(2000)));
                        }
                    }
                    _ => {
                        let _ = beat.call(t, "atomic_increment", || store.atomic_increment(b"tk-counter", 1));
                    }
                }
            }
        }));
    }
    std::thread::sleep(Duration::from_millis(budget_ms));
    stop.store(true, Ordering::Relaxed);
    for h in handles {
        let _ = h.join();
    }
    // shutdown with work pending: the drop must come back
    let _ = beat.call(nthreads, "insert-before-drop", || store.insert(b"tk-last", &vec![b'z'; 5000]));
    let store = Arc::try_unwrap(store).ok();
    if scenario == "stubborn" {
        STUBBORN_LEFT.store(600, Ordering::SeqCst);
    }
    beat.call(nthreads, "drop", || drop(store));
    println!("done calls={}", beat.calls.load(Ordering::Relaxed));
    use std::io::Write;
    let _ = std::io::stdout().flush();
    let _ = std::fs::remove_file(&path);
    unsafe { libc::_exit(0) }
}

pub fn run(opts: &Opts) -> i32 {
    let dir = opts.str("out", "/verif/.build/cases/term");
    let seed = opts.u64("seed", 1);
    let shards = opts.u64("shards", 16);
    let n = opts.u64("n", if opts.thorough() { 40 } else { 2 });
    std::fs::create_dir_all(format!("{dir}/dev")).unwrap();
    let mut handles = Vec::new();
    for sh in 0..shards {
        let dir = dir.clone();
        handles.push(std::thread::spawn(move || {
            let mut out = Out::new(&dir, &format!("s{sh}"));
            let mut rng = Rng::new(seed.wrapping_mul(131_071).wrapping_add(sh));
            let mut calls = 0u64;
            for i in 0..n {
                let scenario = ["flushers", "full", "failing", "sweeper", "mixed", "ttlchain", "stubborn"][((sh + i) % 7) as usize];
                let cseed = rng.next() % 1_000_000_007;
                let line = run_child(
                    &["termchild".into(), format!("scenario={scenario}"), format!("seed={cseed}"), format!("path={dir}/dev/t{sh}.feox")],
                    270,
                )
                .unwrap_or_else(|| "SPAWN-FAILED".into());
                let last = line.lines().last().unwrap_or("").to_string();
                let verdict = if last.starts_with("done") {
                    calls += last.split("calls=").nth(1).and_then(|x| x.parse::<u64>().ok()).unwrap_or(0);
                    "ok".to_string()
                } else if last.starts_with("HANG") {
                    format!("FAIL a-call-did-not-return-within-{CALL_LIMIT_S}s {last} scenario={scenario} seed={cseed}")
                } else {
                    format!("FAIL workload-did-not-finish ({}) scenario={scenario} seed={cseed}", last.chars().take(80).collect::<String>())
                };
                out.emit3(&format!("note term scenario={scenario} seed={cseed}"), "note", &verdict);
            }
            (out.finish(), calls)
        }));
    }
    let mut total = 0;
    let mut calls = 0;
    for h in handles {
        let (a, b) = h.join().unwrap();
        total += a;
        calls += b;
    }
    std::fs::write(format!("{dir}/stats.json"), format!("{{\"watched_calls\": {calls}}}")).unwrap();
    println!("term: {total} scenarios, {calls} calls");
    0
}
