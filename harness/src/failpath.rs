//! C09 / C05 (T-eq for Model.FailPath): one shard's write path under device failures.  The
//! periodic coordinator is paused (hook H11) and the pwrite path forced, so the device calls of
//! every flush() are numbered deterministically; an observer (H1/H2) fails the calls a random
//! plan names.  After every flush the result class, the allocator's statistics, the disk-usage
//! counter, the set of published records with their sectors and the number of device calls made
//! are compared with `Model.FailPath.flush` run on the same plan.  Oracle independent of the
//! model: every accepted key stays readable with its value whatever failed, and a flush that
//! returned Ok left every key accepted before it published.
use crate::img::run_child;
use crate::util::{Opts, Out, Rng};
use feoxdb::storage::format::get_format;
use feoxdb::verif::dev::{Decision, Observer};
use feoxdb::{FeoxError, FeoxStore};
use std::collections::BTreeMap;
use std::sync::atomic::{AtomicBool, AtomicU64, Ordering};
use std::sync::{Arc, Mutex};

struct Plan {
    armed: AtomicBool,
    calls: AtomicU64,
    fail: Mutex<BTreeMap<u64, bool>>, // index -> fail after?
    /// burst cases: fail the k-th write into the allocation journal (blocks 1..=6), once
    journal_k: Mutex<Option<u64>>,
    journal_seen: AtomicU64,
    /// key-fail cases: every write whose payload holds this key fails (before the bytes reach the file)
    refuse_key: Mutex<Option<Vec<u8>>>,
    refused: AtomicU64,
}

impl Plan {
    fn decide_write(&self, offset: u64) -> Decision {
        if self.armed.load(Ordering::SeqCst) && (4096..7 * 4096).contains(&offset) {
            let n = self.journal_seen.fetch_add(1, Ordering::SeqCst);
            let mut k = self.journal_k.lock().unwrap();
            if *k == Some(n) {
                *k = None;
                self.calls.fetch_add(1, Ordering::SeqCst);
                return Decision::FailBefore;
            }
        }
        self.decide()
    }
    fn decide(&self) -> Decision {
        if !self.armed.load(Ordering::SeqCst) {
            return Decision::Proceed;
        }
        let i = self.calls.fetch_add(1, Ordering::SeqCst);
        match self.fail.lock().unwrap().get(&i) {
            Some(true) => Decision::FailAfter,
            Some(false) => Decision::FailBefore,
            None => Decision::Proceed,
        }
    }
}

impl Observer for Plan {
    fn write(&self, _fd: i32, offset: u64, data: &[u8], _ring: bool) -> Decision {
        if let Some(key) = self.refuse_key.lock().unwrap().as_ref() {
            if data.windows(key.len()).any(|w| w == key.as_slice()) {
                self.refused.fetch_add(1, Ordering::SeqCst);
                return Decision::FailBefore;
            }
            return Decision::Proceed;
        }
        self.decide_write(offset)
    }
    fn fsync(&self, _fd: i32) -> Decision {
        self.decide()
    }
    fn fsync_done(&self, _fd: i32, _ok: bool) {}
}

fn class(r: &Result<(), FeoxError>) -> String {
    match r {
        Ok(()) => "ok".into(),
        Err(FeoxError::IoError(_)) => "io".into(),
        Err(FeoxError::IndeterminateWrite(_)) => "indet".into(),
        Err(FeoxError::OutOfSpace) => "space".into(),
        Err(e) => format!("other:{e}").replace(' ', "_"),
    }
}

fn value_of(id: u64, len: usize) -> Vec<u8> {
    let mut v = format!("fp{id:05}:").into_bytes();
    v.resize(len, b'a' + (id % 26) as u8);
    v
}

/// Oracle-only case: thousands of one-block inserts pile up behind the buffer-full trigger, so that a
/// worker's pass spans several journal batches; one journal write fails once.  Flush until it
/// answers Ok: then every accepted key must be published and readable.
fn burst_case(rng: &mut Rng, case: u64, dir: &str, plan: &Arc<Plan>) -> (String, String, String) {
    let path = format!("{dir}/dev/fpb_{}_{case}.feox", std::process::id());
    let _ = std::fs::remove_file(&path);
    plan.armed.store(false, Ordering::SeqCst);
    plan.calls.store(0, Ordering::SeqCst);
    plan.fail.lock().unwrap().clear();
    plan.journal_seen.store(0, Ordering::SeqCst);
    let n = rng.range(9_000, 14_000);
    let store = match FeoxStore::builder().device_path(path.clone()).file_size((n + 600) * 4096 + 4000 * 4096).hash_bits(12).enable_caching(false).no_memory_limit().build() {
        Ok(s) => s,
        Err(e) => return ("note failpath-burst".into(), "note".into(), format!("FAIL cannot-create-store {e}")),
    };
    // half of the bursts run without any failure: a flush() that races with the passes the
    // buffer-full trigger started must still wait for them
    let k = if rng.chance(1, 2) { 999_999 } else { rng.below(24) };
    *plan.journal_k.lock().unwrap() = Some(k);
    plan.armed.store(true, Ordering::SeqCst);
    // "tail" variant: all keys in one shard and only a few more than the buffer-full threshold, so
    // that the pass the trigger starts drains the whole shard and is still writing when flush() comes
    let tail = rng.chance(1, 2);
    let n = if tail { 1024 + rng.below(30) } else { n };
    let keys: Vec<Vec<u8>> = if tail {
        let mut v = Vec::new();
        let mut shard = None;
        let mut i = 0u64;
        while (v.len() as u64) < n {
            let key = format!("tail{i:07}").into_bytes();
            i += 1;
            let sh = store.verif_write_shard(&key).map(|t| t.0);
            if shard.is_none() {
                shard = sh;
            }
            if sh == shard {
                v.push(key);
            }
        }
        v
    } else {
        (0..n).map(|i| format!("burst{i:06}").into_bytes()).collect()
    };
    let mut verdict = "ok".to_string();
    for (i, key) in keys.iter().enumerate() {
        // tail variant: three-block values make the pass's serialisation phase last milliseconds
        if let Err(e) = store.insert(key, &value_of(i as u64, if tail { 11_000 } else { 100 })) {
            verdict = format!("FAIL insert-refused {e}");
            break;
        }
    }
    if tail {
        // give the triggered pass time to drain the shard: flush() must then wait for a worker whose
        // shard looks empty but whose entries are not written yet
        let wait = std::time::Duration::from_micros(rng.range(100, 2500));
        let t0 = std::time::Instant::now();
        while t0.elapsed() < wait {
            std::hint::spin_loop();
        }
    }
    let mut results = Vec::new();
    let mut flushed_at_ack = u64::MAX;
    for _ in 0..6 {
        let r = store.flush();
        if r.is_ok() {
            // read at once: a pass that flush() did not wait for finishes within milliseconds
            flushed_at_ack = store.stats().writes_flushed;
        }
        results.push(class(&r));
        if r.is_ok() {
            break;
        }
    }
    if verdict == "ok" && flushed_at_ack < n {
        verdict = format!("FAIL flush-returned-Ok-while-{}-of-{n}-accepted-writes-had-not-been-written", n - flushed_at_ack);
    }
    if verdict == "ok" {
        if results.last().map(|s| s.as_str()) != Some("ok") {
            if !results.iter().any(|r| r == "indet") {
                verdict = format!("FAIL flush-keeps-failing-after-a-single-transient-failure results={results:?}");
            }
        } else {
            let snap = store.verif_snapshot();
            let published: std::collections::HashSet<&[u8]> = snap.iter().filter(|x| x.sector != 0).map(|x| x.key.as_slice()).collect();
            let missing = keys.iter().filter(|k| !published.contains(k.as_slice())).count();
            if missing > 0 {
                verdict = format!("FAIL flush-returned-Ok-but-{missing}-of-{n}-accepted-keys-are-not-on-the-device journal-write={k}");
            }
        }
    }
    plan.armed.store(false, Ordering::SeqCst);
    *plan.journal_k.lock().unwrap() = None;
    let seen = plan.journal_seen.load(Ordering::SeqCst);
    drop(store);
    let _ = std::fs::remove_file(&path);
    (format!("note failpath-burst tail={} n={n} failing-journal-write={k} journal-writes={seen} flushes={}", tail as u8, results.join(",")), "note".into(), verdict)
}

fn one_case(rng: &mut Rng, case: u64, dir: &str, plan: &Arc<Plan>) -> (String, String, String) {
    let path = format!("{dir}/dev/fp_{}_{case}.feox", std::process::id());
    let _ = std::fs::remove_file(&path);
    plan.armed.store(false, Ordering::SeqCst);
    plan.calls.store(0, Ordering::SeqCst);
    plan.fail.lock().unwrap().clear();
    let tight = rng.chance(1, 4);
    let blocks = if tight { 16 + rng.range(2, 8) } else { 16 + rng.range(20, 200) };
    let store = match FeoxStore::builder().device_path(path.clone()).file_size(blocks * 4096).hash_bits(6).enable_caching(false).no_memory_limit().build() {
        Ok(s) => s,
        Err(e) => return ("note failpath".into(), "note".into(), format!("FAIL cannot-create-store {e}")),
    };
    let format = get_format(3);
    // the failing calls, chosen up front over the first calls of the run
    let density = *rng.pick(&[0u64, 8, 15, 30]);
    let horizon = 90;
    let mut failing = Vec::new();
    for i in 0..horizon {
        if density > 0 && rng.below(100) < density {
            let after = rng.chance(1, 2);
            plan.fail.lock().unwrap().insert(i, after);
            failing.push(i.to_string());
        }
    }
    let mut case_text = format!("fp {} F{}", blocks * 4096, failing.join(","));
    let mut lines = Vec::new();
    let mut verdict = "ok".to_string();
    let mut accepted: Vec<(u64, Vec<u8>, Vec<u8>)> = Vec::new();
    let mut next_id = 1u64;
    let mut shard: Option<usize> = None;
    plan.armed.store(true, Ordering::SeqCst);
    for _round in 0..rng.range(1, 5) {
        for _ in 0..rng.range(0, 3) {
            // a key of this run's shard
            let (id, key) = loop {
                let id = next_id;
                next_id += 1;
                let key = format!("fpk{id:05}").into_bytes();
                let sh = store.verif_write_shard(&key).map(|t| t.0);
                if shard.is_none() {
                    shard = sh;
                }
                if sh == shard {
                    break (id, key);
                }
            };
            let want = rng.range(1, 3) as usize;
            let vlen = want * 4096 - 100 - rng.below(3000) as usize;
            let value = value_of(id, vlen);
            let nblocks = format.total_size(key.len(), value.len()).div_ceil(4096);
            match store.insert(&key, &value) {
                Ok(_) => {
                    case_text.push_str(&format!(" E{id},{nblocks}"));
                    accepted.push((id, key, value));
                }
                Err(e) => verdict = format!("FAIL insert-refused {e}"),
            }
        }
        // delete some published keys: their extents go through the retirement path of this flush
        let snap0 = store.verif_snapshot();
        let mut i = 0;
        while i < accepted.len() {
            let published = snap0.iter().any(|x| x.key == accepted[i].1 && x.sector != 0);
            if published && rng.chance(1, 3) {
                match store.delete(&accepted[i].1) {
                    Ok(()) => {
                        case_text.push_str(&format!(" R{}", accepted[i].0));
                        accepted.remove(i);
                        continue;
                    }
                    Err(e) => verdict = format!("FAIL delete-refused {e}"),
                }
            }
            i += 1;
        }
        let r = store.flush();
        case_text.push_str(" X");
        // H15: after a pass, failed or not, every shard's counter is the length of its queue
        if verdict == "ok" {
            if let Some((i, (queue, count))) = store.verif_shard_backlog().into_iter().enumerate().find(|(_, (q, c))| q != c) {
                verdict = format!("FAIL shard-counter-differs-from-its-queue shard={i} queued={queue} counter={count} flush={}", class(&r));
            }
        }
        let (tf, chunks, largest, _frag) = store.verif_free_stats();
        let snap = store.verif_snapshot();
        let mut durable: Vec<String> = Vec::new();
        for (id, key, value) in &accepted {
            let rec = snap.iter().find(|x| &x.key == key);
            match rec {
                Some(x) if x.sector != 0 => durable.push(format!("{id}:{}", x.sector)),
                Some(_) => {
                    if r.is_ok() && verdict == "ok" {
                        verdict = format!("FAIL flush-returned-Ok-but-a-key-accepted-before-it-is-not-on-the-device id={id}");
                    }
                }
                None => {
                    if verdict == "ok" {
                        verdict = format!("FAIL accepted-key-vanished-from-the-index id={id}");
                    }
                }
            }
            match store.get(key) {
                Ok(v) if &v == value => {}
                Ok(_) => {
                    if verdict == "ok" {
                        verdict = format!("FAIL read-returned-other-bytes-after-a-device-failure id={id}");
                    }
                }
                Err(e) => {
                    if verdict == "ok" {
                        verdict = format!("FAIL accepted-key-unreadable-after-a-device-failure id={id} error={e}");
                    }
                }
            }
        }
        durable.sort();
        lines.push(format!(
            "r={} free={},{},{} usage={} durable={} calls={}",
            class(&r),
            tf,
            chunks,
            largest,
            store.verif_disk_usage() / 4096,
            durable.join(","),
            plan.calls.load(Ordering::SeqCst)
        ));
    }
    plan.armed.store(false, Ordering::SeqCst);
    drop(store);
    let _ = std::fs::remove_file(&path);
    (case_text, lines.join(" | "), verdict)
}

/// A pass that spans several journal transactions (T-eq with Model.FailBatches): the buffer-full
/// trigger is paused (H16), so 1030-2300 entries of one shard wait in the queue and the flush the
/// harness calls drains them in one pass of two or three batches.  Device calls are failed around
/// the batch boundaries; flush is repeated a few times.
fn big_case(rng: &mut Rng, case: u64, dir: &str, plan: &Arc<Plan>) -> (String, String, String) {
    let path = format!("{dir}/dev/fpb_{}_{case}.feox", std::process::id());
    let _ = std::fs::remove_file(&path);
    plan.armed.store(false, Ordering::SeqCst);
    plan.calls.store(0, Ordering::SeqCst);
    plan.fail.lock().unwrap().clear();
    let n = *rng.pick(&[1025u64, 1030, 1100, 2047, 2048, 2050, 2300]);
    let blocks = 16 + n * 2 + 64;
    let store = match FeoxStore::builder().device_path(path.clone()).file_size(blocks * 4096).hash_bits(10).enable_caching(false).no_memory_limit().build() {
        Ok(s) => s,
        Err(e) => return ("note failpath-big".into(), "note".into(), format!("FAIL cannot-create-store {e}")),
    };
    let format = get_format(3);
    // failing calls: a batch of b entries issues intent (2 calls), b record writes, one fsync, clear (2)
    let mut failing = Vec::new();
    let per_batch = |b: u64| b + 5;
    let first = per_batch(1024);
    let spots = [0u64, 1, 2, 500, 1025, 1026, 1027, 1028, first, first + 1, first + 2, first + 3, first + 10, 2 * first, 2 * first + 1, 2 * first + 2, 2 * first + 40];
    for _ in 0..rng.range(0, 3) {
        let at = if rng.chance(3, 4) { *rng.pick(&spots) } else { rng.below(n + 40) };
        let after = rng.chance(1, 2);
        plan.fail.lock().unwrap().insert(at, after);
        failing.push(at.to_string());
    }
    let mut case_text = format!("fpb {} F{}", blocks * 4096, failing.join(","));
    let mut lines = Vec::new();
    let mut verdict = "ok".to_string();
    feoxdb::verif::dev::set_full_trigger_paused(true);
    let mut shard: Option<usize> = None;
    let mut next_id = 1u64;
    let mut accepted: Vec<(u64, Vec<u8>)> = Vec::new();
    while (accepted.len() as u64) < n {
        let id = next_id;
        next_id += 1;
        let key = format!("fpb{id:06}").into_bytes();
        let sh = store.verif_write_shard(&key).map(|t| t.0);
        if shard.is_none() {
            shard = sh;
        }
        if sh != shard {
            continue;
        }
        let want = if rng.chance(1, 12) { 2 } else { 1 };
        let value = value_of(id, want * 4096 - 100 - rng.below(3000) as usize);
        let nblocks = format.total_size(key.len(), value.len()).div_ceil(4096);
        match store.insert(&key, &value) {
            Ok(_) => {
                case_text.push_str(&format!(" E{id},{nblocks}"));
                accepted.push((id, key));
            }
            Err(e) => verdict = format!("FAIL insert-refused {e}"),
        }
    }
    plan.armed.store(true, Ordering::SeqCst);
    for _ in 0..rng.range(1, 3) {
        let r = store.flush();
        case_text.push_str(" X");
        if verdict == "ok" {
            if let Some((i, (queue, count))) = store.verif_shard_backlog().into_iter().enumerate().find(|(_, (q, c))| q != c) {
                verdict = format!("FAIL shard-counter-differs-from-its-queue shard={i} queued={queue} counter={count} flush={}", class(&r));
            }
        }
        let (tf, chunks, largest, _frag) = store.verif_free_stats();
        let snap = store.verif_snapshot();
        let by_key: std::collections::HashMap<&[u8], u64> = snap.iter().map(|x| (x.key.as_slice(), x.sector)).collect();
        let mut durable: Vec<String> = Vec::new();
        let mut unwritten = 0u64;
        for (id, key) in &accepted {
            match by_key.get(key.as_slice()) {
                Some(0) => unwritten += 1,
                Some(s) => durable.push(format!("{id}:{s}")),
                None => {
                    if verdict == "ok" {
                        verdict = format!("FAIL accepted-key-vanished-from-the-index id={id}");
                    }
                }
            }
        }
        if r.is_ok() && unwritten > 0 && verdict == "ok" {
            verdict = format!("FAIL flush-returned-Ok-but-{unwritten}-keys-accepted-before-it-are-not-on-the-device");
        }
        durable.sort();
        lines.push(format!(
            "r={} free={},{},{} usage={} durable={} calls={}",
            class(&r),
            tf,
            chunks,
            largest,
            store.verif_disk_usage() / 4096,
            durable.join(","),
            plan.calls.load(Ordering::SeqCst)
        ));
    }
    plan.armed.store(false, Ordering::SeqCst);
    feoxdb::verif::dev::set_full_trigger_paused(false);
    drop(store);
    let _ = std::fs::remove_file(&path);
    (case_text, lines.join(" | "), verdict)
}

/// Oracle-only case (C09, several workers): the device refuses every write of ONE key's record
/// while everything else -- the other keys' records, journal, markers, metadata, every fsync --
/// goes through, and the periodic flusher and the other shards' workers keep running healthy
/// passes.  The key's new generation (a TTL renewal of an offloaded value, a TTL removal, or a
/// replacement) is accepted in memory and cannot be written.  Then: flush() reports the failure;
/// reads return the accepted value; a copy of the device as it stands still recovers a generation
/// of the key (the durable one is not destroyed while its successor cannot be written); once the
/// device accepts the record again, flush() succeeds and a copy of the device recovers the
/// accepted state.
fn keyfail_case(rng: &mut Rng, case: u64, dir: &str, plan: &Arc<Plan>) -> (String, String, String) {
    let path = format!("{dir}/dev/fpk_{}_{case}.feox", std::process::id());
    let copy = format!("{dir}/dev/fpk_{}_{case}.copy", std::process::id());
    let _ = std::fs::remove_file(&path);
    plan.armed.store(false, Ordering::SeqCst);
    plan.refused.store(0, Ordering::SeqCst);
    *plan.refuse_key.lock().unwrap() = None;
    let kind = *rng.pick(&["renew-ttl", "renew-ttl", "persist", "replace", "replace-ttl"]);
    let store = match FeoxStore::builder().device_path(path.clone()).file_size(8 << 20).enable_ttl(true).enable_caching(rng.chance(1, 4)).no_memory_limit().build() {
        Ok(s) => s,
        Err(e) => return ("note failpath-keyfail".into(), "note".into(), format!("FAIL cannot-create-store {e}")),
    };
    let victim = format!("victim/{case}/refused-record-key").into_bytes();
    let vlen = rng.range(200, 9000) as usize;
    let old = value_of(case, vlen);
    let mut verdict = "ok".to_string();
    let fail = |v: &mut String, why: String| {
        if v == "ok" {
            *v = why;
        }
    };
    let r0 = if kind == "persist" { store.insert_with_ttl(&victim, &old, 3600) } else { store.insert(&victim, &old) };
    if let Err(e) = r0 {
        fail(&mut verdict, format!("FAIL insert-refused {e}"));
    }
    for i in 0..rng.range(0, 20) {
        let _ = store.insert(format!("before/{case}/{i:03}").as_bytes(), b"some-value");
    }
    if let Err(e) = store.flush() {
        fail(&mut verdict, format!("FAIL fault-free-flush-failed {e}"));
    }
    // the periodic flusher and the other workers run while the victim's record is refused
    feoxdb::verif::dev::set_periodic_flush_paused(false);
    *plan.refuse_key.lock().unwrap() = Some(victim.clone());
    let mut latest = old.clone();
    let op = match kind {
        "renew-ttl" => store.update_ttl(&victim, 3600).map(|_| ()),
        "persist" => store.persist(&victim).map(|_| ()),
        "replace" => {
            latest = value_of(case + 1_000_000, rng.range(200, 9000) as usize);
            store.insert(&victim, &latest).map(|_| ())
        }
        _ => {
            latest = value_of(case + 2_000_000, rng.range(200, 9000) as usize);
            store.insert_with_ttl(&victim, &latest, 3600).map(|_| ())
        }
    };
    if let Err(e) = op {
        fail(&mut verdict, format!("FAIL operation-refused kind={kind} {e}"));
    }
    let first = store.flush();
    if first.is_ok() {
        fail(&mut verdict, format!("FAIL flush-returned-Ok-while-the-record-of-an-accepted-write-was-refused kind={kind} refused={}", plan.refused.load(Ordering::SeqCst)));
    }
    let waves = rng.range(2, 5);
    for wave in 0..waves {
        for i in 0..rng.range(8, 40) {
            let _ = store.insert(format!("filler/{case}/{wave}/{i:03}").as_bytes(), b"filler-value");
        }
        std::thread::sleep(std::time::Duration::from_millis(rng.range(120, 320)));
        if rng.chance(1, 3) {
            let _ = store.flush();
        }
    }
    match store.get(&victim) {
        Ok(v) if v == latest => {}
        Ok(_) => fail(&mut verdict, format!("FAIL read-returned-other-bytes-while-the-record-is-refused kind={kind}")),
        Err(e) => fail(&mut verdict, format!("FAIL accepted-key-unreadable-while-its-record-is-refused kind={kind} error={e}").replace(": ", "=")),
    }
    let recover = |what: &str, want: &[&Vec<u8>], v: &mut String| {
        if std::fs::copy(&path, &copy).is_err() {
            return;
        }
        match FeoxStore::builder().device_path(copy.clone()).enable_ttl(true).enable_caching(false).build() {
            Ok(r) => {
                match r.get(&victim) {
                    Ok(found) if want.iter().any(|w| **w == found) => {}
                    Ok(_) => {
                        if v == "ok" {
                            *v = format!("FAIL {what}-recovers-other-bytes-for-the-key kind={kind}");
                        }
                    }
                    Err(e) => {
                        if v == "ok" {
                            *v = format!("FAIL {what}-has-lost-the-key kind={kind} error={e}").replace(": ", "=");
                        }
                    }
                }
                drop(r);
            }
            Err(e) => {
                if v == "ok" {
                    *v = format!("FAIL {what}-does-not-open kind={kind} error={e}").replace(": ", "=");
                }
            }
        }
        let _ = std::fs::remove_file(&copy);
    };
    // a copy of a file that is being written is not a crash image: hold the periodic flusher and
    // let the passes in flight finish (this flush fails like the first one) before copying
    feoxdb::verif::dev::set_periodic_flush_paused(true);
    let _ = store.flush();
    recover("the-device-as-it-stands-during-the-failure", &[&old, &latest], &mut verdict);
    feoxdb::verif::dev::set_periodic_flush_paused(false);
    // the device accepts the record again
    *plan.refuse_key.lock().unwrap() = None;
    let mut healed = Vec::new();
    for _ in 0..4 {
        let r = store.flush();
        healed.push(class(&r));
        if r.is_ok() {
            break;
        }
    }
    if healed.last().map(|s| s.as_str()) != Some("ok") {
        fail(&mut verdict, format!("FAIL flush-keeps-failing-after-the-device-recovered kind={kind} results={healed:?}").replace(' ', ""));
    } else {
        match store.verif_snapshot().iter().find(|x| x.key == victim) {
            Some(x) if x.sector != 0 => {}
            _ => fail(&mut verdict, format!("FAIL flush-returned-Ok-but-the-accepted-generation-is-not-on-the-device kind={kind}")),
        }
        match store.get(&victim) {
            Ok(v) if v == latest => {}
            _ => fail(&mut verdict, format!("FAIL accepted-value-unreadable-after-the-device-recovered kind={kind}")),
        }
        recover("the-device-after-the-successful-flush", &[&latest], &mut verdict);
    }
    let refused = plan.refused.load(Ordering::SeqCst);
    feoxdb::verif::dev::set_periodic_flush_paused(true);
    drop(store);
    let _ = std::fs::remove_file(&path);
    (format!("note failpath-keyfail kind={kind} vlen={vlen} waves={waves} refused-writes={refused} first-flush={} healed={}", class(&first), healed.join(",")), "note".into(), verdict)
}

pub fn child(opts: &Opts) -> i32 {
    let dir = opts.str("out", "/verif/.build/cases/failpath");
    let sh = opts.u64("shard", 0);
    let seed = opts.u64("seed", 1);
    let n = opts.u64("n", 20);
    let burst_every = opts.u64("burst_every", 12).max(1);
    std::fs::create_dir_all(format!("{dir}/dev")).unwrap();
    let plan = Arc::new(Plan { armed: AtomicBool::new(false), calls: AtomicU64::new(0), fail: Mutex::new(BTreeMap::new()), journal_k: Mutex::new(None), journal_seen: AtomicU64::new(0), refuse_key: Mutex::new(None), refused: AtomicU64::new(0) });
    feoxdb::verif::dev::set_force_sync_path(true);
    feoxdb::verif::dev::set_periodic_flush_paused(true);
    feoxdb::verif::dev::install(Some(plan.clone()));
    let mut out = Out::new(&dir, &format!("s{sh}"));
    let mut rng = Rng::new(seed.wrapping_mul(40_503).wrapping_add(sh * 65_537));
    for case in 0..n {
        let big_every = opts.u64("big_every", 0);
        let keyfail_every = opts.u64("keyfail_every", 0);
        let (c, l, v) = if keyfail_every > 0 && case % keyfail_every == keyfail_every / 2 {
            keyfail_case(&mut rng, case, &dir, &plan)
        } else if big_every > 0 && case % big_every == big_every - 1 {
            big_case(&mut rng, case, &dir, &plan)
        } else if case % burst_every == burst_every - 1 {
            burst_case(&mut rng, case, &dir, &plan)
        } else {
            one_case(&mut rng, case, &dir, &plan)
        };
        out.emit3(&c, &l, &v);
    }
    let total = out.finish();
    println!("cases={total}");
    0
}

pub fn run(opts: &Opts) -> i32 {
    let dir = opts.str("out", "/verif/.build/cases/failpath");
    let seed = opts.u64("seed", 1);
    let shards = opts.u64("shards", 16);
    let n = opts.u64("n", if opts.thorough() { 1500 } else { 60 });
    let burst_every = opts.u64("burst_every", 12);
    let big_every = opts.u64("big_every", 0);
    let keyfail_every = opts.u64("keyfail_every", 0);
    let mut handles = Vec::new();
    for sh in 0..shards {
        let dir = dir.clone();
        handles.push(std::thread::spawn(move || {
            run_child(&["failpathchild".into(), format!("out={dir}"), format!("shard={sh}"), format!("seed={seed}"), format!("n={n}"), format!("burst_every={burst_every}"), format!("big_every={big_every}"), format!("keyfail_every={keyfail_every}")], 300 + n * 4)
        }));
    }
    let mut total = 0u64;
    let mut failed = 0;
    for h in handles {
        match h.join().unwrap() {
            Some(line) if line.starts_with("cases=") => total += line[6..].trim().parse::<u64>().unwrap_or(0),
            _ => failed += 1,
        }
    }
    if failed > 0 {
        let mut out = Out::new(&dir, "parent");
        out.emit3("note failpath children", "note", &format!("FAIL {failed}-child-processes-hung-or-died"));
        out.finish();
    }
    println!("cases={total}");
    0
}
