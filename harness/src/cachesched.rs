//! C16 (T-sched for Model.CacheGen layer B): the store's read / write / update_ttl paths around the
//! generation-tagged cache, step for step.  One persistent store with the cache and TTL on, two
//! keys whose values all have one length (a cache entry of a superseded generation differs from the
//! current one in identity only).  A script of calls -- put, update_ttl, delete, flush, full reads,
//! and one reader that is HELD between its device read and its return (scheduling point
//! c08_unpinned, hook H5) while other calls run -- is executed on the real store and, as the same
//! event list, by Model.CacheGen.brun with the cache on.  Every read result (which generation's
//! value, or not found), every update_ttl answer, and whether the held reader went to the device
//! must agree.
use crate::race::{key_of, parse_value, point, value_of, HELD_READER, HOLD, HOLD_CV};
use crate::util::{Opts, Out, Rng};
use feoxdb::{FeoxError, FeoxStore};
use std::sync::Arc;
use std::time::Duration;

const VLEN: usize = 5000;

fn read_result(r: Result<Vec<u8>, FeoxError>) -> String {
    match r {
        Ok(v) => match parse_value(&v) {
            Some((k, g)) => format!("{k}:{g}"),
            None => "garbage".into(),
        },
        Err(FeoxError::KeyNotFound) => "nf".into(),
        Err(e) => format!("err:{e}").replace(' ', "_"),
    }
}

fn one_case(rng: &mut Rng, dir: &str, case: u64) -> (String, String, String) {
    let path = format!("{dir}/dev/cs_{}_{case}.feox", std::process::id());
    let _ = std::fs::remove_file(&path);
    *HOLD.lock().unwrap() = (false, false);
    let store = match FeoxStore::builder().device_path(path.clone()).file_size(96 * 4096).hash_bits(6).enable_caching(true).enable_ttl(true).no_memory_limit().build() {
        Ok(s) => Arc::new(s),
        Err(e) => return ("note cachesched".into(), "note".into(), format!("FAIL cannot-create-store {e}")),
    };
    let mut events: Vec<String> = Vec::new();
    let mut results: Vec<String> = Vec::new();
    let mut verdict = "ok".to_string();
    let mut gen = [0u64; 3];
    let mut held: Option<(u64, std::thread::JoinHandle<Result<Vec<u8>, FeoxError>>)> = None;
    let mut held_used = false;
    let steps = rng.range(8, 26);
    for step in 0..steps {
        let k = rng.range(1, 2);
        let roll = rng.below(100);
        let last = step + 1 == steps;
        if let Some((hk, _)) = &held {
            // while the reader is held (it still has the device's read lock): no flush; release it sooner or later
            if last || roll < 30 {
                let (hk, h) = (*hk, held.take().unwrap().1);
                {
                    let mut g = HOLD.lock().unwrap();
                    g.1 = true;
                    HOLD_CV.notify_all();
                }
                let r = h.join().unwrap_or(Err(FeoxError::KeyNotFound));
                *HOLD.lock().unwrap() = (false, false);
                events.push(format!("R{hk}"));
                results.push(read_result(r));
                continue;
            }
        }
        match roll {
            0..=24 => {
                gen[k as usize] += 1;
                let v = value_of(k, gen[k as usize], VLEN);
                if let Err(e) = store.insert(&key_of(k), &v) {
                    verdict = format!("FAIL insert-refused {e}");
                }
                events.push(format!("P{k},{}", gen[k as usize]));
                results.push("-".into());
            }
            25..=36 => {
                let r = store.update_ttl(&key_of(k), 7200 + step);
                events.push(format!("T{k}"));
                results.push(match r {
                    Ok(()) => "ok".into(),
                    Err(FeoxError::KeyNotFound) => "nf".into(),
                    Err(e) => format!("err:{e}").replace(' ', "_"),
                });
            }
            37..=43 => {
                let r = store.delete(&key_of(k));
                events.push(format!("D{k}"));
                results.push(match r {
                    Ok(()) => "ok".into(),
                    Err(FeoxError::KeyNotFound) => "nf".into(),
                    Err(e) => format!("err:{e}").replace(' ', "_"),
                });
            }
            44..=60 if held.is_none() => {
                if let Err(e) = store.flush() {
                    verdict = format!("FAIL flush-failed {e}");
                }
                // which current generations the flush offloaded
                let snap = store.verif_snapshot();
                let mut off = Vec::new();
                for kk in 1..=2u64 {
                    if snap.iter().any(|x| x.key == key_of(kk) && !x.resident) {
                        off.push(kk.to_string());
                    }
                }
                events.push(format!("F{}", off.join("+")));
                results.push("-".into());
            }
            61..=84 if held.is_none() && !held_used => {
                // a reader that is held after its device read (if it gets that far)
                held_used = true;
                let (st, key) = (store.clone(), key_of(k));
                let h = std::thread::spawn(move || {
                    HELD_READER.with(|c| c.set(true));
                    st.get(&key)
                });
                let t0 = std::time::Instant::now();
                let mut parked = false;
                loop {
                    {
                        let g = HOLD.lock().unwrap();
                        if g.0 {
                            parked = true;
                            break;
                        }
                    }
                    if h.is_finished() || t0.elapsed() > Duration::from_secs(5) {
                        break;
                    }
                    std::thread::sleep(Duration::from_millis(2));
                }
                if parked {
                    events.push(format!("H{k}"));
                    results.push("parked".into());
                    held = Some((k, h));
                } else {
                    // served from memory or from the cache: a plain read
                    let r = h.join().unwrap_or(Err(FeoxError::KeyNotFound));
                    events.push(format!("G{k}"));
                    results.push(read_result(r));
                }
            }
            _ => {
                let r = store.get(&key_of(k));
                events.push(format!("G{k}"));
                results.push(read_result(r));
            }
        }
    }
    if let Some((hk, h)) = held.take() {
        {
            let mut g = HOLD.lock().unwrap();
            g.1 = true;
            HOLD_CV.notify_all();
        }
        let r = h.join().unwrap_or(Err(FeoxError::KeyNotFound));
        *HOLD.lock().unwrap() = (false, false);
        events.push(format!("R{hk}"));
        results.push(read_result(r));
    }
    for kk in 1..=2u64 {
        events.push(format!("G{kk}"));
        results.push(read_result(store.get(&key_of(kk))));
    }
    drop(store);
    let _ = std::fs::remove_file(&path);
    (format!("csch {}", events.join(" ")), results.join(" "), verdict)
}

pub fn child(opts: &Opts) -> i32 {
    let dir = opts.str("out", "/verif/.build/cases/cachesched");
    let sh = opts.u64("shard", 0);
    let seed = opts.u64("seed", 1);
    let n = opts.u64("n", 10);
    std::fs::create_dir_all(format!("{dir}/dev")).unwrap();
    let pcb: feoxdb::verif::sched::Callback = Arc::new(point);
    feoxdb::verif::sched::install(Some(pcb));
    let mut out = Out::new(&dir, &format!("s{sh}"));
    let mut rng = Rng::new(seed.wrapping_mul(982_451_653).wrapping_add(sh * 7919));
    for case in 0..n {
        let (c, r, v) = one_case(&mut rng, &dir, case);
        out.emit3(&c, &r, &v);
    }
    let total = out.finish();
    println!("cases={total}");
    0
}

pub fn run(opts: &Opts) -> i32 {
    let dir = opts.str("out", "/verif/.build/cases/cachesched");
    let seed = opts.u64("seed", 1);
    let shards = opts.u64("shards", 16);
    let n = opts.u64("n", if opts.thorough() { 400 } else { 12 });
    let mut handles = Vec::new();
    for sh in 0..shards {
        let dir = dir.clone();
        handles.push(std::thread::spawn(move || {
            crate::img::run_child(&["cacheschedchild".into(), format!("out={dir}"), format!("shard={sh}"), format!("seed={seed}"), format!("n={n}")], 300 + n * 10)
        }));
    }
    let mut total = 0u64;
    let mut failed = 0;
    for h in handles {
        match h.join().unwrap() {
            Some(line) if line.starts_with("cases=") => total += line[6..].trim().parse::<u64>().unwrap_or(0),
            _ => failed += 1,
        }
    }
    if failed > 0 {
        let mut out = Out::new(&dir, "parent");
        out.emit3("note cachesched children", "note", &format!("FAIL {failed}-child-processes-hung-or-died"));
        out.finish();
    }
    println!("cases={total}");
    0
}
