//! Correspondence harness: runs the real feoxdb code on generated cases and writes
//! (a) the case lines for `modelrun` and (b) the implementation's canonical results.
mod abuf;
mod cachem;
mod codec;
mod conc;
mod crash;
mod f3;
mod failpath;
mod fsm;
mod gate;
mod cgen;
mod cachesched;
mod clocksim;
mod img;
mod inflight;
mod migr;
mod mutimg;
mod partition;
mod race;
mod scansched;
mod seq;
mod sweepsched;
mod term;
mod util;

use std::env;

fn main() {
    let args: Vec<String> = env::args().collect();
    if args.len() < 2 {
        eprintln!("usage: harness <engine> [key=value ...]");
        std::process::exit(2);
    }
    let opts = util::Opts::parse(&args[2..]);
    let code = match args[1].as_str() {
        "fs" => fsm::run(&opts),
        "img" => img::run(&opts),
        "codec" => codec::run(&opts),
        "migchild" => migr::migchild(&opts),
        "migrate" => migr::run(&opts),
        "cache" => cachem::run(&opts),
        "conc" => conc::run(&opts),
        "race" => race::run(&opts),
        "scan" => race::run_scan(&opts),
        "sweep" => race::run_sweep(&opts),
        "lagfullchild" => crash::lagfull(&opts),
        "lagburstchild" => crash::lagburst(&opts),
        "sweepsched" => sweepsched::run(&opts),
        "abuf" => abuf::run(&opts),
        "abufallocchild" => abuf::allocchild(&opts),
        "gate" => gate::run(&opts),
        "cgen" => cgen::run(&opts),
        "cachesched" => cachesched::run(&opts),
        "cacheschedchild" => cachesched::child(&opts),
        "clocksim" => clocksim::run(&opts),
        "failpath" => failpath::run(&opts),
        "failpathchild" => failpath::child(&opts),
        "scansched" => scansched::run(&opts),
        "scanschedchild" => scansched::child(&opts),
        "sweepschedchild" => sweepsched::child(&opts),
        "term" => term::run(&opts),
        "termchild" => term::termchild(&opts),
        "inflight" => inflight::run(&opts),
        "asanselftest" => {
            // a deliberate heap out-of-bounds read: visible only to an instrumented build
            let v = vec![1u8; 64];
            let p = v.as_ptr();
            let x = unsafe { std::ptr::read_volatile(p.add(64 + (opts.u64("off", 0) as usize))) };
            println!("read {x}");
            0
        }
        "lag" => crash::run_lag(&opts),
        "f1" => crash::run_f1(&opts),
        "racechild" => race::racechild(&opts),
        "seq" => seq::run(&opts),
        "tracegen" => crash::tracegen(&opts),
        "crash" => crash::run(&opts),
        "partchild" => partition::partchild(&opts),
        "partition" => partition::run(&opts),
        "recrash" => crash::run_recrash(&opts),
        "fault" => crash::run_fault(&opts),
        "f3child" => f3::f3child(&opts),
        "f3" => f3::run(&opts),
        "mutimg" => mutimg::run(&opts),
        "probe" => img::probe(&opts),
        "genimg" => img::genimg(&opts),
        "reopen" => img::reopen(&opts),
        "flushimg" => img::run_flushimg(&opts),
        "golden" => img::run_golden(&opts),
        "replay" => replay(&opts),
        other => {
            eprintln!("unknown engine {other}");
            2
        }
    };
    std::process::exit(code);
}

/// Re-run one case line ("<kind> <args...>") on the implementation; prints "<result> | <oracle verdict>".
fn replay(opts: &util::Opts) -> i32 {
    let case = opts.str("case", "");
    let mut toks = case.split_whitespace();
    let kind = toks.next().unwrap_or("");
    let rest: Vec<&str> = toks.collect();
    let (res, verdict) = match kind {
        "fs" => fsm::replay(&rest),
        "open" => img::replay(&rest),
        _ => ("unknown-kind".to_string(), "".to_string()),
    };
    println!("{res} | {verdict}");
    0
}
