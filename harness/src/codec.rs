//! C10 (i): pure format functions vs the Coq codecs, through hook H3.
use crate::img::fnv1a;
use crate::util::{hex, Opts, Out, Rng};
use feoxdb::core::record::Record;
use feoxdb::storage::format::{get_format, sector_holds_record};
use feoxdb::storage::metadata::Metadata;
use feoxdb::verif::pure;

fn rand_bytes(rng: &mut Rng, len: usize) -> Vec<u8> {
    (0..len).map(|_| rng.next() as u8).collect()
}

fn exts_str(e: &[(u64, usize)]) -> String {
    if e.is_empty() {
        "-".into()
    } else {
        e.iter().map(|(a, b)| format!("{a}:{b}")).collect::<Vec<_>>().join(",")
    }
}

fn rand_sector(rng: &mut Rng) -> u64 {
    match rng.below(5) {
        0 => rng.below(100),
        1 => u64::MAX - rng.below(3),
        2 => 1 << rng.range(8, 63),
        _ => rng.next(),
    }
}

fn rand_exts(rng: &mut Rng, total: u64, valid: bool) -> Vec<(u64, usize)> {
    let n = if valid { rng.range(1, 12) } else { rng.below(8) };
    let mut v = Vec::new();
    let mut cursor = 16u64;
    for _ in 0..n {
        if valid {
            let gap = rng.below(4);
            let len = rng.range(1, 4);
            if cursor + gap + len > total {
                break;
            }
            v.push((cursor + gap, len as usize));
            cursor += gap + len;
        } else {
            let s = match rng.below(6) {
                0 => rng.below(16),
                1 => u32::MAX as u64 + rng.below(3),
                _ => rng.range(16, total + 2),
            };
            let len = match rng.below(6) {
                0 => 0,
                1 => u32::MAX as u64 + 1,
                _ => rng.range(1, 5),
            };
            v.push((s, len as usize));
        }
    }
    if valid && rng.chance(1, 2) {
        // journal order is arbitrary
        let k = v.len();
        for i in 0..k {
            let j = rng.below(k as u64) as usize;
            v.swap(i, j);
        }
    }
    v
}

// The harness's own CRC-32C (bitwise, Castagnoli reflected), used only to FIND inputs whose 16-bit
// fold is zero -- the one input class in 65536 where the "never 0" mapping of the token matters.
// The expected answers still come from the Coq model, the actual ones from /repo.
pub(crate) fn own_crc_update(mut crc: u32, c: &[u8]) -> u32 {
    for &b in c {
        crc ^= b as u32;
        for _ in 0..8 {
            crc = if crc & 1 != 0 { (crc >> 1) ^ 0x82F6_3B78 } else { crc >> 1 };
        }
    }
    crc
}
pub(crate) fn own_crc32c(chunks: &[&[u8]]) -> u32 {
    let mut crc = !0u32;
    for c in chunks {
        crc = own_crc_update(crc, c);
    }
    !crc
}
pub(crate) fn fold_is_zero(crc: u32) -> bool {
    ((crc >> 16) ^ crc) as u16 == 0
}

/// directed cases: headers, markers and whole records whose CRC folds to zero
fn fold_zero_cases(rng: &mut Rng, out: &mut Out, want: usize) {
    let mut found = 0;
    let mut tries = 0u64;
    while found < want && tries < 3_000_000 {
        tries += 1;
        let s = rand_sector(rng);
        match found % 3 {
            0 => {
                // seq_token over a short header
                let n = rng.range(4, 40) as usize;
                let d = rand_bytes(rng, n);
                if fold_is_zero(own_crc32c(&[&s.to_le_bytes(), &d])) {
                    out.emit(&format!("codec stok {s} {}", hex(&d)), &pure::seq_token(s, &d).to_string());
                    found += 1;
                }
            }
            1 => {
                // retirement marker token: bytes 0..16 and the state byte
                let mut d = rand_bytes(rng, 19);
                d[..8].copy_from_slice(b"\0DELETED");
                d[18] = *rng.pick(&[1u8, 2]);
                if fold_is_zero(own_crc32c(&[&s.to_le_bytes(), &d[..16], &d[18..19]])) {
                    out.emit(&format!("codec stok {s} {}", hex(&[&d[..16], &d[18..19]].concat())), &pure::retirement_marker_token(s, &d).to_string());
                    found += 1;
                }
            }
            _ => {
                // a v3 record image as the write path builds it (token bytes zero), then stamped
                let kl = rng.range(1, 24) as usize;
                let key = rand_bytes(rng, kl);
                let vl = rng.range(3000, 4000) as usize;
                let value = rand_bytes(rng, vl);
                let ts = rng.next() >> 8;
                let rec = Record::new_with_timestamp_ttl(key.clone(), value.clone(), ts, 0);
                let f = get_format(3);
                let mut data = Vec::new();
                data.extend_from_slice(&0xABCDu16.to_le_bytes());
                data.extend_from_slice(&[0, 0]);
                f.serialize_record_into(&rec, false, &mut data);
                data.extend_from_slice(&value);
                let used = data.len();
                data.resize(4096, 0);
                // vary the last value bytes until the fold is zero (bounded)
                let mut hit = false;
                let prefix = own_crc_update(own_crc_update(!0u32, &s.to_le_bytes()), &data[..used - 3]);
                for c in 0..400_000u32 {
                    data[used - 3..used].copy_from_slice(&c.to_le_bytes()[..3]);
                    if fold_is_zero(!own_crc_update(prefix, &data[used - 3..])) {
                        hit = true;
                        break;
                    }
                }
                if hit {
                    out.emit(&format!("codec rtok {s} {}", hex(&data)), &pure::record_seq_token(s, &data).to_string());
                    let mut stamped = data.clone();
                    pure::stamp_seq_token(&mut stamped, s, f.as_ref());
                    out.emit(&format!("codec stamp 3 {s} {}", hex(&data)), &format!("{:016x}", fnv1a(&stamped)));
                    found += 1;
                }
            }
        }
    }
}

fn one(rng: &mut Rng, out: &mut Out) {
    match rng.below(14) {
        0 => {
            let seed = if rng.chance(1, 2) { 0 } else { rng.next() as u32 };
            let n = *rng.pick(&[0usize, 1, 3, 4, 7, 8, 9, 15, 16, 17, 64, 200, 4096]);
            let d = rand_bytes(rng, n);
            out.emit(&format!("codec crc {seed} {}", hex(&d)), &pure::crc32c(seed, &d).to_string());
        }
        1 => {
            let s = rand_sector(rng);
            let n = *rng.pick(&[0usize, 1, 2, 3, 4, 5, 6, 30, 100, 4096, 8192]);
            let d = rand_bytes(rng, n);
            out.emit(&format!("codec rtok {s} {}", hex(&d)), &pure::record_seq_token(s, &d).to_string());
        }
        2 => {
            let s = rand_sector(rng);
            let n = rng.below(40) as usize;
            let d = rand_bytes(rng, n);
            out.emit(&format!("codec stok {s} {}", hex(&d)), &pure::seq_token(s, &d).to_string());
        }
        3 => {
            let s = rng.range(16, 1 << 33);
            let blocks = rng.range(1, 5) as usize;
            let remaining = blocks as u64 + rng.below(300);
            let mut buf = vec![0u8; blocks * 4096];
            pure::fill_retirement_markers(&mut buf, s, remaining as usize);
            out.emit(&format!("codec marker {s} {remaining} {blocks}"), &format!("{:016x} {}", fnv1a(&buf), buf.len()));
        }
        4 | 5 => {
            let total = rng.range(20, 5000);
            let valid = rng.chance(3, 4);
            let exts = if rng.chance(1, 20) {
                (0..rng.range(1020, 1030)).map(|i| (16 + 2 * i, 1usize)).collect()
            } else {
                rand_exts(rng, total, valid)
            };
            let gen = match rng.below(5) {
                0 => 0,
                1 => u64::MAX,
                _ => rng.range(1, 1 << 40),
            };
            let active = rng.chance(3, 4);
            let r = if active { pure::journal_encode_active(gen, &exts) } else { pure::journal_encode_clear(gen) };
            let verdict = journal_fits_verdict(&r, exts.len());
            let res = match r {
                Ok(img) => format!("ok {:016x} {}", fnv1a(&img), img.len()),
                Err(_) => "err".to_string(),
            };
            out.emit3(&format!("codec jenc {gen} {} {}", active as u8, exts_str(&exts)), &res, &verdict);
        }
        6 | 7 => {
            // decode: two slots built from the encoders, then damaged
            let total = rng.range(20, 300);
            let mut data = vec![0u8; 6 * 4096];
            for slot in 0..2 {
                match rng.below(6) {
                    0 => {}
                    1 => {
                        let junk = rand_bytes(rng, 64);
                        data[slot * 12288..slot * 12288 + 64].copy_from_slice(&junk);
                    }
                    _ => {
                        let gen = rng.range(1, 6);
                        let t2 = if rng.chance(1, 6) { total + 50 } else { total };
                        let ok = rng.chance(5, 6);
                        let exts = rand_exts(rng, t2, ok);
                        let enc = if rng.chance(1, 3) { pure::journal_encode_clear(gen) } else { pure::journal_encode_active(gen, &exts) };
                        if let Ok(mut enc) = enc {
                            if rng.chance(1, 6) {
                                let i = rng.below(enc.len().min(80) as u64) as usize;
                                enc[i] ^= 1 << rng.below(8);
                            }
                            if rng.chance(1, 6) {
                                // legacy full-slot-checksum version: cannot be produced by the encoder; flip version only
                                enc[8] = 1;
                            }
                            data[slot * 12288..slot * 12288 + enc.len()].copy_from_slice(&enc);
                            if rng.chance(1, 5) {
                                // bytes after the compact image are ignored by the v2 checksum
                                let at = slot * 12288 + enc.len();
                                if at + 8 < (slot + 1) * 12288 {
                                    data[at + 3] = 0x77;
                                }
                            }
                        }
                    }
                }
            }
            let res = match pure::journal_decode(&data, total) {
                Ok((g, slot, exts)) => format!("ok {g} {slot} {}", exts_str(&exts)),
                Err(_) => "corrupt".to_string(),
            };
            out.emit(&format!("codec jdec {total} {}", hex(&data)), &res);
        }
        8 => {
            let mut m = Metadata::new();
            m.version = *rng.pick(&[1u32, 2, 3]);
            m.total_records = rng.next() >> rng.below(64);
            m.total_size = rng.next() >> rng.below(64);
            m.device_size = rng.range(1, 1 << 40);
            m.fragmentation = rng.below(101) as u32;
            m.update();
            let enc = m.encode();
            out.emit(
                &format!(
                    "codec menc {} {} {} {} {} {} {} {}",
                    m.version, m.total_records, m.total_size, m.device_size, m.block_size, m.fragmentation, m.creation_time, m.last_update_time
                ),
                &hex(&enc),
            );
        }
        9 => {
            let mut m = Metadata::new();
            m.version = *rng.pick(&[0u32, 1, 2, 3, 3, 3, 4]);
            m.device_size = *rng.pick(&[0u64, 4096, 1 << 30, 1 << 40, (1 << 40) + 1]);
            if rng.chance(1, 6) {
                m.block_size = 512;
            }
            m.total_records = rng.below(1000);
            m.update();
            let mut enc = m.encode().to_vec();
            match rng.below(6) {
                0 => enc[rng.below(136) as usize] ^= 1 << rng.below(8),
                1 => {
                    for b in &mut enc[64..132] {
                        *b = 0;
                    }
                }
                2 => enc.truncate(rng.below(136) as usize),
                _ => {}
            }
            let res = match Metadata::from_bytes(&enc) {
                None => "none".to_string(),
                Some(d) => format!(
                    "ok {} {} {} {} {} {} {}",
                    d.version, d.total_records, d.total_size, d.device_size, d.fragmentation, d.last_update_time, pure::metadata_generation(&d)
                ),
            };
            out.emit(&format!("codec mdec {}", hex(&enc)), &res);
        }
        10 | 11 => {
            let version = *rng.pick(&[1u32, 2, 3]);
            let klen = *rng.pick(&[1usize, 2, 10, 100, 4065, 4066, 4067, 4074, 4075, 5000]);
            let vlen = *rng.pick(&[1usize, 10, 4000, 4060, 4096, 5000, 8192, 9000]);
            let kl = if rng.chance(1, 2) { klen } else { rng.range(1, 40) as usize };
            let key = rand_bytes(rng, kl);
            let vl = if rng.chance(1, 2) { vlen } else { rng.range(1, 60) as usize };
            let value = rand_bytes(rng, vl);
            let ts = rng.next() >> rng.below(64);
            let exp = if rng.chance(1, 2) { 0 } else { rng.next() >> rng.below(64) };
            let rec = Record::new_with_timestamp_ttl(key.clone(), value.clone(), ts, exp);
            let f = get_format(version);
            // the image the write path builds: marker, zero token, header, value, padding
            let total = f.total_size(key.len(), value.len());
            let blocks = total.div_ceil(4096);
            let mut data = Vec::new();
            data.extend_from_slice(&0xABCDu16.to_le_bytes());
            data.extend_from_slice(&[0, 0]);
            f.serialize_record_into(&rec, false, &mut data);
            data.extend_from_slice(&value);
            data.resize(blocks * 4096, 0);
            out.emit(
                &format!("codec ser {version} {} {} {ts} {exp}", hex(&key), hex(&value)),
                &format!(
                    "{:016x} {} hdr={} total={} blocks={}",
                    fnv1a(&data),
                    data.len(),
                    f.record_header_size(key.len()),
                    total,
                    blocks
                ),
            );
            // parse the head block, header_range, stamp, sector_holds_record
            let head = &data[..4096.min(data.len())];
            let p = match f.parse_record(head) {
                None => "none".to_string(),
                Some((k, vl, t, e)) => format!("ok {} {vl} {t} {e}", hex(&k)),
            };
            out.emit(&format!("codec parse {version} {}", hex(head)), &p);
            let hr = if pure::header_range(f.as_ref(), head).is_some() { "some" } else { "none" };
            out.emit(&format!("codec hrange {version} {}", hex(head)), hr);
            let sector = rng.range(16, 1 << 34);
            let mut stamped = data.clone();
            pure::stamp_seq_token(&mut stamped, sector, f.as_ref());
            out.emit(&format!("codec stamp {version} {sector} {}", hex(&data)), &format!("{:016x}", fnv1a(&stamped)));
            let probe_ts = if rng.chance(1, 4) { ts ^ 1 } else { ts };
            let holds = sector_holds_record(&stamped, &Record::new_with_timestamp_ttl(key.clone(), value.clone(), probe_ts, exp));
            out.emit(&format!("codec holds {} {} {} {probe_ts}", hex(&stamped), hex(&key), value.len()), &holds.to_string());
        }
        12 => {
            // parse_record / header_range on arbitrary and on forged heads
            let version = *rng.pick(&[1u32, 2, 3]);
            let n = *rng.pick(&[0usize, 3, 5, 6, 7, 29, 30, 31, 64, 4096]);
            let mut d = rand_bytes(rng, n);
            if n >= 6 && rng.chance(2, 3) {
                let k = *rng.pick(&[0u16, 1, 5, 40, 4065, 4066, 4067, 4074, 4075, 65535]);
                d[4..6].copy_from_slice(&k.to_le_bytes());
            }
            let f = get_format(version);
            let p = match std::panic::catch_unwind(std::panic::AssertUnwindSafe(|| f.parse_record(&d))) {
                Err(_) => "PANIC".to_string(),
                Ok(None) => "none".to_string(),
                Ok(Some((k, vl, t, e))) => format!("ok {} {vl} {t} {e}", hex(&k)),
            };
            out.emit(&format!("codec parse {version} {}", hex(&d)), &p);
            let hr = if pure::header_range(f.as_ref(), &d).is_some() { "some" } else { "none" };
            out.emit(&format!("codec hrange {version} {}", hex(&d)), hr);
        }
        _ => {
            let s = rand_sector(rng);
            let d = rand_bytes(rng, 19);
            out.emit(&format!("codec stok {s} {}", hex(&[&d[..16], &d[18..19]].concat())), &pure::retirement_marker_token(s, &d).to_string());
        }
    }
}

/// The documented layout gives a journal slot three blocks (blocks 1..4 and 4..7, the backup
/// metadata copy sits in block 7): whatever image the encoder accepts must fit.
fn journal_fits_verdict(r: &feoxdb::Result<Vec<u8>>, entries: usize) -> String {
    match r {
        Ok(img) if img.len() > 3 * 4096 => format!("FAIL journal-image-exceeds-its-slot entries={entries} bytes={}", img.len()),
        _ => "ok".to_string(),
    }
}

/// Directed: the largest transactions the encoder accepts (pairwise non-adjacent one-block extents).
fn journal_capacity_cases(out: &mut Out) {
    let mut accepted = 0usize;
    for n in 1..=2100usize {
        let exts: Vec<(u64, usize)> = (0..n as u64).map(|i| (16 + 2 * i, 1usize)).collect();
        if pure::journal_encode_active(7, &exts).is_ok() {
            accepted = n;
        }
    }
    for n in [accepted.saturating_sub(1).max(1), accepted.max(1), accepted + 1] {
        let exts: Vec<(u64, usize)> = (0..n as u64).map(|i| (16 + 2 * i, 1usize)).collect();
        let r = pure::journal_encode_active(7, &exts);
        let verdict = journal_fits_verdict(&r, n);
        let res = match r {
            Ok(img) => format!("ok {:016x} {}", fnv1a(&img), img.len()),
            Err(_) => "err".to_string(),
        };
        out.emit3(&format!("codec jenc 7 1 {}", exts_str(&exts)), &res, &verdict);
    }
}

pub fn run(opts: &Opts) -> i32 {
    let dir = opts.str("out", "/verif/.build/cases/codec");
    let seed = opts.u64("seed", 1);
    let shards = opts.u64("shards", 16);
    let per = opts.u64("n", if opts.thorough() { 6000 } else { 400 });
    let mut handles = Vec::new();
    for sh in 0..shards {
        let dir = dir.clone();
        handles.push(std::thread::spawn(move || {
            let mut out = Out::new(&dir, &format!("s{sh}"));
            let mut rng = Rng::new(seed.wrapping_mul(31337).wrapping_add(sh));
            fold_zero_cases(&mut rng, &mut out, if sh < 6 { 3 } else { 0 });
            if sh == 0 {
                journal_capacity_cases(&mut out);
            }
            for _ in 0..per {
                one(&mut rng, &mut out);
            }
            out.finish()
        }));
    }
    let mut total = 0;
    for h in handles {
        total += h.join().unwrap();
    }
    println!("cases={total}");
    0
}
