//! C16 (accounting / eviction): the public ClockCache API vs Model.Cache.
use crate::img::fnv1a;
use crate::util::{Opts, Out, Rng};
use feoxdb::core::cache::ClockCache;
use feoxdb::stats::Statistics;
use std::sync::atomic::Ordering;
use std::sync::Arc;

fn rbytes(seed: u64, n: usize) -> Vec<u8> {
    let mut x = seed.wrapping_mul(0x9E3779B97F4A7C15) | 1;
    (0..n)
        .map(|_| {
            x ^= x << 13;
            x ^= x >> 7;
            x ^= x << 17;
            (x & 0xff) as u8
        })
        .collect()
}

/// murmur3_32 (seed 0) as the cache uses it to choose a bucket; only used to *construct* keys that
/// collide, the comparison itself is against Model.Cache
fn murmur3_32(key: &[u8]) -> u32 {
    let (c1, c2) = (0xcc9e2d51u32, 0x1b873593u32);
    let mut h = 0u32;
    let mut chunks = key.chunks_exact(4);
    for c in &mut chunks {
        let mut k = u32::from_le_bytes([c[0], c[1], c[2], c[3]]);
        k = k.wrapping_mul(c1).rotate_left(15).wrapping_mul(c2);
        h ^= k;
        h = h.rotate_left(13).wrapping_mul(5).wrapping_add(0xe6546b64);
    }
    let rest = chunks.remainder();
    if !rest.is_empty() {
        let mut k = 0u32;
        for (i, b) in rest.iter().enumerate() {
            k |= (*b as u32) << (8 * i);
        }
        k = k.wrapping_mul(c1).rotate_left(15).wrapping_mul(c2);
        h ^= k;
    }
    h ^= key.len() as u32;
    h ^= h >> 16;
    h = h.wrapping_mul(0x85ebca6b);
    h ^= h >> 13;
    h = h.wrapping_mul(0xc2b2ae35);
    h ^= h >> 16;
    h
}

/// `n` keys that fall into one cache bucket
fn colliding_keys(seed: u64, n: usize) -> Vec<Vec<u8>> {
    // the first and the last buckets of the table too (where the CLOCK hand wraps)
    let target = match (seed / 3) % 4 {
        0 => 16383,
        1 => 0,
        2 => 16382,
        _ => (seed % 16384) as u32,
    };
    let mut out = Vec::new();
    let mut i = 0u64;
    while out.len() < n {
        let k = format!("col-{seed}-{i}").into_bytes();
        if murmur3_32(&k) % 16384 == target {
            out.push(k);
        }
        i += 1;
    }
    out
}

pub fn run_case(seed: u64, nops: usize) -> (String, String, String) {
    let mut rng = Rng::new(seed);
    // a third of the cases keep most of their keys in ONE bucket, so that the CLOCK sweep meets
    // several evictable entries side by side
    let crowd = if seed % 3 == 0 { colliding_keys(seed, 10) } else { Vec::new() };
    let stats = Arc::new(Statistics::new());
    let cache = ClockCache::new(stats.clone());
    // size_of::<CacheEntry>() measured through the public accounting
    let probe = ClockCache::new(Arc::new(Statistics::new()));
    probe.insert(b"k".to_vec(), bytes::Bytes::from_static(b"v"));
    let overhead = probe.stats().memory_usage - 2;
    let mut case = format!("cache E={overhead}");
    let mut res = Vec::new();
    let mut verdict = "ok".to_string();
    let nkeys = rng.range(4, 40);
    // the true set of held entries is not observable; the oracle checks the clauses that are:
    // an explicit remove is never followed by a hit (until the next insert of that key)
    let mut removed: std::collections::HashSet<Vec<u8>> = Default::default();
    for i in 0..nops {
        let key = match if crowd.is_empty() { rng.below(8) } else { 8 + rng.below(10) } {
            8..=15 => crowd[rng.below(crowd.len() as u64) as usize].clone(),
            0 => vec![],
            1 => rbytes(rng.below(nkeys), 5),
            2 => rbytes(rng.below(nkeys), 13),
            _ => format!("key-{}", rng.below(nkeys)).into_bytes(),
        };
        let kspec = crate::util::hex(&key);
        let out;
        match rng.below(100) {
            0..=44 => {
                let len = match rng.below(10) {
                    0 => 0,
                    1 => rng.range(250_000, 300_000), // larger than high/4 for a 1 MB watermark
                    2 | 3 => rng.range(1, 2000),
                    _ => rng.range(40_000, 220_000),
                } as usize;
                let vseed = seed.wrapping_mul(131).wrapping_add(i as u64);
                cache.insert(key.clone(), bytes::Bytes::from(rbytes(vseed, len)));
                removed.remove(&key);
                case.push_str(&format!(" | ins k={kspec} v=@r{vseed},{len}"));
                out = "ok".to_string();
            }
            45..=69 => {
                let r = cache.get(&key);
                if r.is_some() && removed.contains(&key) && verdict == "ok" {
                    verdict = format!("FAIL hit-after-explicit-remove key={kspec}");
                }
                case.push_str(&format!(" | get k={kspec}"));
                out = match r {
                    Some(v) => format!("hit:{:016x}", fnv1a(&v)),
                    None => "miss".to_string(),
                };
            }
            70..=79 => {
                cache.remove(&key);
                removed.insert(key.clone());
                case.push_str(&format!(" | rm k={kspec}"));
                out = "ok".to_string();
            }
            80..=86 => {
                cache.evict_entries();
                case.push_str(" | evict");
                out = "ok".to_string();
                let st = cache.stats();
                if st.memory_usage > st.low_watermark && verdict == "ok" {
                    verdict = format!("FAIL eviction-left-usage-above-low-watermark usage={} low={}", st.memory_usage, st.low_watermark);
                }
            }
            87..=88 => {
                cache.clear();
                case.push_str(" | clear");
                out = "ok".to_string();
                if cache.stats().memory_usage != 0 && verdict == "ok" {
                    verdict = "FAIL cache-memory-not-zero-after-clear".to_string();
                }
            }
            _ => {
                let (h, l) = *rng.pick(&[(1u64, 0u64), (2, 1), (3, 1), (1, 1), (0, 0), (2000, 1), (4, 2)]);
                cache.adjust_watermarks(h as usize, l as usize);
                case.push_str(&format!(" | adj h={h} l={l}"));
                out = "ok".to_string();
            }
        }
        let st = cache.stats();
        res.push(format!(
            "{out} m={} ev={} hw={} lw={}",
            st.memory_usage,
            stats.cache_evictions.load(Ordering::Relaxed),
            st.high_watermark,
            st.low_watermark
        ));
    }
    (case, res.join(" | "), verdict)
}

pub fn run(opts: &Opts) -> i32 {
    let dir = opts.str("out", "/verif/.build/cases/cache");
    let seed = opts.u64("seed", 1);
    let shards = opts.u64("shards", 16);
    let per = opts.u64("n", if opts.thorough() { 200 } else { 12 });
    let nops = opts.u64("ops", 150) as usize;
    let mut handles = Vec::new();
    for sh in 0..shards {
        let dir = dir.clone();
        handles.push(std::thread::spawn(move || {
            let mut out = Out::new(&dir, &format!("s{sh}"));
            for i in 0..per {
                let (c, r, v) = run_case(seed.wrapping_mul(9_999_991).wrapping_add(sh * 1000 + i), nops);
                out.emit3(&c, &r, &v);
            }
            out.finish()
        }));
    }
    let mut total = 0;
    for h in handles {
        total += h.join().unwrap();
    }
    println!("cases={total}");
    0
}
