//! C15: offline migration v1/v2 -> v3 vs Model.Migration (a function of the source image).
use crate::img::{fnv1a, run_child};
use crate::util::{hex, Opts, Out, Rng};
use feoxdb::{migrate, FeoxStore, MigrationError, MigrationOptions};
use std::io::Write;

fn kind(e: &MigrationError) -> String {
    match e {
        MigrationError::DestinationExists(_) => "destination-exists".into(),
        MigrationError::CurrentFormat(_) => "current-format".into(),
        MigrationError::KeyTooLarge { .. } => "key-too-large".into(),
        MigrationError::AmbiguousLegacyRecovery => "ambiguous".into(),
        MigrationError::Store(s) => crate::img::err_kind(s),
        other => format!("other:{other}").replace(' ', "_"),
    }
}

/// child: migrate src -> dst with the real code; print the canonical line
pub fn migchild(opts: &Opts) -> i32 {
    let src = opts.str("src", "");
    let dst = opts.str("dst", "");
    let allow = opts.u64("allow", 0) == 1;
    let before = std::fs::read(&src).map(|d| fnv1a(&d)).unwrap_or(0);
    let dst_before = std::fs::read(&dst).ok().map(|d| fnv1a(&d));
    // plant=1: somebody else creates the destination while the migration is working under its
    // temporary name; whatever the instant, the planted file must survive byte for byte
    let plant = opts.u64("plant", 0) == 1;
    let planted = std::sync::Arc::new(std::sync::atomic::AtomicBool::new(false));
    let stop = std::sync::Arc::new(std::sync::atomic::AtomicBool::new(false));
    const SENTINEL: &[u8] = b"somebody else's file, created while migrate() was running";
    // touch=1: the source's modification time is bumped (bytes unchanged) once the migration is
    // working under its temporary name: it may fail with SourceChanged, but then nothing may be
    // left at the destination
    let touch = opts.u64("touch", 0) == 1;
    let toucher = if touch {
        let (src2, dst2, stop2) = (src.clone(), dst.clone(), stop.clone());
        Some(std::thread::spawn(move || {
            let parent = std::path::Path::new(&dst2).parent().unwrap().to_path_buf();
            let fname = std::path::Path::new(&dst2).file_name().unwrap().to_string_lossy().to_string();
            let prefix = format!(".{fname}.feox-migrate-");
            while !stop2.load(std::sync::atomic::Ordering::SeqCst) {
                let seen = std::fs::read_dir(&parent).map(|d| d.filter_map(|e| e.ok()).any(|e| e.file_name().to_string_lossy().starts_with(&prefix))).unwrap_or(false);
                if seen {
                    if let Ok(f) = std::fs::OpenOptions::new().write(true).open(&src2) {
                        let _ = f.set_modified(std::time::SystemTime::now() + std::time::Duration::from_secs(30));
                    }
                    return;
                }
                std::thread::yield_now();
            }
        }))
    } else {
        None
    };
    let watcher = if plant {
        let (dst2, planted2, stop2) = (dst.clone(), planted.clone(), stop.clone());
        Some(std::thread::spawn(move || {
            let parent = std::path::Path::new(&dst2).parent().unwrap().to_path_buf();
            let fname = std::path::Path::new(&dst2).file_name().unwrap().to_string_lossy().to_string();
            let prefix = format!(".{fname}.feox-migrate-");
            while !stop2.load(std::sync::atomic::Ordering::SeqCst) {
                let seen = std::fs::read_dir(&parent).map(|d| d.filter_map(|e| e.ok()).any(|e| e.file_name().to_string_lossy().starts_with(&prefix))).unwrap_or(false);
                if seen {
                    if let Ok(mut f) = std::fs::OpenOptions::new().write(true).create_new(true).open(&dst2) {
                        let _ = f.write_all(SENTINEL);
                        let _ = f.sync_all();
                        planted2.store(true, std::sync::atomic::Ordering::SeqCst);
                    }
                    return;
                }
                std::thread::yield_now();
            }
        }))
    } else {
        None
    };
    let r = std::panic::catch_unwind(|| migrate(MigrationOptions::new(&src, &dst).allow_ambiguous_legacy_recovery(allow)));
    stop.store(true, std::sync::atomic::Ordering::SeqCst);
    if let Some(w) = watcher {
        let _ = w.join();
    }
    if let Some(w) = toucher {
        let _ = w.join();
    }
    if planted.load(std::sync::atomic::Ordering::SeqCst) {
        // from here on the planted file is "an existing destination"
        let intact = std::fs::read(&dst).map(|d| d == SENTINEL).unwrap_or(false);
        let temps = 0;
        let line = match &r {
            Err(_) => "PANIC".to_string(),
            Ok(Err(e)) => format!("err {} srcsame=1 published={} tempfiles={temps} planted=1", kind(e), (!intact) as u8),
            Ok(Ok(_)) => format!("ok-although-the-destination-appeared published={} planted=1", (!intact) as u8),
        };
        println!("{line}");
        let _ = std::io::stdout().flush();
        unsafe { libc::_exit(0) }
    }
    let after = std::fs::read(&src).map(|d| fnv1a(&d)).unwrap_or(0);
    let srcsame = (before == after) as u8;
    // temporaries left beside the destination
    let parent = std::path::Path::new(&dst).parent().unwrap().to_path_buf();
    let fname = std::path::Path::new(&dst).file_name().unwrap().to_string_lossy().to_string();
    let temps = std::fs::read_dir(&parent)
        .map(|d| d.filter_map(|e| e.ok()).filter(|e| e.file_name().to_string_lossy().starts_with(&format!(".{fname}.feox-migrate-"))).count())
        .unwrap_or(0);
    let line = match r {
        Err(_) => "PANIC".to_string(),
        Ok(Err(e)) => {
            // nothing may be published, an existing destination must be byte-identical
            let published = match dst_before {
                None => std::path::Path::new(&dst).exists() as u8,
                Some(h) => (std::fs::read(&dst).map(|d| fnv1a(&d)).ok() != Some(h)) as u8,
            };
            format!("err {} srcsame={srcsame} published={published} tempfiles={temps}", kind(&e))
        }
        Ok(Ok(rep)) => {
            // read the destination back with the real store (TTL off)
            let mut s = String::new();
            let mut dstver = 0;
            if let Ok(store) = FeoxStore::builder().device_path(dst.clone()).hash_bits(8).enable_caching(false).build() {
                dstver = store.verif_format_version();
                for r in store.verif_snapshot() {
                    let v = match store.get(&r.key) {
                        Ok(v) => format!("{:016x}", fnv1a(&v)),
                        Err(_) => "err".to_string(),
                    };
                    s.push_str(&format!("{}:{}:{}:{};", hex(&r.key), r.timestamp, r.ttl_expiry, v));
                }
                std::mem::forget(store);
            }
            format!(
                "ok srcver={} n={} amb={} dstver={dstver} contents={:016x} srcsame={srcsame} published={} tempfiles={temps}",
                rep.source_version,
                rep.records,
                rep.ambiguous_legacy_markers,
                fnv1a(s.as_bytes()),
                std::path::Path::new(&dst).exists() as u8
            )
        }
    };
    println!("{line}");
    let _ = std::io::stdout().flush();
    unsafe { libc::_exit(0) }
}

pub fn run(opts: &Opts) -> i32 {
    let dir = opts.str("out", "/verif/.build/cases/migrate");
    let seed = opts.u64("seed", 1);
    let shards = opts.u64("shards", 16);
    let per = opts.u64("n", if opts.thorough() { 60 } else { 5 });
    // damage=<k>: every source gets damage kind k (9 = pending-batch journal with a marker across a journaled extent)
    let force_damage = opts.u64("damage", 0);
    let keep = format!("{dir}/images");
    std::fs::create_dir_all(&keep).unwrap();
    let mut handles = Vec::new();
    for sh in 0..shards {
        let dir = dir.clone();
        let keep = keep.clone();
        handles.push(std::thread::spawn(move || {
            let mut out = Out::new(&dir, &format!("s{sh}"));
            let mut rng = Rng::new(seed.wrapping_mul(48_271).wrapping_add(sh));
            let mut kinds = std::collections::BTreeMap::<String, u64>::new();
            for i in 0..per {
                let src = format!("{keep}/m{sh}_{i}.src");
                let dst = format!("{keep}/m{sh}_{i}.dst");
                let version = *rng.pick(&[1u64, 1, 2, 2, 2, 3]);
                let big = rng.chance(1, 6);
                let g = run_child(
                    &[
                        "genimg".into(),
                        format!("version={version}"),
                        format!("legacy_checksum={}", rng.below(2)),
                        format!("path={src}"),
                        format!("seed={}", rng.next() % 1_000_000_007),
                        format!("blocks={}", if big { 4800 } else { *rng.pick(&[48u64, 96, 160]) }),
                        format!("prefixpairs={}", if big { 300 } else { 0 }),
                        format!("bigvalue={}", (big && (sh + i) % 4 < 2) as u8),
                        format!("prefixextra={}", (sh + i) % 2),
                        format!("ttl={}", rng.below(2)),
                        format!("ops={}", if big { 700 } else { rng.range(10, 120) }),
                        format!("nkeys={}", if big { 400 } else { 0 }),
                        format!("ending={}", rng.below(3)),
                    ],
                    360,
                );
                if g.as_deref().map_or(true, |s| !s.starts_with("genimg-done")) {
                    out.emit3(&format!("note genimg-failed {:?}", g), "note", "FAIL workload-child-failed");
                    continue;
                }
                // synthesised damage on some sources
                let mut label = format!("v{version}");
                if force_damage != 0 || rng.chance(2, 5) {
                    let mut img = std::fs::read(&src).unwrap();
                    let name = match if force_damage != 0 { force_damage } else { rng.below(8) } {
                        9 => crate::mutimg::pending_batch_journal_opt(&mut rng, &mut img, true).unwrap_or("none"),
                        6 | 7 => {
                            // a file that was extended after it was formatted: the header still records
                            // the old, smaller device size (it is written once); records live beyond it
                            let nb = (img.len() / 4096) as u64;
                            let old_blocks = 16 + rng.below(nb - 16);
                            for copy in [0usize, 7] {
                                if let Some(mut m) = feoxdb::storage::metadata::Metadata::from_bytes(&img[copy * 4096..(copy + 1) * 4096]) {
                                    m.device_size = old_blocks * 4096;
                                    m.update(); // recomputes the checksum (the generation stays)
                                    let enc = m.encode();
                                    img[copy * 4096..copy * 4096 + enc.len()].copy_from_slice(&enc);
                                }
                            }
                            "header-records-a-smaller-device"
                        }
                        4 | 5 => crate::mutimg::plant_stale_generation(&mut rng, &mut img).unwrap_or("none"),
                        0 => {
                            // an ambiguous legacy tombstone
                            let nb = img.len() / 4096;
                            let s = rng.range(16, nb as u64 - 1) as usize;
                            for b in &mut img[s * 4096..(s + 1) * 4096] {
                                *b = 0;
                            }
                            img[s * 4096..s * 4096 + 8].copy_from_slice(b"\0DELETED");
                            "legacy-tombstone"
                        }
                        1 => crate::mutimg::pending_batch_journal(&mut rng, &mut img).unwrap_or("none"),
                        _ => crate::mutimg::mutate(&mut rng, &mut img),
                    };
                    std::fs::write(&src, &img).unwrap();
                    label.push_str(&format!("+{name}"));
                }
                let allow = rng.chance(1, 3);
                let dst_exists = rng.chance(1, 8);
                if dst_exists {
                    std::fs::write(&dst, b"precious existing destination").unwrap();
                }
                let plant = !dst_exists && rng.chance(1, 4);
                let touch = !dst_exists && !plant && rng.chance(1, 4);
                let line = run_child(&["migchild".into(), format!("src={src}"), format!("dst={dst}"), format!("allow={}", allow as u8), format!("plant={}", plant as u8), format!("touch={}", touch as u8)], 360)
                    .unwrap_or_else(|| "SPAWN-FAILED".into());
                // a destination that appeared while the migration ran counts as existing
                let planted = line.contains("planted=1");
                let dst_exists = dst_exists || planted;
                let line = line.replace(" planted=1", "");
                let mut verdict = "ok".to_string();
                if planted && (line.starts_with("ok") || line.contains("published=1")) {
                    verdict = "FAIL destination-created-during-the-migration-was-overwritten".into();
                } else if line.contains("PANIC") || line.contains("TIMEOUT") || line.contains("CHILD-DIED") {
                    verdict = "FAIL migration-panicked-or-hung".into();
                } else if line.contains("srcsame=0") {
                    verdict = "FAIL source-file-modified".into();
                } else if line.starts_with("err") && line.contains("published=1") {
                    verdict = "FAIL failed-migration-left-or-overwrote-the-destination".into();
                } else if !line.contains("tempfiles=0") {
                    verdict = "FAIL temporary-file-left-behind".into();
                } else if line.starts_with("ok") && !line.contains("dstver=3") {
                    verdict = "FAIL destination-is-not-v3".into();
                }
                *kinds.entry(format!("{label}=>{}", line.split(' ').take(2).collect::<Vec<_>>().join("-"))).or_default() += 1;
                if touch && line.starts_with("err other:") {
                    // the source was touched in time: the outcome is not a function of the image; oracle only
                    out.emit3(&format!("note migrate-source-touched {src} src={label} {}", line.replace(' ', "_")), "note", &verdict);
                } else {
                    out.emit3(&format!("migrate {src} allow={} dstexists={} src={label}", allow as u8, dst_exists as u8), &line, &verdict);
                }
                let _ = std::fs::remove_file(&dst);
            }
            (out.finish(), kinds)
        }));
    }
    let mut total = 0;
    let mut all = std::collections::BTreeMap::<String, u64>::new();
    for h in handles {
        let (n, k) = h.join().unwrap();
        total += n;
        for (a, b) in k {
            *all.entry(a).or_default() += b;
        }
    }
    let stats: Vec<String> = all.iter().map(|(k, v)| format!("\"{k}\": {v}")).collect();
    std::fs::write(format!("{dir}/stats.json"), format!("{{{}}}", stats.join(", "))).unwrap();
    println!("cases={total}");
    0
}
