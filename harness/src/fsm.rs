//! C06: FreeSpaceManager vs Model/FreeSpace.v.
use crate::util::{Opts, Out, Rng};
use feoxdb::error::FeoxError;
use feoxdb::storage::free_space::FreeSpaceManager;

#[derive(Clone, Copy, Debug)]
pub enum Op {
    Alloc(u64),
    Release(u64, u64),
}

fn err_str(e: &FeoxError) -> &'static str {
    match e {
        FeoxError::InvalidArgument => "arg",
        FeoxError::OutOfSpace => "space",
        FeoxError::DuplicateKey => "dup",
        FeoxError::CorruptedData => "corrupt",
        _ => "other",
    }
}

fn getters(m: &FreeSpaceManager) -> String {
    format!(
        "{},{},{},{}",
        m.get_total_free(),
        m.get_free_chunks_count(),
        m.get_largest_free_chunk(),
        m.get_fragmentation()
    )
}

/// The property itself (C06), evaluated on the implementation's own answers:
/// the true free set is tracked block by block from the accepted calls.
struct Oracle {
    free: Vec<bool>,
    total: u64,
    verdict: Option<String>,
}

impl Oracle {
    fn new(dev_bytes: u64) -> Self {
        let total = dev_bytes / 4096;
        let mut free = vec![false; total.min(1 << 20) as usize];
        for b in 16..total.min(1 << 20) {
            free[b as usize] = true;
        }
        Oracle { free, total, verdict: None }
    }
    fn fail(&mut self, i: usize, why: &str) {
        if self.verdict.is_none() {
            self.verdict = Some(format!("FAIL op{i}:{why}"));
        }
    }
    fn all(&self, a: u64, n: u64, v: bool) -> bool {
        (a..a + n).all(|b| self.free[b as usize] == v)
    }
    fn longest(&self) -> (u64, u64, u64) {
        let (mut best, mut cur, mut chunks, mut tot) = (0u64, 0u64, 0u64, 0u64);
        for &f in &self.free {
            if f {
                cur += 1;
                tot += 1;
                if cur == 1 {
                    chunks += 1;
                }
                best = best.max(cur);
            } else {
                cur = 0;
            }
        }
        (tot, chunks, best)
    }
    fn in_bounds(&self, a: u64, n: u64) -> bool {
        a >= 16 && n > 0 && a.checked_add(n).map_or(false, |e| e <= self.total)
    }
    fn alloc(&mut self, i: usize, n: u64, r: &Result<u64, FeoxError>) {
        let (_, _, best) = self.longest();
        match r {
            Ok(a) => {
                if !self.in_bounds(*a, n) {
                    self.fail(i, "allocation-out-of-bounds");
                } else if !self.all(*a, n, true) {
                    self.fail(i, "allocation-overlaps-outstanding");
                } else {
                    for b in *a..*a + n {
                        self.free[b as usize] = false;
                    }
                }
            }
            Err(_) => {
                if n != 0 && best >= n {
                    self.fail(i, "allocation-failed-though-a-run-fits");
                }
            }
        }
    }
    fn release(&mut self, i: usize, a: u64, c: u64, r: &Result<(), FeoxError>, before: &str, after: &str) {
        let acceptable = self.in_bounds(a, c) && self.all(a, c, false);
        match r {
            Ok(()) => {
                if !acceptable {
                    self.fail(i, "invalid-release-accepted");
                    if self.in_bounds(a, c) {
                        for b in a..a + c {
                            self.free[b as usize] = true;
                        }
                    }
                } else {
                    for b in a..a + c {
                        self.free[b as usize] = true;
                    }
                }
            }
            Err(_) => {
                if acceptable {
                    self.fail(i, "valid-release-rejected");
                }
                if before != after {
                    self.fail(i, "rejected-release-changed-state");
                }
            }
        }
    }
    fn getters(&mut self, i: usize, m: &FreeSpaceManager) {
        let (tot, chunks, best) = self.longest();
        if m.get_total_free() != tot * 4096 {
            self.fail(i, "total-free-wrong");
        }
        if m.get_free_chunks_count() as u64 != chunks {
            self.fail(i, "run-count-wrong");
        }
        if m.get_largest_free_chunk() != best * 4096 {
            self.fail(i, "largest-run-wrong");
        }
    }
}

pub fn run_case(dev_bytes: u64, ops: &[Op]) -> (String, String, String) {
    let mut case = format!("fs {dev_bytes}");
    let mut res = String::new();
    let mut m = FreeSpaceManager::new();
    let mut orc = Oracle::new(dev_bytes);
    let r = std::panic::catch_unwind(std::panic::AssertUnwindSafe(|| {
        if m.initialize(dev_bytes).is_err() {
            res.push_str("initerr");
            return;
        }
        res.push_str(&format!("init:{}", getters(&m)));
        for (i, op) in ops.iter().enumerate() {
            match *op {
                Op::Alloc(n) => {
                    let r = m.allocate_sectors(n);
                    orc.alloc(i, n, &r);
                    match r {
                        Ok(a) => res.push_str(&format!(" ok{a}")),
                        Err(e) => res.push_str(&format!(" {}", err_str(&e))),
                    }
                }
                Op::Release(a, c) => {
                    let before = getters(&m);
                    let r = m.release_sectors(a, c);
                    orc.release(i, a, c, &r, &before, &getters(&m));
                    match r {
                        Ok(()) => res.push_str(" ok"),
                        Err(e) => res.push_str(&format!(" {}", err_str(&e))),
                    }
                }
            }
            orc.getters(i, &m);
            res.push_str(&format!(":{}", getters(&m)));
        }
    }));
    if r.is_err() {
        res.push_str(" PANIC");
        orc.fail(ops.len(), "panic");
    }
    for op in ops {
        match *op {
            Op::Alloc(n) => case.push_str(&format!(" a{n}")),
            Op::Release(a, c) => case.push_str(&format!(" r{a},{c}")),
        }
    }
    (case, res, orc.verdict.unwrap_or_else(|| "ok".to_string()))
}

fn alphabet(d: u64, full: bool) -> Vec<Op> {
    let mut v = Vec::new();
    let amax = if full { d + 1 } else { 3.min(d + 1) };
    for n in 0..=amax {
        v.push(Op::Alloc(n));
    }
    let (slo, shi) = if full { (15, 16 + d + 1) } else { (16, 16 + d) };
    let cmax = if full { d + 1 } else { 3.min(d + 1) };
    for s in slo..=shi {
        for c in (if full { 0 } else { 1 })..=cmax {
            v.push(Op::Release(s, c));
        }
    }
    v
}

fn enumerate(out: &mut Out, dev: u64, alpha: &[Op], depth: usize, prefix: &mut Vec<Op>, shard: (u64, u64), counter: &mut u64) {
    if prefix.len() == depth {
        *counter += 1;
        if *counter % shard.1 == shard.0 {
            let (c, r, v) = run_case(dev, prefix);
            out.emit3(&c, &r, &v);
        }
        return;
    }
    for op in alpha {
        prefix.push(*op);
        enumerate(out, dev, alpha, depth, prefix, shard, counter);
        prefix.pop();
    }
}

/// Reach the free set given by `mask` over d data blocks (bit i = block 16+i free)
/// from a fresh manager: allocate everything block by block, release the free ones.
fn reach(d: u64, mask: u64) -> Vec<Op> {
    let mut ops = Vec::new();
    for _ in 0..d {
        ops.push(Op::Alloc(1));
    }
    for i in 0..d {
        if mask >> i & 1 == 1 {
            ops.push(Op::Release(16 + i, 1));
        }
    }
    ops
}

fn probe_suffix(d: u64) -> Vec<Op> {
    // observe the whole state: allocate the largest possible runs until empty
    let mut ops = Vec::new();
    let mut n = d;
    while n >= 1 {
        for _ in 0..(d / n) {
            ops.push(Op::Alloc(n));
        }
        n -= 1;
    }
    ops
}

fn random_case(rng: &mut Rng, out: &mut Out, max_blocks: u64, len: usize) {
    let d = rng.range(1, max_blocks);
    let dev = (16 + d) * 4096 + rng.below(4096); // not necessarily block aligned
    let mut ops = Vec::with_capacity(len);
    let mut outstanding: Vec<(u64, u64)> = Vec::new();
    // mirror allocation results by really running a shadow manager for the generator
    let mut shadow = FreeSpaceManager::new();
    let _ = shadow.initialize(dev);
    for _ in 0..len {
        let k = rng.below(100);
        let op = if k < 40 {
            let n = if rng.chance(1, 20) { 0 } else if rng.chance(1, 15) { rng.range(1, d + 2) } else { rng.range(1, 1 + d / 8 + 3) };
            Op::Alloc(n)
        } else if k < 80 && !outstanding.is_empty() {
            // release (part of) an outstanding allocation
            let i = rng.below(outstanding.len() as u64) as usize;
            let (a, n) = outstanding[i];
            if n > 1 && rng.chance(1, 3) {
                let cut = rng.range(1, n - 1);
                if rng.chance(1, 2) {
                    outstanding[i] = (a + cut, n - cut);
                    Op::Release(a, cut)
                } else {
                    outstanding[i] = (a, cut);
                    Op::Release(a + cut, n - cut)
                }
            } else {
                outstanding.swap_remove(i);
                Op::Release(a, n)
            }
        } else if k < 90 {
            // arbitrary (mostly invalid) release
            let s = match rng.below(6) {
                0 => rng.below(17),
                1 => 16 + d + rng.below(3),
                2 => u64::MAX - rng.below(3),
                _ => 16 + rng.below(d),
            };
            let c = match rng.below(6) {
                0 => 0,
                1 => u64::MAX - rng.below(3),
                2 => d + rng.below(3),
                _ => 1 + rng.below(4),
            };
            Op::Release(s, c)
        } else {
            Op::Alloc(rng.range(1, 4))
        };
        match op {
            Op::Alloc(n) => {
                if let Ok(a) = shadow.allocate_sectors(n) {
                    outstanding.push((a, n));
                }
            }
            Op::Release(a, c) => {
                let _ = shadow.release_sectors(a, c);
            }
        }
        ops.push(op);
    }
    let (c, r, v) = run_case(dev, &ops);
    out.emit3(&c, &r, &v);
}

pub fn run(opts: &Opts) -> i32 {
    let dir = opts.str("out", "/verif/.build/cases/C06");
    let seed = opts.u64("seed", 1);
    let shards = opts.u64("shards", 16);
    let thorough = opts.thorough();
    let mut handles = Vec::new();
    for sh in 0..shards {
        let dir = dir.clone();
        handles.push(std::thread::spawn(move || {
            let mut out = Out::new(&dir, &format!("s{sh}"));
            // 0. boundary device sizes
            if sh == 0 {
                for dev in [0u64, 4096, 16 * 4096, 16 * 4096 + 4095, 17 * 4096, 17 * 4096 + 1, 18 * 4096] {
                    let (c, r, v) = run_case(dev, &[Op::Alloc(1), Op::Release(16, 1), Op::Alloc(2), Op::Release(16, 2), Op::Release(17, 1)]);
                    out.emit3(&c, &r, &v);
                }
            }
            // 1. exhaustive sequences, full alphabet
            let mut counter = 0u64;
            let plan: &[(u64, bool, usize)] = if thorough {
                &[(2, true, 5), (3, true, 4), (4, true, 3), (4, false, 5), (6, false, 4), (8, false, 3)]
            } else {
                &[(2, true, 4), (3, true, 3), (4, true, 2), (4, false, 4), (6, false, 3)]
            };
            for &(d, full, depth) in plan {
                let alpha = alphabet(d, full);
                let mut prefix = Vec::new();
                enumerate(&mut out, (16 + d) * 4096, &alpha, depth, &mut prefix, (sh, shards), &mut counter);
            }
            // 2. every free set x every op x probe
            let dmax = if thorough { 8 } else { 6 };
            for d in 1..=dmax {
                let alpha = alphabet(d, true);
                let probe = probe_suffix(d);
                for mask in 0..(1u64 << d) {
                    for op in &alpha {
                        counter += 1;
                        if counter % shards != sh {
                            continue;
                        }
                        let mut ops = reach(d, mask);
                        ops.push(*op);
                        ops.extend_from_slice(&probe);
                        let (c, r, v) = run_case((16 + d) * 4096, &ops);
                        out.emit3(&c, &r, &v);
                    }
                }
            }
            // 3. random long sequences
            let mut rng = Rng::new(seed.wrapping_mul(1000).wrapping_add(sh));
            let nrand = if thorough { 400 } else { 40 };
            for i in 0..nrand {
                let (mb, len) = if i % 4 == 0 { (4096, 2000) } else if i % 4 == 1 { (256, 600) } else { (24, 200) };
                random_case(&mut rng, &mut out, mb, len);
            }
            out.finish()
        }));
    }
    let mut total = 0;
    for h in handles {
        total += h.join().unwrap();
    }
    println!("cases={total}");
    0
}

pub fn replay(toks: &[&str]) -> (String, String) {
    let dev: u64 = toks[0].parse().unwrap();
    let mut ops = Vec::new();
    for t in &toks[1..] {
        let body = &t[1..];
        if t.starts_with('a') {
            ops.push(Op::Alloc(body.parse().unwrap()));
        } else {
            let (a, c) = body.split_once(',').unwrap();
            ops.push(Op::Release(a.parse().unwrap(), c.parse().unwrap()));
        }
    }
    let (_c, r, v) = run_case(dev, &ops);
    (r, v)
}
