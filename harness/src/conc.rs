//! C07: concurrent calls on shared keys.
//!  mode=sched  the same programs under the same schedule on the real store (threads parked at the
//!              H7 points by a controller) and on Model.Sched; responses and final contents compared.
//!  mode=hist   real histories (controlled schedules and free-running threads with random yields at
//!              the H7 points) judged by the verified checker Model.Lin.lin_check.
use crate::util::{Opts, Out, Rng};
use feoxdb::{FeoxError, FeoxStore};
use std::cell::RefCell;
use std::sync::atomic::{AtomicU64, Ordering};
use std::sync::{Arc, Condvar, Mutex};
use std::time::Duration;

#[derive(Clone, Debug)]
enum V {
    B(u64),
    J(Vec<u64>),
    C(i64),
}

impl V {
    fn tok(&self) -> String {
        match self {
            V::B(n) => format!("b{n}"),
            V::J(l) => format!("j{}", l.iter().map(|x| x.to_string()).collect::<Vec<_>>().join("_")),
            V::C(z) => format!("c{z}"),
        }
    }
    fn bytes(&self) -> Vec<u8> {
        match self {
            // blobs 100.. are long (the length depends on n): racing replacements change the size
            V::B(n) if *n >= 100 => {
                let mut v = format!("blob-{n}-").into_bytes();
                v.resize(2000 + 3000 * (*n as usize - 100), b'z');
                v
            }
            V::B(n) => format!("blob-{n}-abcdefgh").into_bytes(),
            V::J(l) => format!("{{\"ab\":[{}]}}", l.iter().map(|x| x.to_string()).collect::<Vec<_>>().join(",")).into_bytes(),
            V::C(z) => z.to_le_bytes().to_vec(),
        }
    }
    fn decode(b: &[u8]) -> String {
        if b.len() == 8 {
            return format!("c{}", i64::from_le_bytes(b.try_into().unwrap()));
        }
        let s = String::from_utf8_lossy(b);
        if let Some(rest) = s.strip_prefix("blob-") {
            if let Some((n, _)) = rest.split_once('-') {
                return format!("b{n}");
            }
        }
        if let Some(rest) = s.strip_prefix("{\"ab\":[") {
            if let Some(body) = rest.strip_suffix("]}") {
                return format!("j{}", body.split(',').filter(|x| !x.is_empty()).collect::<Vec<_>>().join("_"));
            }
        }
        format!("unknown-bytes-{}", crate::util::hex(&b[..b.len().min(24)]))
    }
}

#[derive(Clone, Debug)]
enum Op {
    Get(u64),
    Upsert(u64, V, Option<u64>),
    Delete(u64, Option<u64>),
    Cas(u64, V, V, Option<u64>),
    Incr(u64, i64, Option<u64>),
    IfAbsent(u64, V),
    Patch(u64, u64, Option<u64>),
}

fn ts_tok(t: &Option<u64>) -> String {
    t.map_or("-".to_string(), |t| t.to_string())
}

impl Op {
    fn tok(&self) -> String {
        match self {
            Op::Get(k) => format!("g.{k}"),
            Op::Upsert(k, v, t) => format!("u.{k}.{}.{}", v.tok(), ts_tok(t)),
            Op::Delete(k, t) => format!("d.{k}.{}", ts_tok(t)),
            Op::Cas(k, e, n, t) => format!("c.{k}.{}.{}.{}", e.tok(), n.tok(), ts_tok(t)),
            Op::Incr(k, d, t) => format!("n.{k}.{d}.{}", ts_tok(t)),
            Op::IfAbsent(k, v) => format!("a.{k}.{}", v.tok()),
            Op::Patch(k, p, t) => format!("p.{k}.{p}.{}", ts_tok(t)),
        }
    }
}

fn key_bytes(k: u64) -> Vec<u8> {
    format!("ck{k}").into_bytes()
}

fn err_tok(e: &FeoxError) -> String {
    match e {
        FeoxError::KeyNotFound => "nf".into(),
        FeoxError::OlderTimestamp => "older".into(),
        FeoxError::InvalidOperation => "invalid".into(),
        FeoxError::JsonPatchError(_) => "perr".into(),
        other => format!("err-{}", format!("{other}").replace([' ', ','], "_")),
    }
}

fn exec(store: &FeoxStore, op: &Op, spelling: u64) -> String {
    match op {
        Op::Get(k) => match if spelling % 2 == 0 { store.get(&key_bytes(*k)) } else { store.get_bytes(&key_bytes(*k)).map(|b| b.to_vec()) } {
            Ok(v) => format!("v:{}", V::decode(&v)),
            Err(e) => err_tok(&e),
        },
        Op::Upsert(k, v, t) => {
            let r = match (t, spelling % 2) {
                (None, 0) => store.insert(&key_bytes(*k), &v.bytes()),
                (None, _) => store.insert_bytes(&key_bytes(*k), bytes::Bytes::from(v.bytes())),
                (Some(_), 0) => store.insert_with_timestamp(&key_bytes(*k), &v.bytes(), *t),
                (Some(_), _) => store.insert_bytes_with_timestamp(&key_bytes(*k), bytes::Bytes::from(v.bytes()), *t),
            };
            match r {
                Ok(b) => b.to_string(),
                Err(e) => err_tok(&e),
            }
        }
        Op::Delete(k, t) => match if t.is_none() { store.delete(&key_bytes(*k)) } else { store.delete_with_timestamp(&key_bytes(*k), *t) } {
            Ok(()) => "ok".into(),
            Err(e) => err_tok(&e),
        },
        Op::Cas(k, e, n, t) => match if t.is_none() {
            store.compare_and_swap(&key_bytes(*k), &e.bytes(), &n.bytes())
        } else {
            store.compare_and_swap_with_timestamp(&key_bytes(*k), &e.bytes(), &n.bytes(), *t)
        } {
            Ok(b) => b.to_string(),
            Err(e) => err_tok(&e),
        },
        Op::Incr(k, d, t) => match if t.is_none() { store.atomic_increment(&key_bytes(*k), *d) } else { store.atomic_increment_with_timestamp(&key_bytes(*k), *d, *t) } {
            Ok(z) => format!("i:{z}"),
            Err(e) => err_tok(&e),
        },
        Op::IfAbsent(k, v) => match store.insert_if_absent(&key_bytes(*k), &v.bytes()) {
            Ok(b) => b.to_string(),
            Err(e) => err_tok(&e),
        },
        Op::Patch(k, p, t) => {
            let patch = format!("[{{\"op\":\"add\",\"path\":\"/ab/-\",\"value\":{p}}}]");
            match if t.is_none() { store.json_patch(&key_bytes(*k), patch.as_bytes()) } else { store.json_patch_with_timestamp(&key_bytes(*k), patch.as_bytes(), *t) } {
                Ok(()) => "ok".into(),
                Err(e) => err_tok(&e),
            }
        }
    }
}

// ---- generation ----
const FAR: u64 = 1 << 62;

fn gen_ts(rng: &mut Rng, style: u64) -> Option<u64> {
    match style {
        0 => None,
        1 => Some(*rng.pick(&[5u64, 6, 7, 8, 9])),
        _ => match rng.below(10) {
            0..=3 => None,
            4..=7 => Some(*rng.pick(&[5u64, 6, 7, 8])),
            _ => Some(FAR + rng.below(3) * (1 << 20)),
        },
    }
}

fn gen_val(rng: &mut Rng) -> V {
    match rng.below(6) {
        5 => V::B(100 + rng.below(3)),
        0 | 1 => V::B(rng.below(3)),
        2 => V::J(vec![]),
        3 => V::C(rng.below(5) as i64 - 2),
        _ => V::J(vec![1]),
    }
}

fn gen_op(rng: &mut Rng, nkeys: u64, style: u64, flavour: u64) -> Op {
    let k = rng.below(nkeys);
    // flavour: 0 general, 1 counters, 2 one-winner races, 3 documents
    let kind = match flavour {
        1 => *rng.pick(&[4u64, 4, 4, 4, 0, 2, 1]),
        2 => *rng.pick(&[5u64, 5, 3, 3, 3, 2, 0, 1]),
        3 => *rng.pick(&[6u64, 6, 6, 1, 2, 0]),
        _ => rng.below(7),
    };
    match kind {
        0 => Op::Get(k),
        1 => Op::Upsert(
            k,
            match flavour {
                1 => V::C(rng.below(3) as i64),
                2 => V::B(rng.below(2)),
                3 => V::J(vec![]),
                _ => gen_val(rng),
            },
            gen_ts(rng, style),
        ),
        2 => Op::Delete(k, gen_ts(rng, style)),
        3 => {
            let (e, n) = if flavour == 2 { (V::B(rng.below(2)), V::B(rng.below(3))) } else { (gen_val(rng), gen_val(rng)) };
            Op::Cas(k, e, n, gen_ts(rng, style))
        }
        4 => Op::Incr(k, *rng.pick(&[1i64, 1, 2, -1, 5, i64::MAX]), gen_ts(rng, style)),
        5 => Op::IfAbsent(k, if flavour == 2 { V::B(rng.below(3)) } else { gen_val(rng) }),
        _ => Op::Patch(k, rng.below(9), gen_ts(rng, style)),
    }
}

struct Case {
    nkeys: u64,
    progs: Vec<Vec<Op>>,
    sched: Vec<usize>,
    persistent: bool,
}

/// delete-and-recreate with the very timestamp a parked compare-and-swap / patch / increment read:
/// generation identity must not be confused with timestamp equality
fn gen_aba(rng: &mut Rng) -> Case {
    let doc = rng.chance(1, 2);
    let v0 = if doc { V::J(vec![1]) } else if rng.chance(1, 2) { V::C(3) } else { V::B(0) };
    let v1 = if doc { V::J(vec![]) } else if matches!(v0, V::C(_)) { V::C(10) } else { V::B(1) };
    let reader = match (&v0, rng.below(3)) {
        (V::J(_), _) => Op::Patch(0, 7, Some(9)),
        (V::C(_), 0) => Op::Incr(0, 5, Some(9)),
        (_, _) => Op::Cas(0, v0.clone(), V::B(2), Some(9)),
    };
    let mut a = vec![Op::Upsert(0, v0, Some(5)), reader];
    if rng.chance(1, 2) {
        a.push(Op::Get(0));
    }
    let b = vec![Op::Delete(0, Some(*rng.pick(&[6u64, 7]))), Op::Upsert(0, v1, Some(5))];
    let mut progs = vec![a, b];
    if rng.chance(1, 3) {
        progs.push(vec![Op::Get(0), Op::Get(0)]);
    }
    let n = progs.len() as u64;
    // thread 0 first runs its preamble and reaches its guard, then the others interleave
    let mut sched = vec![0usize; rng.range(3, 5) as usize];
    sched.extend((0..rng.range(4, 14)).map(|_| rng.below(n) as usize));
    Case { nkeys: 1, progs, sched, persistent: rng.chance(1, 12) }
}

fn gen_case(rng: &mut Rng) -> Case {
    if rng.chance(1, 6) {
        return gen_aba(rng);
    }
    let nthreads = rng.range(2, 4) as usize;
    let nkeys = if rng.chance(2, 3) { 1 } else { 2 };
    let style = rng.below(3);
    let flavour = rng.below(4);
    let mut progs = Vec::new();
    let mut total = 0;
    for _ in 0..nthreads {
        let n = rng.range(1, 3);
        total += n;
        progs.push((0..n).map(|_| gen_op(rng, nkeys, style, flavour)).collect::<Vec<_>>());
    }
    // a preamble by thread 0 half of the time, so that races start from a present key
    if rng.chance(1, 2) {
        let v = match flavour {
            1 => V::C(0),
            2 => V::B(0),
            3 => V::J(vec![]),
            _ => gen_val(rng),
        };
        progs[0].insert(0, Op::Upsert(0, v, if style == 0 { None } else { Some(5) }));
    }
    let len = rng.range(total, 4 * total + 4);
    let sched = (0..len).map(|_| rng.below(nthreads as u64) as usize).collect();
    Case { nkeys, progs, sched, persistent: rng.chance(1, 12) }
}

// ---- controller ----
struct St {
    turn: Option<usize>,
    finished: Vec<bool>,
}
struct Ctl {
    m: Mutex<St>,
    cv: Condvar,
    hung: std::sync::atomic::AtomicBool,
}

impl Ctl {
    fn wait_turn(&self, i: usize) {
        let mut g = self.m.lock().unwrap();
        while g.turn != Some(i) {
            g = self.cv.wait(g).unwrap();
        }
    }
    fn pass(&self, i: usize) {
        let mut g = self.m.lock().unwrap();
        g.turn = None;
        self.cv.notify_all();
        while g.turn != Some(i) {
            g = self.cv.wait(g).unwrap();
        }
    }
    fn finish(&self, i: usize) {
        let mut g = self.m.lock().unwrap();
        g.finished[i] = true;
        g.turn = None;
        self.cv.notify_all();
    }
    /// let thread i run one segment; false when it has already finished
    fn grant(&self, i: usize) -> bool {
        let mut g = self.m.lock().unwrap();
        if g.finished[i] {
            return false;
        }
        g.turn = Some(i);
        self.cv.notify_all();
        while g.turn.is_some() {
            let (g2, to) = self.cv.wait_timeout(g, Duration::from_secs(20)).unwrap();
            g = g2;
            if to.timed_out() && g.turn.is_some() {
                self.hung.store(true, Ordering::SeqCst);
                return true;
            }
        }
        true
    }
    fn all_finished(&self) -> Option<usize> {
        let g = self.m.lock().unwrap();
        g.finished.iter().position(|f| !f)
    }
}

enum Slot {
    Controlled(Arc<Ctl>, usize),
    Free(u64),
}
thread_local! {
    static SLOT: RefCell<Option<Slot>> = const { RefCell::new(None) };
}

fn point(name: &'static str) {
    if !name.starts_with("c07_") {
        return;
    }
    let act = SLOT.with(|s| match &mut *s.borrow_mut() {
        Some(Slot::Controlled(c, i)) => Some((Some(c.clone()), *i)),
        Some(Slot::Free(x)) => {
            *x = x.wrapping_mul(6364136223846793005).wrapping_add(1442695040888963407);
            Some((None, ((*x >> 33) % 4) as usize))
        }
        None => None,
    });
    match act {
        Some((Some(c), i)) => c.pass(i),
        Some((None, r)) => {
            if r == 0 {
                std::thread::yield_now();
            } else if r == 1 {
                std::thread::sleep(Duration::from_micros(30));
            }
        }
        None => {}
    }
}

fn open_store(persistent: bool, path: &str) -> FeoxStore {
    let mut b = FeoxStore::builder().hash_bits(6).no_memory_limit();
    if persistent {
        let _ = std::fs::remove_file(path);
        b = b.device_path(path.to_string()).file_size(256 * 4096).enable_caching(true);
    }
    b.build().expect("store")
}

struct RunOut {
    acct: Option<String>,
    resps: Vec<Vec<String>>,
    finals: Vec<String>,
    hist: Vec<String>, // id,op,inv,res,resp
    shards: Vec<usize>,
    hung: bool,
}

fn final_gets(store: &FeoxStore, nkeys: u64, hist: &mut Vec<String>, base_id: usize, t0: u64) -> Vec<String> {
    let mut finals = Vec::new();
    for k in 0..nkeys {
        let r = exec(store, &Op::Get(k), 0);
        hist.push(format!("{},g.{k},{},{},{r}", base_id + k as usize, t0 + 2 * k, t0 + 2 * k + 1));
        finals.push(format!("{k}:{}", r.strip_prefix("v:").map_or("-".to_string(), |v| v.to_string())));
    }
    finals
}

/// C13 at quiescence: memory_usage() = sum over live keys of (record overhead + key + value), len() = live keys
fn accounting(store: &FeoxStore) -> Option<String> {
    let overhead = FeoxStore::verif_record_overhead();
    let snap = store.verif_snapshot();
    let want: usize = snap.iter().map(|r| overhead + r.key.len() + r.value_len).sum();
    let got = store.memory_usage();
    if got != want {
        return Some(format!("memory-usage-differs-from-the-live-records-at-quiescence reported={got} live-sum={want} keys={}", snap.len()));
    }
    if store.len() != snap.len() {
        return Some(format!("len-differs-from-the-live-keys-at-quiescence len={} live={}", store.len(), snap.len()));
    }
    None
}

fn run_controlled(case: &Case, path: &str, seed: u64) -> RunOut {
    let store = Arc::new(open_store(case.persistent, path));
    let shards: Vec<usize> = (0..case.nkeys).map(|k| store.verif_clock_shard(&key_bytes(k))).collect();
    let n = case.progs.len();
    let ctl = Arc::new(Ctl { m: Mutex::new(St { turn: None, finished: vec![false; n] }), cv: Condvar::new(), hung: Default::default() });
    let step = Arc::new(AtomicU64::new(0));
    let mut handles = Vec::new();
    for (i, prog) in case.progs.iter().cloned().enumerate() {
        let ctl = ctl.clone();
        let store = store.clone();
        let step = step.clone();
        handles.push(std::thread::spawn(move || {
            SLOT.with(|s| *s.borrow_mut() = Some(Slot::Controlled(ctl.clone(), i)));
            ctl.wait_turn(i);
            let mut out = Vec::new();
            let last = prog.len() - 1;
            for (j, op) in prog.iter().enumerate() {
                let inv = step.load(Ordering::SeqCst);
                let r = exec(&store, op, seed.wrapping_add((i * 7 + j) as u64));
                let res = step.load(Ordering::SeqCst);
                out.push((op.tok(), 2 * inv, 2 * res + 1, r));
                if j < last {
                    ctl.pass(i);
                }
            }
            SLOT.with(|s| *s.borrow_mut() = None);
            ctl.finish(i);
            out
        }));
    }
    for &t in &case.sched {
        step.fetch_add(1, Ordering::SeqCst);
        ctl.grant(t);
        if ctl.hung.load(Ordering::SeqCst) {
            break;
        }
    }
    while let Some(i) = ctl.all_finished() {
        if ctl.hung.load(Ordering::SeqCst) {
            break;
        }
        step.fetch_add(1, Ordering::SeqCst);
        ctl.grant(i);
    }
    let hung = ctl.hung.load(Ordering::SeqCst);
    if hung {
        // threads are stuck: leak everything
        std::mem::forget(handles);
        std::mem::forget(store);
        return RunOut { acct: None, resps: vec![], finals: vec![], hist: vec![], shards, hung };
    }
    let mut resps = Vec::new();
    let mut hist = Vec::new();
    let mut id = 1;
    for h in handles {
        let out = h.join().unwrap();
        resps.push(out.iter().map(|o| o.3.clone()).collect::<Vec<_>>());
        for (tok, inv, res, r) in out {
            hist.push(format!("{id},{tok},{inv},{res},{r}"));
            id += 1;
        }
    }
    let t0 = 2 * (step.load(Ordering::SeqCst) + 2);
    let finals = final_gets(&store, case.nkeys, &mut hist, id, t0);
    let acct = accounting(&store);
    drop_store(store, case.persistent, path);
    RunOut { acct, resps, finals, hist, shards, hung }
}

fn drop_store(store: Arc<FeoxStore>, persistent: bool, path: &str) {
    drop(store);
    if persistent {
        let _ = std::fs::remove_file(path);
    }
}

fn run_free(case: &Case, path: &str, seed: u64) -> RunOut {
    let store = Arc::new(open_store(case.persistent, path));
    let clock = Arc::new(AtomicU64::new(1));
    let barrier = Arc::new(std::sync::Barrier::new(case.progs.len()));
    let mut handles = Vec::new();
    for (i, prog) in case.progs.iter().cloned().enumerate() {
        let store = store.clone();
        let clock = clock.clone();
        let barrier = barrier.clone();
        handles.push(std::thread::spawn(move || {
            SLOT.with(|s| *s.borrow_mut() = Some(Slot::Free(seed.wrapping_mul(31).wrapping_add(i as u64) | 1)));
            barrier.wait();
            let mut out = Vec::new();
            for (j, op) in prog.iter().enumerate() {
                let inv = clock.fetch_add(1, Ordering::SeqCst);
                let r = exec(&store, op, seed.wrapping_add((i * 7 + j) as u64));
                let res = clock.fetch_add(1, Ordering::SeqCst);
                out.push((op.tok(), inv, res, r));
            }
            SLOT.with(|s| *s.borrow_mut() = None);
            out
        }));
    }
    let mut hist = Vec::new();
    let mut resps = Vec::new();
    let mut id = 1;
    for h in handles {
        let out = h.join().unwrap();
        resps.push(out.iter().map(|o| o.3.clone()).collect::<Vec<_>>());
        for (tok, inv, res, r) in out {
            hist.push(format!("{id},{tok},{inv},{res},{r}"));
            id += 1;
        }
    }
    let t0 = clock.load(Ordering::SeqCst) + 2;
    let finals = final_gets(&store, case.nkeys, &mut hist, id, t0);
    let acct = accounting(&store);
    drop_store(store, case.persistent, path);
    RunOut { acct, resps, finals, hist, shards: vec![], hung: false }
}

pub fn run(opts: &Opts) -> i32 {
    let dir = opts.str("out", "/verif/.build/cases/conc");
    let seed = opts.u64("seed", 1);
    let shards = opts.u64("shards", 16);
    let mode = opts.str("mode", "sched");
    let per = opts.u64("n", if opts.thorough() { 6000 } else { 300 });
    let accounting_on = opts.u64("accounting", 0) == 1;
    if mode == "mem" {
        return run_mem(opts);
    }
    std::fs::create_dir_all(format!("{dir}/dev")).unwrap();
    let cb: feoxdb::verif::sched::Callback = Arc::new(point);
    feoxdb::verif::sched::install(Some(cb));
    let mut handles = Vec::new();
    for sh in 0..shards {
        let dir = dir.clone();
        let mode = mode.clone();
        handles.push(std::thread::spawn(move || {
            let mut out = Out::new(&dir, &format!("s{sh}"));
            let mut rng = Rng::new(seed.wrapping_mul(7_368_787).wrapping_add(sh * 101 + if mode == "hist" { 50 } else { 0 }));
            let path = format!("{dir}/dev/conc_{sh}.feox");
            let mut kinds = std::collections::BTreeMap::<String, u64>::new();
            for i in 0..per {
                let case = gen_case(&mut rng);
                let cseed = rng.next();
                let prog_s = case.progs.iter().map(|p| p.iter().map(|o| o.tok()).collect::<Vec<_>>().join("|")).collect::<Vec<_>>().join(";");
                let free = mode == "hist" && i % 2 == 1;
                let r = if free { run_free(&case, &path, cseed) } else { run_controlled(&case, &path, cseed) };
                if r.hung {
                    out.emit3(&format!("note hung prog={prog_s}"), "note", &format!("FAIL a-call-did-not-return-within-20s prog={prog_s} sched={:?}", case.sched));
                    continue;
                }
                for rs in r.resps.iter().flatten() {
                    *kinds.entry(rs.split(':').next().unwrap_or("").split('-').next().unwrap_or("").to_string()).or_default() += 1;
                }
                let unexpected = r.resps.iter().flatten().find(|x| x.starts_with("err-") || x.contains("unknown-bytes"));
                let verdict = match (unexpected, &r.acct) {
                    (Some(x), _) => format!("FAIL unexpected-response {x} prog={prog_s}"),
                    (None, Some(a)) if accounting_on => format!("FAIL {a} prog={prog_s}"),
                    _ => "ok".to_string(),
                };
                if mode == "sched" {
                    let shards_s = r.shards.iter().enumerate().map(|(k, s)| format!("{k}:{s}")).collect::<Vec<_>>().join(",");
                    let keys_s = (0..case.nkeys).map(|k| k.to_string()).collect::<Vec<_>>().join(",");
                    let sched_s = case.sched.iter().map(|t| t.to_string()).collect::<Vec<_>>().join(",");
                    let impl_s = format!(
                        "{} final={}",
                        r.resps.iter().enumerate().map(|(t, rs)| format!("t{t}={}", rs.join(","))).collect::<Vec<_>>().join(";"),
                        r.finals.join(",")
                    );
                    out.emit3(&format!("conc shards={shards_s} keys={keys_s} prog={prog_s} sched={sched_s} p={}", case.persistent as u8), &impl_s, &verdict);
                } else {
                    out.emit3(&format!("hist {}", r.hist.join(" ")), "lin=1", &verdict);
                }
            }
            (out.finish(), kinds)
        }));
    }
    let mut total = 0;
    let mut all = std::collections::BTreeMap::<String, u64>::new();
    for h in handles {
        let (n, k) = h.join().unwrap();
        total += n;
        for (a, b) in k {
            *all.entry(a).or_default() += b;
        }
    }
    let dist = all.iter().map(|(k, v)| format!("\"{k}\": {v}")).collect::<Vec<_>>().join(", ");
    std::fs::write(format!("{dir}/stats.json"), format!("{{\"mode\": \"{mode}\", \"responses\": {{{dist}}}}}")).unwrap();
    println!("conc mode={mode}: {total} cases");
    0
}


/// mode=mem (C13): creators, growers and deleters racing against a memory limit that admits only
/// some of them; a monitor samples memory_usage(): it must never exceed the limit; at quiescence
/// the accounting must be exact.
fn run_mem(opts: &Opts) -> i32 {
    let dir = opts.str("out", "/verif/.build/cases/conc");
    let seed = opts.u64("seed", 1);
    let n = opts.u64("n", if opts.thorough() { 400 } else { 24 });
    let mut out = Out::new(&dir, "s0");
    let mut rng = Rng::new(seed.wrapping_mul(99_991));
    let overhead = FeoxStore::verif_record_overhead();
    let mut refused = 0u64;
    for case in 0..n {
        let nkeys = rng.range(2, 8);
        let limit = (rng.range(2, 6) as usize) * (overhead + 4 + 3000);
        let store = Arc::new(FeoxStore::builder().hash_bits(6).max_memory(limit).build().expect("store"));
        let stop = Arc::new(std::sync::atomic::AtomicBool::new(false));
        let over = Arc::new(AtomicU64::new(0));
        let oom = Arc::new(AtomicU64::new(0));
        let mut hs = Vec::new();
        {
            let (store, stop, over) = (store.clone(), stop.clone(), over.clone());
            hs.push(std::thread::spawn(move || {
                while !stop.load(Ordering::Relaxed) {
                    let u = store.memory_usage();
                    if u > limit {
                        over.fetch_max(u as u64, Ordering::Relaxed);
                    }
                }
            }));
        }
        for t in 0..4u64 {
            let (store, stop, oom) = (store.clone(), stop.clone(), oom.clone());
            let mut rng = rng.fork();
            hs.push(std::thread::spawn(move || {
                while !stop.load(Ordering::Relaxed) {
                    let k = key_bytes(rng.below(nkeys));
                    let v = vec![b'a' + t as u8; rng.range(1, 6000) as usize];
                    let r = match rng.below(8) {
                        0 | 1 => store.delete(&k).map(|_| true),
                        2 => store.insert_bytes(&k, bytes::Bytes::from(v)),
                        3 => store.insert_if_absent(&k, &v),
                        _ => store.insert(&k, &v),
                    };
                    if matches!(r, Err(FeoxError::OutOfMemory)) {
                        oom.fetch_add(1, Ordering::Relaxed);
                    }
                }
            }));
        }
        std::thread::sleep(Duration::from_millis(60));
        stop.store(true, Ordering::Relaxed);
        for h in hs {
            let _ = h.join();
        }
        refused += oom.load(Ordering::Relaxed);
        let verdict = if over.load(Ordering::Relaxed) > 0 {
            format!("FAIL memory-usage-above-the-limit-while-writers-race peak={} limit={limit}", over.load(Ordering::Relaxed))
        } else if let Some(a) = accounting(&store) {
            format!("FAIL {a}")
        } else {
            "ok".to_string()
        };
        out.emit3(&format!("note mem case={case} keys={nkeys} limit={limit} refused={}", oom.load(Ordering::Relaxed)), "note", &verdict);
    }
    std::fs::write(format!("{dir}/stats.json"), format!("{{\"mode\": \"mem\", \"writes_refused_for_memory\": {refused}}}")).unwrap();
    let total = out.finish();
    println!("conc mode=mem: {total} cases");
    0
}
