use std::collections::HashMap;
use std::fs::File;
use std::io::{BufWriter, Write};

pub struct Opts {
    map: HashMap<String, String>,
}

impl Opts {
    pub fn parse(args: &[String]) -> Self {
        let mut map = HashMap::new();
        for a in args {
            if let Some((k, v)) = a.split_once('=') {
                map.insert(k.to_string(), v.to_string());
            }
        }
        Opts { map }
    }
    pub fn get(&self, k: &str) -> Option<&str> {
        self.map.get(k).map(|s| s.as_str())
    }
    pub fn u64(&self, k: &str, d: u64) -> u64 {
        self.get(k).and_then(|v| v.parse().ok()).unwrap_or(d)
    }
    pub fn str(&self, k: &str, d: &str) -> String {
        self.get(k).unwrap_or(d).to_string()
    }
    pub fn thorough(&self) -> bool {
        self.get("tier") == Some("thorough")
    }
}

/// splitmix64: every random choice derives from one seed.
#[derive(Clone)]
pub struct Rng(pub u64);
impl Rng {
    pub fn new(seed: u64) -> Self {
        Rng(seed ^ 0x9E37_79B9_7F4A_7C15)
    }
    pub fn next(&mut self) -> u64 {
        self.0 = self.0.wrapping_add(0x9E37_79B9_7F4A_7C15);
        let mut z = self.0;
        z = (z ^ (z >> 30)).wrapping_mul(0xBF58_476D_1CE4_E5B9);
        z = (z ^ (z >> 27)).wrapping_mul(0x94D0_49BB_1331_11EB);
        z ^ (z >> 31)
    }
    pub fn below(&mut self, n: u64) -> u64 {
        if n == 0 {
            0
        } else {
            self.next() % n
        }
    }
    pub fn range(&mut self, lo: u64, hi: u64) -> u64 {
        lo + self.below(hi - lo + 1)
    }
    pub fn chance(&mut self, num: u64, den: u64) -> bool {
        self.below(den) < num
    }
    pub fn pick<'a, T>(&mut self, v: &'a [T]) -> &'a T {
        &v[self.below(v.len() as u64) as usize]
    }
    pub fn fork(&mut self) -> Rng {
        Rng(self.next())
    }
}

/// Output pair: cases for the model, results of the implementation.
pub struct Out {
    pub cases: BufWriter<File>,
    pub impl_: BufWriter<File>,
    pub oracle: BufWriter<File>,
    pub n: u64,
    prefix: String,
}

impl Out {
    pub fn new(dir: &str, shard: &str) -> Self {
        std::fs::create_dir_all(dir).unwrap();
        let cases = BufWriter::new(File::create(format!("{dir}/cases.{shard}.txt")).unwrap());
        let impl_ = BufWriter::new(File::create(format!("{dir}/impl.{shard}.txt")).unwrap());
        let oracle = BufWriter::new(File::create(format!("{dir}/oracle.{shard}.txt")).unwrap());
        Out { cases, impl_, oracle, n: 0, prefix: shard.to_string() }
    }
    pub fn emit(&mut self, case: &str, result: &str) {
        let id = format!("{}-{}", self.prefix, self.n);
        self.n += 1;
        writeln!(self.cases, "{id} {case}").unwrap();
        writeln!(self.impl_, "{id} {result}").unwrap();
    }
    /// Like `emit`, plus the verdict of the implementation-side property oracle
    /// ("ok" or "FAIL <why>"); only FAIL lines are written.
    pub fn emit3(&mut self, case: &str, result: &str, verdict: &str) {
        if verdict != "ok" {
            let id = format!("{}-{}", self.prefix, self.n);
            writeln!(self.oracle, "{id} {verdict}").unwrap();
        }
        self.emit(case, result);
    }
    pub fn finish(mut self) -> u64 {
        self.oracle.flush().unwrap();
        self.cases.flush().unwrap();
        self.impl_.flush().unwrap();
        self.n
    }
}

pub fn hex(b: &[u8]) -> String {
    let mut s = String::with_capacity(b.len() * 2);
    for x in b {
        s.push_str(&format!("{:02x}", x));
    }
    if s.is_empty() {
        s.push('-');
    }
    s
}
