//! C01 / C11 / C12 / C13 / C14 / C16 (sequential): long mixed call sequences on the real store in
//! every configuration, against the reference map `Model.Lww` (T-eq on whole sequences).
use crate::img::{fnv1a, seed_legacy_device};
use crate::util::{hex, Opts, Out, Rng};
use feoxdb::{FeoxError, FeoxStore};

#[derive(Clone)]
pub struct Cfg {
    pub extreme: bool,
    pub persistent: bool,
    pub cache: bool,
    pub ttl: bool,
    pub version: u32,
    pub limit: Option<usize>,
    pub blocks: u64,
    /// 0 = the general mix; 1 = range queries with small limits over key sets holding expired entries
    pub focus: u8,
    /// judge automatic timestamps (the C12 oracle); other properties only compare with the model
    pub autocheck: bool,
}

fn now_ns() -> u64 {
    std::time::SystemTime::now().duration_since(std::time::UNIX_EPOCH).unwrap().as_nanos() as u64
}

fn err_str(e: &FeoxError) -> String {
    match e {
        FeoxError::KeyNotFound => "err:notfound".into(),
        FeoxError::OlderTimestamp => "err:older".into(),
        FeoxError::OutOfMemory => "err:oom".into(),
        FeoxError::InvalidKeySize => "err:badkey".into(),
        FeoxError::InvalidValueSize => "err:badvalue".into(),
        FeoxError::TtlNotEnabled => "err:ttloff".into(),
        FeoxError::Unsupported => "err:unsupported".into(),
        FeoxError::InvalidOperation => "err:invalidop".into(),
        FeoxError::JsonPatchError(_) => "err:json".into(),
        other => format!("err:other:{other}"),
    }
}

/// value spec understood by the model driver too
#[derive(Clone)]
enum Val {
    Hex(Vec<u8>),
    Zeros(usize),
    Rand(u64, usize),
}

impl Val {
    fn bytes(&self) -> Vec<u8> {
        match self {
            Val::Hex(v) => v.clone(),
            Val::Zeros(n) => vec![0; *n],
            Val::Rand(seed, n) => {
                let mut x = seed.wrapping_mul(0x9E3779B97F4A7C15) | 1;
                (0..*n)
                    .map(|_| {
                        x ^= x << 13;
                        x ^= x >> 7;
                        x ^= x << 17;
                        (x & 0xff) as u8
                    })
                    .collect()
            }
        }
    }
    fn spec(&self) -> String {
        match self {
            Val::Hex(v) => hex(v),
            Val::Zeros(n) => format!("@z{n}"),
            Val::Rand(s, n) => format!("@r{s},{n}"),
        }
    }
}

fn open(cfg: &Cfg, path: &str) -> feoxdb::Result<FeoxStore> {
    let mut b = FeoxStore::builder().hash_bits(8).enable_ttl(cfg.ttl);
    b = match cfg.limit {
        Some(l) => b.max_memory(l),
        None => b.no_memory_limit(),
    };
    if cfg.persistent {
        b = b.device_path(path.to_string()).file_size(cfg.blocks * 4096).enable_caching(cfg.cache);
    }
    b.build()
}

fn snapshot_hash(store: &FeoxStore) -> String {
    let mut s = String::new();
    for r in store.verif_snapshot() {
        s.push_str(&format!("{}:{}:{}:{};", hex(&r.key), r.timestamp, r.ttl_expiry, r.value_len));
    }
    format!("{:016x}", fnv1a(s.as_bytes()))
}

fn ts_str(ts: Option<u64>) -> String {
    ts.map_or("-".to_string(), |t| t.to_string())
}

struct Runner {
    cfg: Cfg,
    path: String,
    store: Option<FeoxStore>,
    case: String,
    res: Vec<String>,
    /// last successfully written value per key, from the implementation's own answers
    /// (needed only to evaluate JSON patches outside the store)
    shadow: std::collections::HashMap<Vec<u8>, Vec<u8>>,
    verdict: Option<String>,
    tiers: [u64; 3],
    near_max_accepted: bool,
    /// keys for which the application itself supplied the maximum timestamp
    pinned: std::collections::HashSet<Vec<u8>>,
}

impl Runner {
    fn store(&self) -> &FeoxStore {
        self.store.as_ref().unwrap()
    }

    fn env(&self, key: &[u8], tb: u64, ta: u64) -> String {
        let st = self.store();
        let sh = st.verif_clock_shard(key);
        format!("sh={sh} clk={} tb={tb} ta={ta}", st.verif_clock_value(sh))
    }

    fn finish_op(&mut self, opline: String, result: String) {
        let line = {
            let st = self.store();
            format!("{result} m={} n={} s={}", st.memory_usage(), st.len(), snapshot_hash(st))
        };
        self.case.push_str(" | ");
        self.case.push_str(&opline);
        if result.contains("other:") && self.verdict.is_none() {
            self.verdict = Some(format!("FAIL unexpected-error-kind {result}"));
        }
        self.res.push(line);
    }

    /// C12 on the implementation's own answers: an automatically timestamped call must not be
    /// answered OlderTimestamp unless the key itself is pinned at the maximum timestamp.
    fn check_auto(&mut self, key: &[u8], ts: Option<u64>, key_ts_before: Option<u64>, result: &str) {
        if let Some(t) = ts {
            // F2 class: an accepted explicit timestamp close enough to the maximum for the automatic
            // writes of one sequence to carry the clock shard to u64::MAX
            if t >= u64::MAX - 1000 && !result.starts_with("err") {
                self.near_max_accepted = true;
            }
            if t == u64::MAX && !result.starts_with("err") {
                self.pinned.insert(key.to_vec());
            }
        }
        let auto = ts.map_or(true, |t| t == 0);
        if self.cfg.autocheck && auto && result == "err:older" && !self.pinned.contains(key) && self.verdict.is_none() {
            self.verdict = Some(format!(
                "FAIL auto-write-rejected-as-older key={} key_ts={:?} class={}",
                hex(&key[..key.len().min(16)]),
                key_ts_before,
                if self.near_max_accepted { "near-max-accepted" } else { "unexplained" }
            ));
        }
    }

    fn key_ts(&self, key: &[u8]) -> Option<u64> {
        self.store().verif_snapshot().iter().find(|r| r.key == key).map(|r| r.timestamp)
    }

    fn note_tier(&mut self, key: &[u8]) {
        if let Some(r) = self.store().verif_snapshot().iter().find(|r| r.key == key) {
            if r.resident {
                self.tiers[0] += 1;
            } else if r.sector != 0 {
                self.tiers[1] += 1;
            } else {
                self.tiers[2] += 1;
            }
        }
    }
}

fn gen_key(rng: &mut Rng, nkeys: u64, cfg: &Cfg) -> Vec<u8> {
    if rng.chance(1, 60) {
        return match rng.below(4) {
            0 => vec![],
            1 => vec![b'q'; 4067],
            2 => vec![b'q'; 4075],
            _ => vec![b'w'; 102401],
        };
    }
    if !cfg.persistent && rng.chance(1, 12) {
        // memory-only stores take keys up to 100 KiB: lengths around 2^16 (the width of the
        // record's own length field) and the maximum, repeated so that they get updated and deleted
        let n = *rng.pick(&[65_535usize, 65_536, 65_537, 70_000, 102_400]);
        return vec![b'K'; n];
    }
    if cfg.persistent && rng.chance(1, 40) {
        let n = if cfg.version == 1 { 4074 } else { 4066 };
        let mut k = vec![b'L'; n];
        k[0] = b'0' + rng.below(2) as u8;
        return k;
    }
    let i = rng.below(nkeys);
    match i % 5 {
        0 => format!("user:{i}").into_bytes(),
        1 => format!("user:{i}:x").into_bytes(),
        2 => vec![b'u', i as u8],
        3 => format!("ctr{i}").into_bytes(),
        _ => format!("json{i}").into_bytes(),
    }
}

fn gen_value(rng: &mut Rng, tag: u64) -> Val {
    if rng.chance(1, 150) {
        return if rng.chance(1, 2) { Val::Zeros(4 * 1024 * 1024 + 1) } else { Val::Rand(tag, 4 * 1024 * 1024) };
    }
    match rng.below(24) {
        0 => Val::Hex(vec![]),
        1 | 2 => Val::Rand(tag, rng.range(200, 3000) as usize),
        3 | 4 => Val::Rand(tag, rng.range(4000, 4200) as usize),
        5 => Val::Rand(tag, rng.range(8100, 12400) as usize),
        6 => Val::Hex(1i64.to_le_bytes().to_vec()),
        7 | 8 => Val::Hex(format!("{{\"a\":{},\"b\":\"x{}\"}}", rng.below(100), rng.below(10)).into_bytes()),
        _ => Val::Rand(tag, rng.range(1, 200) as usize),
    }
}

fn gen_ts(rng: &mut Rng, store: &FeoxStore, key: &[u8], now: u64, extreme: bool) -> Option<u64> {
    let cur = store.verif_snapshot().iter().find(|r| r.key == key).map(|r| r.timestamp);
    if extreme && rng.chance(1, 12) {
        return Some(u64::MAX - rng.below(2));
    }
    match rng.below(14) {
        0 => Some(0),
        1 => Some(rng.range(1, 1000)),
        2 => cur,
        3 => cur.map(|c| c.saturating_add(1)),
        4 => cur.map(|c| c.saturating_sub(1).max(1)),
        5 => Some(now + 36_000_000_000_000 + rng.below(1000)),
        6 => Some(u64::MAX - 3 - rng.below(100)),
        7 => Some(now - 4 * 3_600_000_000_000 - rng.below(1_000_000)),
        _ => None,
    }
}

fn gen_ttl(rng: &mut Rng) -> u64 {
    match rng.below(8) {
        0 => 0,
        1 => rng.range(1, 3000),
        2 => u64::MAX,
        // around the largest number of seconds whose nanoseconds still fit in 64 bits
        3 => *rng.pick(&[u64::MAX / 1_000_000_000, u64::MAX / 1_000_000_000 + 1, u64::MAX / 1_000_000_000 + 2, 2 * (u64::MAX / 1_000_000_000) + 5, u64::MAX / 2]),
        _ => rng.range(7200, 200_000),
    }
}

const PATCHES: &[&str] = &[
    r#"[{"op":"replace","path":"/a","value":7}]"#,
    r#"[{"op":"add","path":"/c","value":[1,2,3]}]"#,
    r#"[{"op":"remove","path":"/b"}]"#,
    r#"[{"op":"test","path":"/a","value":1},{"op":"add","path":"/t","value":true}]"#,
    r#"[{"op":"remove","path":"/zzz"}]"#,
    r#"not a patch"#,
    r#"[{"op":"add","path":"/big","value":"xxxxxxxxxxxxxxxxxxxxxxxxxxxxxxxxxxxxxxxxxxxxxxxxxxxxxxxxxxxxxxxx"}]"#,
];

pub fn run_sequence(cfg: &Cfg, seed: u64, nops: usize, path: &str) -> (String, String, String, [u64; 3]) {
    let mut rng = Rng::new(seed);
    let _ = std::fs::remove_file(path);
    if cfg.persistent && cfg.version < 3 {
        seed_legacy_device(path, cfg.blocks, cfg.version, rng.chance(1, 2));
    }
    let store = match open(cfg, path) {
        Ok(s) => s,
        Err(e) => return ("note open-failed".into(), "note".into(), format!("FAIL cannot-open-store {e}"), [0; 3]),
    };
    let recsize = FeoxStore::verif_record_overhead();
    let head = format!(
        "lww p={} ttl={} ver={} lim={} R={recsize} cache={}",
        cfg.persistent as u8,
        cfg.ttl as u8,
        cfg.version,
        cfg.limit.map_or("-".to_string(), |l| l.to_string()),
        cfg.cache as u8
    );
    let mut r = Runner {
        cfg: cfg.clone(),
        path: path.to_string(),
        store: Some(store),
        case: head,
        res: Vec::new(),
        shadow: Default::default(),
        verdict: None,
        tiers: [0; 3],
        near_max_accepted: false,
        pinned: Default::default(),
    };
    let nkeys = rng.range(3, 12);
    let mut reopens = 0;
    // In persistent configurations under a memory limit every sequence contains, at a fixed place, the
    // pattern: accept a key, refuse an update of it (too big for the limit) while its record is still
    // in the write-behind buffer, flush, reopen, read.
    let script_at = if cfg.persistent && cfg.limit.is_some() { nops / 2 } else { usize::MAX };
    for i in 0..nops {
        let key = gen_key(&mut rng, nkeys, cfg);
        let now = now_ns();
        let kind = if cfg.focus == 1 { [0, 0, 0, 0, 0, 84, 84, 84, 84, 42, 30, 76, 90, rng.below(100)][rng.below(14) as usize] } else { rng.below(100) };
        let step = i.wrapping_sub(script_at);
        let scripted = step < 5;
        let (key, kind) = if scripted { (format!("scripted-{seed}").into_bytes(), [0u64, 0, 90, 96, 30][step]) } else { (key, kind) };
        let forced_value = match step {
            0 => Some(Val::Rand(seed, 120)),
            1 => Some(Val::Rand(seed + 1, cfg.limit.unwrap_or(0))),
            _ => None,
        };
        // memory-only stores without a limit: a key at or beyond 2^16 bytes is created, rewritten
        // with a value of the same size, read and deleted
        let big_step = if !cfg.persistent && cfg.limit.is_none() { i.wrapping_sub(nops / 3) } else { usize::MAX };
        let big = big_step < 4;
        let (key, kind) = if big { (vec![b'K'; 65_536 + (seed % 4) as usize * 9_000], [0u64, 0, 30, 42][big_step]) } else { (key, kind) };
        let forced_value = if big && big_step < 2 { Some(Val::Rand(seed + big_step as u64, 64)) } else { forced_value };
        let scripted = scripted || big;
        let kh = if key.len() > 300 { format!("@r{},{}", 0, 0) } else { hex(&key) };
        // long keys are passed as a generated spec: first byte + fill
        let (key, kh) = if key.len() > 300 {
            let v = Val::Rand(key.len() as u64 + key.first().copied().unwrap_or(0) as u64, key.len());
            (v.bytes(), v.spec())
        } else {
            (key, kh)
        };
        r.note_tier(&key);
        match kind {
            0..=24 => {
                let v = gen_value(&mut rng, seed.wrapping_mul(1000).wrapping_add(i as u64));
                let v = forced_value.clone().unwrap_or(v);
                let vb = v.bytes();
                let ts = gen_ts(&mut rng, r.store(), &key, now, cfg.extreme);
                let ts = if scripted { None } else { ts };
                let use_ttl_api = if cfg.focus == 1 { rng.chance(2, 3) } else { rng.chance(1, 3) };
                let use_ttl_api = use_ttl_api && !scripted;
                let mut ttl = if use_ttl_api { gen_ttl(&mut rng) } else { 0 };
                if cfg.focus == 1 && use_ttl_api && rng.chance(1, 2) {
                    ttl = rng.range(1, 3000); // expired on arrival (timestamp four hours back, below)
                }
                // keep expiries at least an hour away from the wall clock
                let mut ts = ts;
                if use_ttl_api && ttl > 0 && ttl < 7200 {
                    ts = Some(now - 4 * 3_600_000_000_000 - rng.below(1_000_000));
                }
                if use_ttl_api && ttl >= 7200 {
                    if let Some(t) = ts {
                        if t != 0 && t < now {
                            ttl = 0;
                        }
                    }
                }
                let kts = r.key_ts(&key);
                let tb = now_ns();
                // every public spelling of the same call (slice / Bytes, with / without the defaults)
                let bytes_api = rng.chance(1, 2);
                let res = if use_ttl_api {
                    if ts.is_none() && rng.chance(1, 2) {
                        if bytes_api {
                            r.store().insert_bytes_with_ttl(&key, bytes::Bytes::from(vb.clone()), ttl)
                        } else {
                            r.store().insert_with_ttl(&key, &vb, ttl)
                        }
                    } else if bytes_api {
                        r.store().insert_bytes_with_ttl_and_timestamp(&key, bytes::Bytes::from(vb.clone()), ttl, ts)
                    } else {
                        r.store().insert_with_ttl_and_timestamp(&key, &vb, ttl, ts)
                    }
                } else if ts.is_none() && rng.chance(1, 2) {
                    if bytes_api {
                        r.store().insert_bytes(&key, bytes::Bytes::from(vb.clone()))
                    } else {
                        r.store().insert(&key, &vb)
                    }
                } else if bytes_api {
                    r.store().insert_bytes_with_timestamp(&key, bytes::Bytes::from(vb.clone()), ts)
                } else {
                    r.store().insert_with_timestamp(&key, &vb, ts)
                };
                let ta = now_ns();
                let out = match &res {
                    Ok(b) => {
                        r.shadow.insert(key.clone(), vb.clone());
                        b.to_string()
                    }
                    Err(e) => err_str(e),
                };
                r.check_auto(&key, ts, kts, &out);
                let env = r.env(&key, tb, ta);
                r.finish_op(format!("ins k={kh} v={} ts={} ttl={ttl} api={} {env}", v.spec(), ts_str(ts), use_ttl_api as u8), out);
            }
            25..=39 => {
                let tb = now_ns();
                let res = if rng.chance(1, 2) { r.store().get(&key) } else { r.store().get_bytes(&key).map(|b| b.to_vec()) };
                let ta = now_ns();
                let out = match &res {
                    Ok(v) => format!("val:{:016x}:{}", fnv1a(v), v.len()),
                    Err(e) => err_str(e),
                };
                let env = r.env(&key, tb, ta);
                r.finish_op(format!("get k={kh} {env}"), out);
            }
            40..=47 => {
                let ts = gen_ts(&mut rng, r.store(), &key, now, cfg.extreme);
                let ts = if scripted { None } else { ts };
                let kts = r.key_ts(&key);
                let tb = now_ns();
                let res = if ts.is_none() && rng.chance(1, 2) { r.store().delete(&key) } else { r.store().delete_with_timestamp(&key, ts) };
                let ta = now_ns();
                let out = match &res {
                    Ok(()) => {
                        r.shadow.remove(&key);
                        "ok".to_string()
                    }
                    Err(e) => err_str(e),
                };
                r.check_auto(&key, ts, kts, &out);
                let env = r.env(&key, tb, ta);
                r.finish_op(format!("del k={kh} ts={} {env}", ts_str(ts)), out);
            }
            48..=55 => {
                let ckey = if rng.chance(2, 3) { format!("ctr{}", rng.below(3)).into_bytes() } else { key.clone() };
                let ckh = if ckey.len() > 300 { kh.clone() } else { hex(&ckey) };
                let delta = match rng.below(6) {
                    0 => i64::MAX,
                    1 => i64::MIN,
                    _ => rng.below(20) as i64 - 5,
                };
                let ts = gen_ts(&mut rng, r.store(), &ckey, now, cfg.extreme);
                let ttl = if rng.chance(1, 5) { rng.range(7200, 100_000) } else { 0 };
                let ts = if ttl > 0 && ts.map_or(false, |t| t != 0 && t < now) { None } else { ts };
                let kts = r.key_ts(&ckey);
                let tb = now_ns();
                let res = match (ts, ttl, rng.below(2)) {
                    (None, 0, 0) => r.store().atomic_increment(&ckey, delta),
                    (_, 0, 0) => r.store().atomic_increment_with_timestamp(&ckey, delta, ts),
                    (None, _, 0) => r.store().atomic_increment_with_ttl(&ckey, delta, ttl),
                    _ => r.store().atomic_increment_with_timestamp_and_ttl(&ckey, delta, ts, ttl),
                };
                let ta = now_ns();
                let out = match &res {
                    Ok(v) => {
                        r.shadow.insert(ckey.clone(), v.to_le_bytes().to_vec());
                        format!("int:{v}")
                    }
                    Err(e) => err_str(e),
                };
                r.check_auto(&ckey, ts, kts, &out);
                let env = r.env(&ckey, tb, ta);
                r.finish_op(format!("incr k={ckh} d={delta} ts={} ttl={ttl} {env}", ts_str(ts)), out);
            }
            56..=60 => {
                let v = gen_value(&mut rng, seed.wrapping_mul(77).wrapping_add(i as u64));
                let vb = v.bytes();
                let tb = now_ns();
                let res = r.store().insert_if_absent(&key, &vb);
                let ta = now_ns();
                let out = match &res {
                    Ok(b) => {
                        if *b {
                            r.shadow.insert(key.clone(), vb.clone());
                        }
                        b.to_string()
                    }
                    Err(e) => err_str(e),
                };
                let env = r.env(&key, tb, ta);
                r.finish_op(format!("ifabs k={kh} v={} {env}", v.spec()), out);
            }
            61..=68 => {
                // compare-and-swap: expected is the right value two times out of three
                let cur = r.shadow.get(&key).cloned();
                let expected = match (&cur, rng.below(3)) {
                    (Some(c), 0 | 1) => Val::Hex(c.clone()),
                    _ => Val::Hex(b"nope".to_vec()),
                };
                let expected = if expected.bytes().len() > 2000 { Val::Hex(b"nope".to_vec()) } else { expected };
                let v = gen_value(&mut rng, seed.wrapping_mul(31).wrapping_add(i as u64));
                let ts = gen_ts(&mut rng, r.store(), &key, now, cfg.extreme);
                let ttl = if rng.chance(1, 5) { rng.range(7200, 100_000) } else { 0 };
                let ts = if ttl > 0 && ts.map_or(false, |t| t != 0 && t < now) { None } else { ts };
                let kts = r.key_ts(&key);
                let tb = now_ns();
                let res = match (ts, ttl, rng.below(2)) {
                    (None, 0, 0) => r.store().compare_and_swap(&key, &expected.bytes(), &v.bytes()),
                    (_, 0, 0) => r.store().compare_and_swap_with_timestamp(&key, &expected.bytes(), &v.bytes(), ts),
                    (None, _, 0) => r.store().compare_and_swap_with_ttl(&key, &expected.bytes(), &v.bytes(), ttl),
                    _ => r.store().compare_and_swap_with_timestamp_and_ttl(&key, &expected.bytes(), &v.bytes(), ts, ttl),
                };
                let ta = now_ns();
                let out = match &res {
                    Ok(b) => {
                        if *b {
                            r.shadow.insert(key.clone(), v.bytes());
                        }
                        b.to_string()
                    }
                    Err(e) => err_str(e),
                };
                r.check_auto(&key, ts, kts, &out);
                let env = r.env(&key, tb, ta);
                r.finish_op(format!("cas k={kh} x={} v={} ts={} ttl={ttl} {env}", expected.spec(), v.spec(), ts_str(ts)), out);
            }
            69..=73 => {
                let jkey = if rng.chance(2, 3) { format!("json{}", rng.below(3) * 5 + 4).into_bytes() } else { key.clone() };
                let jkh = if jkey.len() > 300 { kh.clone() } else { hex(&jkey) };
                let patch = PATCHES[rng.below(PATCHES.len() as u64) as usize].as_bytes();
                let ts = gen_ts(&mut rng, r.store(), &jkey, now, cfg.extreme);
                let patched = r
                    .shadow
                    .get(&jkey)
                    .and_then(|cur| feoxdb::utils::json_patch::apply_json_patch(cur, patch).ok());
                let kts = r.key_ts(&jkey);
                let tb = now_ns();
                let res = if ts.is_none() && rng.chance(1, 2) { r.store().json_patch(&jkey, patch) } else { r.store().json_patch_with_timestamp(&jkey, patch, ts) };
                let ta = now_ns();
                let out = match &res {
                    Ok(()) => {
                        if let Some(p) = &patched {
                            r.shadow.insert(jkey.clone(), p.clone());
                        }
                        "ok".to_string()
                    }
                    Err(e) => err_str(e),
                };
                r.check_auto(&jkey, ts, kts, &out);
                let env = r.env(&jkey, tb, ta);
                let pj = patched.as_ref().map_or("ERR".to_string(), |p| hex(p));
                r.finish_op(format!("json k={jkh} ts={} pj={pj} {env}", ts_str(ts)), out);
            }
            74..=78 => {
                let ttl = if rng.chance(1, 4) { 0 } else { rng.range(7200, 200_000) };
                let tb = now_ns();
                let res = if ttl == 0 && rng.chance(1, 2) { r.store().persist(&key) } else { r.store().update_ttl(&key, ttl) };
                let ta = now_ns();
                let out = match &res {
                    Ok(()) => "ok".to_string(),
                    Err(e) => err_str(e),
                };
                let newexp = r.store().verif_snapshot().iter().find(|x| x.key == key).map_or(0, |x| x.ttl_expiry);
                let env = r.env(&key, tb, ta);
                r.finish_op(format!("uttl k={kh} ttl={ttl} aux={newexp} {env}"), out);
            }
            79..=81 => {
                let tb = now_ns();
                let res = r.store().get_ttl(&key);
                let ta = now_ns();
                let (out, aux) = match &res {
                    Ok(None) => ("none".to_string(), 0),
                    Ok(Some(n)) => (format!("some:{n}"), *n),
                    Err(e) => (err_str(e), 0),
                };
                let env = r.env(&key, tb, ta);
                r.finish_op(format!("gttl k={kh} aux={aux} {env}"), out);
            }
            82..=86 => {
                let (a, b) = match rng.below(6) {
                    0 => (vec![], vec![0xff; 4]),
                    1 => (b"user:".to_vec(), b"user:~".to_vec()),
                    2 => (b"z".to_vec(), b"a".to_vec()),
                    3 => (key.clone(), key.clone()),
                    4 => (b"ctr".to_vec(), b"json9".to_vec()),
                    _ => (vec![b'u'], vec![b'u', 0xff, 0xff]),
                };
                let (a, b) = if a.len() > 300 || b.len() > 300 { (vec![], vec![0xff]) } else { (a, b) };
                let (a, b) = if cfg.focus == 1 && rng.chance(2, 3) { (vec![], vec![0xff; 4]) } else { (a, b) };
                let lim = match if cfg.focus == 1 { 5 + rng.below(5) } else { rng.below(5) } {
                    5..=9 => rng.range(1, 6) as usize,
                    0 => 0,
                    1 => 1,
                    2 => 2,
                    _ => 1000,
                };
                let tb = now_ns();
                let res = r.store().range_query(&a, &b, lim);
                let ta = now_ns();
                let out = match &res {
                    Ok(pairs) => {
                        let mut s = String::new();
                        for (k, v) in pairs {
                            s.push_str(&format!("{}:{:016x};", hex(k), fnv1a(v)));
                        }
                        format!("pairs:{}:{:016x}", pairs.len(), fnv1a(s.as_bytes()))
                    }
                    Err(e) => err_str(e),
                };
                r.finish_op(format!("range a={} b={} lim={lim} sh=0 clk=0 tb={tb} ta={ta}", hex(&a), hex(&b)), out);
            }
            87..=88 => {
                let out = format!("nat:{}", r.store().len());
                r.finish_op("len".to_string(), out);
                let c = r.store().contains_key(&key);
                r.finish_op(format!("has k={kh}"), c.to_string());
                let out = match r.store().get_size(&key) {
                    Ok(n) => format!("nat:{n}"),
                    Err(e) => err_str(&e),
                };
                r.finish_op(format!("size k={kh}"), out);
            }
            89..=93 => {
                let res = r.store().flush();
                let out = match &res {
                    Ok(()) => "ok".to_string(),
                    Err(e) => err_str(e),
                };
                r.finish_op("flush".to_string(), out);
            }
            94..=95 => {
                // full dump: every key read back through get()
                let tb = now_ns();
                let mut s = String::new();
                for rec in r.store().verif_snapshot() {
                    let v = match r.store().get(&rec.key) {
                        Ok(v) => format!("{:016x}", fnv1a(&v)),
                        Err(FeoxError::KeyNotFound) => "expired".to_string(),
                        Err(e) => err_str(&e),
                    };
                    s.push_str(&format!("{}:{}:{}:{};", hex(&rec.key), rec.timestamp, rec.ttl_expiry, v));
                }
                let ta = now_ns();
                r.finish_op(format!("dump sh=0 clk=0 tb={tb} ta={ta}"), format!("dump:{:016x}", fnv1a(s.as_bytes())));
            }
            96..=97 if cfg.persistent && (reopens < 2 || scripted) => {
                reopens += 1;
                // clean close and reopen
                let flushed = r.store().flush();
                if flushed.is_err() {
                    r.finish_op("flush".to_string(), err_str(&flushed.unwrap_err()));
                    continue;
                }
                r.finish_op("flush".to_string(), "ok".to_string());
                r.store = None; // Drop
                let tb = now_ns();
                match open(cfg, path) {
                    Ok(s) => r.store = Some(s),
                    Err(e) => {
                        r.verdict = Some(format!("FAIL reopen-failed {e}"));
                        break;
                    }
                }
                let ta = now_ns();
                let st = r.store();
                let mut shards = Vec::new();
                let mut clocks = std::collections::BTreeMap::new();
                for rec in st.verif_snapshot() {
                    let sh = st.verif_clock_shard(&rec.key);
                    shards.push(format!("{}:{sh}", hex(&rec.key)));
                    clocks.insert(sh, st.verif_clock_value(sh));
                }
                // every shard (keys that were deleted still have clocks after reopen = 0 or fed by losers)
                for sh in 0..64 {
                    clocks.entry(sh).or_insert_with(|| st.verif_clock_value(sh));
                }
                let shards = if shards.is_empty() { "-".to_string() } else { shards.join(",") };
                let clocks = clocks.iter().map(|(a, b)| format!("{a}:{b}")).collect::<Vec<_>>().join(",");
                r.finish_op(format!("reopen sh=0 clk=0 tb={tb} ta={ta} shards={shards} clocks={clocks}"), "reopened".to_string());
            }
            _ => {
                std::thread::sleep(std::time::Duration::from_millis(rng.below(130)));
            }
        }
    }
    // leave without Drop cost: forget the store (files are removed by the caller)
    if let Some(s) = r.store.take() {
        if cfg.persistent {
            let _ = s.flush();
        }
        std::mem::forget(s);
    }
    let _ = &r.cfg;
    let _ = &r.path;
    (r.case, r.res.join(" | "), r.verdict.unwrap_or_else(|| "ok".to_string()), r.tiers)
}

/// Directed replay of known finding F2 (C12): an accepted timestamp of 2^64-2 followed by an
/// automatic write saturates the clock shard; afterwards the second automatic write on any other
/// key of that shard is answered OlderTimestamp.
pub fn run_directed_f2() -> (String, String, String) {
    let cfg = Cfg { extreme: true, persistent: false, cache: false, ttl: false, version: 3, limit: None, blocks: 0, focus: 0, autocheck: true };
    let store = open(&cfg, "").unwrap();
    let recsize = FeoxStore::verif_record_overhead();
    let mut r = Runner {
        cfg: cfg.clone(),
        path: String::new(),
        store: Some(store),
        case: format!("lww p=0 ttl=0 ver=3 lim=- R={recsize} cache=0 directed=F2"),
        res: Vec::new(),
        shadow: Default::default(),
        verdict: None,
        tiers: [0; 3],
        near_max_accepted: false,
        pinned: Default::default(),
    };
    let mut put = |r: &mut Runner, key: &[u8], ts: Option<u64>| {
        let kts = r.key_ts(key);
        let tb = now_ns();
        let res = r.store().insert_with_timestamp(key, b"v", ts);
        let ta = now_ns();
        let out = match &res {
            Ok(b) => b.to_string(),
            Err(e) => err_str(e),
        };
        r.check_auto(key, ts, kts, &out);
        let env = r.env(key, tb, ta);
        r.finish_op(format!("ins k={} v=76 ts={} ttl=0 api=0 {env}", hex(key), ts_str(ts)), out);
    };
    put(&mut r, b"pinned-A", Some(u64::MAX - 1));
    put(&mut r, b"pinned-A", None);
    for i in 0..400 {
        let k = format!("fresh-{i}");
        put(&mut r, k.as_bytes(), None);
        put(&mut r, k.as_bytes(), None);
        if r.verdict.is_some() {
            break;
        }
    }
    if let Some(s) = r.store.take() {
        std::mem::forget(s);
    }
    (r.case, r.res.join(" | "), r.verdict.unwrap_or_else(|| "ok".to_string()))
}

/// Directed, oracle only (C12): a key pinned at exactly 2^64-1 is flushed and the store restarted;
/// afterwards no automatically timestamped write on any other key may be refused as older (the pin
/// must not leak into the clock shards through recovery).
pub fn run_directed_pin_restart(path: &str) -> (String, String, String) {
    let cfg = Cfg { extreme: true, persistent: true, cache: false, ttl: false, version: 3, limit: None, blocks: 4096, focus: 0, autocheck: true };
    let _ = std::fs::remove_file(path);
    let case = "note directed=pin-restart".to_string();
    let run = || -> Result<(), String> {
        let store = open(&cfg, path).map_err(|e| format!("cannot-create-store {e}"))?;
        store.insert_with_timestamp(b"pinned-A", b"v", Some(u64::MAX)).map_err(|e| format!("pin-refused {e}"))?;
        for i in 0..40 {
            store.insert(format!("before-{i}").as_bytes(), b"x").map_err(|e| format!("automatic-insert-refused-before-the-restart {e}"))?;
        }
        store.flush().map_err(|e| format!("flush-failed {e}"))?;
        drop(store);
        for round in 0..2 {
            let store = open(&cfg, path).map_err(|e| format!("cannot-reopen {e}"))?;
            for i in 0..300 {
                let k = format!("fresh-{round}-{i}");
                for step in 0..3 {
                    let r = match step {
                        0 | 1 => store.insert(k.as_bytes(), b"y").map(|_| ()),
                        _ => store.delete(k.as_bytes()),
                    };
                    if let Err(e) = r {
                        return Err(format!("automatically-timestamped-write-refused-on-a-never-pinned-key-after-a-restart key={k} step={step} error={e}"));
                    }
                }
            }
            store.flush().map_err(|e| format!("flush-failed {e}"))?;
            drop(store);
        }
        Ok(())
    };
    let verdict = match std::panic::catch_unwind(std::panic::AssertUnwindSafe(run)) {
        Ok(Ok(())) => "ok".to_string(),
        Ok(Err(e)) => format!("FAIL {e}"),
        Err(_) => "FAIL an-api-call-panicked".to_string(),
    };
    let _ = std::fs::remove_file(path);
    (case, "note".to_string(), verdict)
}

/// Directed, oracle only (C11): a key in the last second of its time-to-live is still alive: it can
/// be read, renewed (update_ttl) and made permanent (persist), and a renewal made in time keeps it
/// visible after the old expiry instant.
pub fn run_directed_last_second_renewal(path: &str) -> (String, String, String) {
    let mut status = "renewed-within-the-last-second";
    let mut run = |persistent: bool| -> Result<(), String> {
        let cfg = Cfg { extreme: false, persistent, cache: false, ttl: true, version: 3, limit: None, blocks: 4096, focus: 0, autocheck: false };
        let _ = std::fs::remove_file(path);
        let store = open(&cfg, path).map_err(|e| format!("cannot-create-store {e}"))?;
        let mut slow = false;
        for (k, what) in [("last-a", 0), ("last-b", 1), ("last-c", 2)] {
            let t0 = std::time::Instant::now();
            store.insert_with_ttl(k.as_bytes(), b"value", 1).map_err(|e| format!("insert {e}"))?;
            let r = match what {
                0 => store.update_ttl(k.as_bytes(), 3600).map(|_| ()),
                1 => store.persist(k.as_bytes()).map(|_| ()),
                _ => store.get(k.as_bytes()).map(|_| ()),
            };
            if t0.elapsed() > std::time::Duration::from_millis(800) {
                slow = true; // the machine took most of the second: not decidable
                continue;
            }
            if let Err(e) = r {
                let call = ["update_ttl", "persist", "get"][what];
                return Err(format!("unexpired-key-hidden ({call} answered {e} on a key with most of its last second left) persistent={persistent}"));
            }
        }
        if slow {
            status = "too-slow-to-decide";
            return Ok(());
        }
        std::thread::sleep(std::time::Duration::from_millis(1300));
        for k in ["last-a", "last-b"] {
            if store.get(k.as_bytes()).is_err() {
                return Err(format!("key-renewed-in-time-is-gone-after-its-old-expiry key={k} persistent={persistent}"));
            }
        }
        if store.get(b"last-c").is_ok() {
            return Err(format!("key-visible-after-its-expiry persistent={persistent}"));
        }
        Ok(())
    };
    let verdict = match std::panic::catch_unwind(std::panic::AssertUnwindSafe(|| run(false).and_then(|_| run(true)))) {
        Ok(Ok(())) => "ok".to_string(),
        Ok(Err(e)) => format!("FAIL {e}"),
        Err(_) => "FAIL an-api-call-panicked".to_string(),
    };
    let _ = std::fs::remove_file(path);
    (format!("note directed=last-second-renewal {status}"), "note".to_string(), verdict)
}

/// Directed (C11, "never hidden or removed while unexpired"): every call that takes an explicit
/// version timestamp, stamped two hours AHEAD of the wall clock, on keys with one hour to live.
/// A version timestamp is not the time: the key is unexpired by the wall clock, so each call must
/// find it (and act on it), and the keys the calls did not delete must still be there afterwards
/// and after a reopen, with an expiry that has not moved backwards.
pub fn run_directed_future_stamped(path: &str) -> (String, String, String) {
    let run = |persistent: bool| -> Result<(), String> {
        let cfg = Cfg { extreme: false, persistent, cache: false, ttl: true, version: 3, limit: None, blocks: 4096, focus: 0, autocheck: false };
        let _ = std::fs::remove_file(path);
        let store = open(&cfg, path).map_err(|e| format!("cannot-create-store {e}"))?;
        let ahead = now_ns() + 2 * 3_600_000_000_000;
        let hidden = |call: &str, e: &dyn std::fmt::Display| format!("unexpired-key-hidden ({call} stamped two hours ahead answered {e} on a key with an hour to live) persistent={persistent}");
        // counters
        store.atomic_increment_with_ttl(b"fs-counter", 5, 3600).map_err(|e| format!("setup {e}"))?;
        match store.atomic_increment_with_timestamp(b"fs-counter", 2, Some(ahead)) {
            Ok(7) => {}
            Ok(v) => return Err(format!("unexpired-counter-restarted (increment stamped two hours ahead answered {v}, the counter held 5) persistent={persistent}")),
            Err(e) => return Err(hidden("atomic_increment_with_timestamp", &e)),
        }
        store.atomic_increment_with_ttl(b"fs-counter-ttl", 5, 3600).map_err(|e| format!("setup {e}"))?;
        match store.atomic_increment_with_timestamp_and_ttl(b"fs-counter-ttl", 2, Some(ahead), 3600) {
            Ok(7) => {}
            Ok(v) => return Err(format!("unexpired-counter-restarted (increment with ttl stamped two hours ahead answered {v}, the counter held 5) persistent={persistent}")),
            Err(e) => return Err(hidden("atomic_increment_with_timestamp_and_ttl", &e)),
        }
        // compare-and-swap
        store.insert_with_ttl(b"fs-cas", b"before", 3600).map_err(|e| format!("setup {e}"))?;
        match store.compare_and_swap_with_timestamp(b"fs-cas", b"before", b"after", Some(ahead)) {
            Ok(true) => {}
            Ok(false) => return Err(format!("unexpired-key-hidden (compare_and_swap stamped two hours ahead saw no match on a key holding the expected bytes) persistent={persistent}")),
            Err(e) => return Err(hidden("compare_and_swap_with_timestamp", &e)),
        }
        // JSON patch
        store.insert_with_ttl(b"fs-json", br#"{"a":1}"#, 3600).map_err(|e| format!("setup {e}"))?;
        if let Err(e) = store.json_patch_with_timestamp(b"fs-json", br#"[{"op":"replace","path":"/a","value":7}]"#, Some(ahead)) {
            return Err(hidden("json_patch_with_timestamp", &e));
        }
        // a refused increment (not a counter) must not remove the key either
        store.insert_with_ttl(b"fs-text", b"not-a-counter", 3600).map_err(|e| format!("setup {e}"))?;
        let _ = store.atomic_increment_with_timestamp(b"fs-text", 1, Some(ahead));
        // a bystander
        store.insert_with_ttl(b"fs-bystander", b"still-here", 3600).map_err(|e| format!("setup {e}"))?;
        let check = |st: &FeoxStore, when: &str| -> Result<(), String> {
            for (k, want) in [
                (&b"fs-cas"[..], Some(&b"after"[..])),
                (b"fs-json", None),
                (b"fs-text", Some(b"not-a-counter")),
                (b"fs-bystander", Some(b"still-here")),
                (b"fs-counter", Some(&7i64.to_le_bytes()[..])),
                (b"fs-counter-ttl", Some(&7i64.to_le_bytes()[..])),
            ] {
                match st.get(k) {
                    Ok(v) => {
                        if let Some(w) = want {
                            if v != w {
                                return Err(format!("unexpired-key-has-other-bytes key={} {when} persistent={persistent}", String::from_utf8_lossy(k)));
                            }
                        }
                    }
                    Err(e) => return Err(format!("unexpired-key-lost key={} {when} error={e} persistent={persistent}", String::from_utf8_lossy(k)).replace(": ", "=")),
                }
            }
            Ok(())
        };
        check(&store, "after-the-future-stamped-calls")?;
        if persistent {
            store.flush().map_err(|e| format!("flush {e}"))?;
            drop(store);
            let store = open(&cfg, path).map_err(|e| format!("reopen {e}"))?;
            check(&store, "after-reopen")?;
        }
        Ok(())
    };
    let verdict = match std::panic::catch_unwind(std::panic::AssertUnwindSafe(|| run(false).and_then(|_| run(true)))) {
        Ok(Ok(())) => "ok".to_string(),
        Ok(Err(e)) => format!("FAIL {e}").replace(": ", "="),
        Err(_) => "FAIL an-api-call-panicked".to_string(),
    };
    let _ = std::fs::remove_file(path);
    ("note directed=future-stamped-calls-on-unexpired-keys".to_string(), "note".to_string(), verdict)
}

/// Directed (C13, "after any mix of ... expiries"): every writer that can meet an expired, not yet
/// swept generation of its key -- increment, insert, compare-and-swap, TTL update, JSON patch,
/// delete -- on keys that were expired on arrival (explicit timestamp 1 ns, TTL 1 s; no sweeper, and
/// `get` does not remove them).  After every call len() must equal the number of live keys and
/// memory_usage() the sum of their record sizes; after deleting everything both are zero.
pub fn run_directed_expired_overwrites(path: &str) -> (String, String, String) {
    let run = |persistent: bool| -> Result<(), String> {
        let cfg = Cfg { extreme: false, persistent, cache: false, ttl: true, version: 3, limit: None, blocks: 4096, focus: 0, autocheck: false };
        let _ = std::fs::remove_file(path);
        let store = open(&cfg, path).map_err(|e| format!("cannot-create-store {e}"))?;
        let overhead = FeoxStore::verif_record_overhead();
        let mut live: std::collections::BTreeMap<Vec<u8>, usize> = Default::default();
        let check = |st: &FeoxStore, live: &std::collections::BTreeMap<Vec<u8>, usize>, after: &str| -> Result<(), String> {
            let want_mem: usize = live.iter().map(|(k, v)| overhead + k.len() + v).sum();
            if st.len() != live.len() {
                return Err(format!("len-differs-from-the-live-keys after={after} len={} live={} persistent={persistent}", st.len(), live.len()));
            }
            if st.memory_usage() != want_mem {
                return Err(format!("memory-usage-differs-from-the-live-records after={after} reported={} live-sum={want_mem} persistent={persistent}", st.memory_usage()));
            }
            Ok(())
        };
        let expired = |st: &FeoxStore, k: &[u8], v: &[u8]| st.insert_with_ttl_and_timestamp(k, v, 1, Some(1)).map(|_| ()).map_err(|e| format!("setup {e}"));
        // a bystander that never expires
        store.insert(b"xo-bystander", b"here").map_err(|e| format!("setup {e}"))?;
        live.insert(b"xo-bystander".to_vec(), 4);
        check(&store, &live, "setup")?;
        // increment over an expired counter and over an expired non-counter: both start from zero
        for (k, v) in [(&b"xo-incr-counter"[..], &7i64.to_le_bytes()[..]), (b"xo-incr-text", b"not-a-counter")] {
            expired(&store, k, v)?;
            match store.atomic_increment(k, 5) {
                Ok(5) => {
                    live.insert(k.to_vec(), 8);
                }
                Ok(x) => return Err(format!("increment-over-an-expired-key-did-not-start-from-zero got={x} persistent={persistent}")),
                Err(e) => return Err(format!("increment-over-an-expired-key-refused {e} persistent={persistent}")),
            }
            check(&store, &live, "increment-over-an-expired-key")?;
        }
        // insert over an expired key
        expired(&store, b"xo-insert", b"old-old-old")?;
        store.insert(b"xo-insert", b"new").map_err(|e| format!("insert-over-expired {e}"))?;
        live.insert(b"xo-insert".to_vec(), 3);
        check(&store, &live, "insert-over-an-expired-key")?;
        // calls that must treat the expired key as absent and leave nothing behind
        expired(&store, b"xo-cas", b"old")?;
        let _ = store.compare_and_swap(b"xo-cas", b"old", b"newer");
        expired(&store, b"xo-ttl", b"old")?;
        let _ = store.update_ttl(b"xo-ttl", 3600);
        let _ = store.persist(b"xo-ttl");
        expired(&store, b"xo-json", br#"{"a":1}"#)?;
        let _ = store.json_patch(b"xo-json", br#"[{"op":"replace","path":"/a","value":2}]"#);
        expired(&store, b"xo-del", b"old")?;
        let _ = store.delete(b"xo-del");
        for k in [&b"xo-cas"[..], b"xo-ttl", b"xo-json", b"xo-del"] {
            if store.get(k).is_ok() {
                return Err(format!("expired-key-visible key={} persistent={persistent}", String::from_utf8_lossy(k)));
            }
        }
        // the expired generations that nobody replaced are still accounted until they are swept or
        // deleted: remove them, then everything else
        for k in [&b"xo-cas"[..], b"xo-ttl", b"xo-json", b"xo-del"] {
            let _ = store.delete(k);
        }
        let _ = store.range_query(b"", &[0xff; 8], 1000);
        if persistent {
            store.flush().map_err(|e| format!("flush {e}"))?;
        }
        let keys: Vec<Vec<u8>> = live.keys().cloned().collect();
        for k in keys {
            store.delete(&k).map_err(|e| format!("delete {e}"))?;
            live.remove(&k);
        }
        // whatever expired generation is still indexed must not be counted as a live key for ever:
        // an explicit sweep of the remaining expired keys by deleting what a full index walk finds
        for r in store.verif_snapshot() {
            let _ = store.delete(&r.key);
        }
        if store.len() != 0 || store.memory_usage() != 0 {
            return Err(format!("accounting-does-not-return-to-zero-after-deleting-everything len={} memory={} persistent={persistent}", store.len(), store.memory_usage()));
        }
        Ok(())
    };
    let verdict = match std::panic::catch_unwind(std::panic::AssertUnwindSafe(|| run(false).and_then(|_| run(true)))) {
        Ok(Ok(())) => "ok".to_string(),
        Ok(Err(e)) => format!("FAIL {e}").replace(": ", "="),
        Err(_) => "FAIL an-api-call-panicked".to_string(),
    };
    let _ = std::fs::remove_file(path);
    ("note directed=writers-over-expired-unswept-keys".to_string(), "note".to_string(), verdict)
}

pub fn configs(extreme: bool) -> Vec<Cfg> {
    let mut v = Vec::new();
    for ttl in [false, true] {
        for limit in [None, Some(2600usize)] {
            v.push(Cfg { extreme, persistent: false, cache: false, ttl, version: 3, limit, blocks: 0, focus: 0, autocheck: false });
        }
        for cache in [false, true] {
            for version in [1u32, 2, 3] {
                v.push(Cfg { extreme, persistent: true, cache, ttl, version, limit: None, blocks: 4096, focus: 0, autocheck: false });
            }
        }
        // a memory limit on a persistent store: refused writes next to records that are still
        // only in the write-behind buffer, followed by flush and reopen
        v.push(Cfg { extreme, persistent: true, cache: false, ttl, version: 3, limit: Some(9000), blocks: 4096, focus: 0, autocheck: false });
    }
    v
}

pub fn run(opts: &Opts) -> i32 {
    let dir = opts.str("out", "/verif/.build/cases/seq");
    let seed = opts.u64("seed", 1);
    let shards = opts.u64("shards", 16);
    let per_cfg = opts.u64("n", if opts.thorough() { 120 } else { 3 });
    let nops = opts.u64("ops", if opts.thorough() { 150 } else { 70 }) as usize;
    let scratch = format!("{dir}/dev");
    std::fs::create_dir_all(&scratch).unwrap();
    let mut cfgs = configs(opts.u64("extreme", 0) == 1);
    if opts.u64("autocheck", 0) == 1 {
        for c in cfgs.iter_mut() {
            c.autocheck = true;
        }
    }
    if opts.u64("focus", 0) == 1 {
        cfgs.retain(|c| c.ttl && c.version == 3);
        for c in cfgs.iter_mut() {
            c.focus = 1;
        }
    }
    if opts.get("only") == Some("limited") {
        cfgs.retain(|c| c.limit.is_some());
        // refused writes must meet records that are still in the write-behind buffer: with the
        // periodic coordinator paused (hook H11) only the sequence's own flush calls drain it
        feoxdb::verif::dev::set_periodic_flush_paused(true);
    }
    if opts.get("only") == Some("persistent") {
        cfgs.retain(|c| c.persistent);
    }
    let mut work = Vec::new();
    for (ci, c) in cfgs.iter().enumerate() {
        for j in 0..per_cfg {
            work.push((ci, c.clone(), seed.wrapping_mul(1_000_003).wrapping_add(ci as u64 * 7919 + j)));
        }
    }
    let work = std::sync::Arc::new(std::sync::Mutex::new(work));
    let directed = opts.u64("extreme", 0) == 1;
    let lastsec = opts.u64("lastsec", 0) == 1;
    let expdir = opts.u64("expdir", 0) == 1;
    let mut handles = Vec::new();
    for sh in 0..shards {
        let dir = dir.clone();
        let scratch = scratch.clone();
        let work = work.clone();
        handles.push(std::thread::spawn(move || {
            let mut out = Out::new(&dir, &format!("s{sh}"));
            let mut tiers = [0u64; 3];
            if sh == 0 && directed {
                let (case, res, verdict) = run_directed_f2();
                out.emit3(&case, &res, &verdict);
            }
            if sh == 2 && lastsec {
                let (case, res, verdict) = run_directed_last_second_renewal(&format!("{scratch}/seq_last_second.feox"));
                out.emit3(&case, &res, &verdict);
            }
            if sh == 4 && (lastsec || expdir) {
                let (case, res, verdict) = run_directed_expired_overwrites(&format!("{scratch}/seq_expired_overwrites.feox"));
                out.emit3(&case, &res, &verdict);
            }
            if sh == 3 && lastsec {
                let (case, res, verdict) = run_directed_future_stamped(&format!("{scratch}/seq_future_stamped.feox"));
                out.emit3(&case, &res, &verdict);
            }
            if sh == 1 && directed {
                let (case, res, verdict) = run_directed_pin_restart(&format!("{scratch}/seq_pin_restart.feox"));
                out.emit3(&case, &res, &verdict);
            }
            loop {
                let item = work.lock().unwrap().pop();
                let Some((ci, cfg, s)) = item else { break };
                let path = format!("{scratch}/seq_{sh}_{ci}.feox");
                let caught = std::panic::catch_unwind(std::panic::AssertUnwindSafe(|| run_sequence(&cfg, s, nops, &path)));
                let (case, res, verdict, t) = match caught {
                    Ok(x) => x,
                    Err(e) => {
                        let msg = e.downcast_ref::<String>().cloned().or_else(|| e.downcast_ref::<&str>().map(|m| m.to_string())).unwrap_or_default();
                        (
                            format!("note sequence-panicked cfg={ci} seed={s} ops={nops}"),
                            "note".to_string(),
                            format!("FAIL an-api-call-panicked cfg={ci} seed={s} ops={nops}: {}", msg.replace('\n', " ")),
                            [0; 3],
                        )
                    }
                };
                for i in 0..3 {
                    tiers[i] += t[i];
                }
                let _ = std::fs::remove_file(&path);
                out.emit3(&case, &res, &verdict);
            }
            (out.finish(), tiers)
        }));
    }
    let mut total = 0;
    let mut tiers = [0u64; 3];
    for h in handles {
        let (n, t) = h.join().unwrap();
        total += n;
        for i in 0..3 {
            tiers[i] += t[i];
        }
    }
    std::fs::write(
        format!("{dir}/stats.json"),
        format!(
            "{{\"configs\": {}, \"ops_on_resident_key\": {}, \"ops_on_offloaded_key\": {}, \"ops_on_unflushed_nonresident_key\": {}}}",
            cfgs.len(),
            tiers[0],
            tiers[1],
            tiers[2]
        ),
    )
    .unwrap();
    println!("cases={total}");
    0
}
