//! C20: the public `AlignedBuffer` driven directly (the store only ever asks for whole blocks; a
//! user of the crate need not).  Every case: new(capacity) with odd and even sizes, a sequence of
//! set_len / clear, and after every step the whole safe slice is written and read back.  Compared
//! with Model.AlignedBuf (capacity, len, refused set_len); oracle: the allocator's usable size of
//! the block covers the advertised capacity; under AddressSanitizer an access past the allocation
//! is reported by the instrumentation.
use crate::util::{Opts, Out, Rng};
use feoxdb::utils::allocator::{AlignedBuffer, FeoxAllocator};

/// child: FeoxAllocator::allocate / deallocate round trips around the small/large split (a block must
/// go back through the deallocator that matches its allocator); prints the size before each series so
/// that the parent can name the one that killed the process
pub fn allocchild(opts: &Opts) -> i32 {
    use std::io::Write;
    let seed = opts.u64("seed", 1);
    let mut rng = Rng::new(seed.wrapping_mul(7_368_787));
    let mut sizes: Vec<usize> = vec![1, 8, 64, 4095, 4096, 4097, 8191, 8192, 8193, 16384, 32768, 1 << 20];
    for _ in 0..12 {
        sizes.push(rng.range(1, 40_000) as usize);
    }
    let before = FeoxAllocator::get_allocated();
    for size in sizes {
        println!("size={size}");
        let _ = std::io::stdout().flush();
        for round in 0..40u8 {
            match FeoxAllocator::allocate(size) {
                Ok(ptr) => {
                    let s = unsafe { std::slice::from_raw_parts_mut(ptr.as_ptr(), size) };
                    s.fill(round);
                    std::hint::black_box(s.iter().map(|b| *b as u64).sum::<u64>());
                    FeoxAllocator::deallocate(ptr, size);
                }
                Err(e) => {
                    println!("allocate-failed size={size} {e}");
                    return 0;
                }
            }
        }
    }
    println!("alloc-ok counter=+{}", FeoxAllocator::get_allocated() - before);
    0
}

pub fn run(opts: &Opts) -> i32 {
    let dir = opts.str("out", "/verif/.build/cases/abuf");
    let seed = opts.u64("seed", 1);
    let n = opts.u64("n", if opts.thorough() { 20000 } else { 1500 });
    let mut out = Out::new(&dir, "s0");
    let mut rng = Rng::new(seed.wrapping_mul(2_654_435_761));
    for _ in 0..n {
        let capacity = match rng.below(8) {
            0 => rng.range(1, 100),
            1 => 4096 * rng.range(1, 4),
            2 => 4096 * rng.range(1, 4) + 1,
            3 => 4096 * rng.range(1, 4) - 1,
            4 => rng.range(1, 70_000),
            5 => 0,
            _ => rng.range(1, 20_000),
        } as usize;
        let before = FeoxAllocator::get_allocated();
        let mut case = format!("abuf {capacity}");
        let mut res = String::new();
        let mut verdict = "ok".to_string();
        match AlignedBuffer::new(capacity) {
            Err(e) => res.push_str(&format!("new-failed:{e}")),
            Ok(mut b) => {
                let usable = unsafe { libc::malloc_usable_size(b.as_ptr() as *mut libc::c_void) };
                if usable < b.capacity() {
                    verdict = format!("FAIL advertised-capacity-exceeds-the-allocation capacity()={} usable={usable} requested={capacity}", b.capacity());
                }
                if (b.as_ptr() as usize) % 4096 != 0 {
                    verdict = "FAIL buffer-not-block-aligned".into();
                }
                res.push_str(&format!("cap={} counter=+{}", b.capacity(), FeoxAllocator::get_allocated() - before));
                for _ in 0..rng.range(1, 6) {
                    let op = rng.below(6);
                    if op == 0 {
                        case.push_str(" C");
                        b.clear();
                        res.push_str(" ok");
                    } else {
                        let nl = match op {
                            1 => b.capacity(),
                            2 => capacity,
                            3 => b.capacity() + rng.range(1, 5000) as usize,
                            _ => rng.below(b.capacity() as u64 + 1) as usize,
                        };
                        case.push_str(&format!(" L{nl}"));
                        let r = std::panic::catch_unwind(std::panic::AssertUnwindSafe(|| b.set_len(nl)));
                        res.push_str(if r.is_ok() { " ok" } else { " panic" });
                    }
                    // use the whole safe slice, as the O_DIRECT read path of a user would
                    {
                        let len = b.len();
                        // (never beyond what the allocator really gave: the oracle above has already flagged that)
                        if len <= usable {
                            for (i, x) in b.as_mut_slice().iter_mut().enumerate() {
                                *x = (i % 251) as u8;
                            }
                            let s: u64 = b.as_slice().iter().map(|x| *x as u64).sum();
                            std::hint::black_box(s);
                        }
                    }
                    res.push_str(&format!(":{}", b.len()));
                }
                drop(b);
                res.push_str(&format!(" after-drop=+{}", FeoxAllocator::get_allocated() - before));
            }
        }
        out.emit3(&case, &res, &verdict);
    }
    // the allocator's small/large split, in a child process (a mismatched free may abort it)
    for k in 0..3u64 {
        let outp = crate::img::run_child(&["abufallocchild".into(), format!("seed={}", seed + k)], 120).unwrap_or_else(|| "SPAWN-FAILED".into());
        let last_size = outp.lines().filter(|l| l.starts_with("size=")).last().unwrap_or("size=?").to_string();
        let verdict = if outp.lines().any(|l| l.starts_with("alloc-ok counter=+0")) {
            "ok".to_string()
        } else if outp.contains("alloc-ok") {
            format!("FAIL allocation-counter-not-back-to-its-start {}", outp.lines().last().unwrap_or(""))
        } else if outp.contains("allocate-failed") {
            "ok".to_string()
        } else {
            format!("FAIL allocate-deallocate-round-trip-killed-the-process at {last_size} ({})", outp.lines().last().unwrap_or("").chars().take(80).collect::<String>())
        };
        out.emit3(&format!("note abuf-allocator-round-trips seed={}", seed + k), "note", &verdict);
    }
    let total = out.finish();
    println!("cases={total}");
    0
}
