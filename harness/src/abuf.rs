//! C20: the public `AlignedBuffer` driven directly (the store only ever asks for whole blocks; a
//! user of the crate need not).  Every case: new(capacity) with odd and even sizes, a sequence of
//! set_len / clear, and after every step the whole safe slice is written and read back.  Compared
//! with Model.AlignedBuf (capacity, len, refused set_len); oracle: the allocator's usable size of
//! the block covers the advertised capacity; under AddressSanitizer an access past the allocation
//! is reported by the instrumentation.
use crate::util::{Opts, Out, Rng};
use feoxdb::utils::allocator::{AlignedBuffer, FeoxAllocator};

/// child: FeoxAllocator::allocate / deallocate round trips around the small/large split (a block must
/// go back through the deallocator that matches its allocator); prints the size before each series so
/// that the parent can name the one that killed the process
pub fn allocchild(opts: &Opts) -> i32 {
    use std::io::Write;
    let seed = opts.u64("seed", 1);
    let mut rng = Rng::new(seed.wrapping_mul(7_368_787));
    let mut sizes: Vec<usize> = vec![1, 8, 64, 4095, 4096, 4097, 8191, 8192, 8193, 16384, 32768, 1 << 20];
    for _ in 0..12 {
        sizes.push(rng.range(1, 40_000) as usize);
    }
    let before = FeoxAllocator::get_allocated();
    for size in sizes {
        println!("size={size}");
        let _ = std::io::stdout().flush();
        for round in 0..40u8 {
            match FeoxAllocator::allocate(size) {
                Ok(ptr) => {
                    let s = unsafe { std::slice::from_raw_parts_mut(ptr.as_ptr(), size) };
                    s.fill(round);
                    std::hint::black_box(s.iter().map(|b| *b as u64).sum::<u64>());
                    FeoxAllocator::deallocate(ptr, size);
                }
                Err(e) => {
                    println!("allocate-failed size={size} {e}");
                    return 0;
                }
            }
        }
    }
    println!("alloc-ok counter=+{}", FeoxAllocator::get_allocated() - before);
    0
}

pub fn run(opts: &Opts) -> i32 {
    let dir = opts.str("out", "/verif/.build/cases/abuf");
    let seed = opts.u64("seed", 1);
    let n = opts.u64("n", if opts.thorough() { 20000 } else { 1500 });
    let mut out = Out::new(&dir, "s0");
    let mut rng = Rng::new(seed.wrapping_mul(2_654_435_761));
    for _ in 0..n {
        let capacity = match rng.below(8) {
            0 => rng.range(1, 100),
            1 => 4096 * rng.range(1, 4),
            2 => 4096 * rng.range(1, 4) + 1,
            3 => 4096 * rng.range(1, 4) - 1,
            4 => rng.range(1, 70_000),
            5 => 0,
            _ => rng.range(1, 20_000),
        } as usize;
        let before = FeoxAllocator::get_allocated();
        let mut case = format!("abuf {capacity}");
        let mut res = String::new();
        let mut verdict = "ok".to_string();
        match AlignedBuffer::new(capacity) {
            Err(e) => res.push_str(&format!("new-failed:{e}")),
            Ok(mut b) => {
                let usable = unsafe { libc::malloc_usable_size(b.as_ptr() as *mut libc::c_void) };
                if usable < b.capacity() {
                    verdict = format!("FAIL advertised-capacity-exceeds-the-allocation capacity()={} usable={usable} requested={capacity}", b.capacity());
                }
                if (b.as_ptr() as usize) % 4096 != 0 {
                    verdict = "FAIL buffer-not-block-aligned".into();
                }
                res.push_str(&format!("cap={} counter=+{}", b.capacity(), FeoxAllocator::get_allocated() - before));
                for _ in 0..rng.range(1, 6) {
                    let op = rng.below(6);
                    if op == 0 {
                        case.push_str(" C");
                        b.clear();
                        res.push_str(" ok");
                    } else {
                        let nl = match op {
                            1 => b.capacity(),
                            2 => capacity,
                            3 => b.capacity() + rng.range(1, 5000) as usize,
                            _ => rng.below(b.capacity() as u64 + 1) as usize,
                        };
                        case.push_str(&format!(" L{nl}"));
                        let r = std::panic::catch_unwind(std::panic::AssertUnwindSafe(|| b.set_len(nl)));
                        res.push_str(if r.is_ok() { " ok" } else { " panic" });
                    }
                    // use the whole safe slice, as the O_DIRECT read path of a user would
                    {
                        let len = b.len();
                        // (never beyond what the allocator really gave: the oracle above has already flagged that)
                        if len <= usable {
                            for (i, x) in b.as_mut_slice().iter_mut().enumerate() {
                                *x = (i % 251) as u8;
                            }
                            let s: u64 = b.as_slice().iter().map(|x| *x as u64).sum();
                            std::hint::black_box(s);
                        }
                    }
                    res.push_str(&format!(":{}", b.len()));
                }
                drop(b);
                res.push_str(&format!(" after-drop=+{}", FeoxAllocator::get_allocated() - before));
            }
        }
        out.emit3(&case, &res, &verdict);
    }
    // DiskIO::write_sectors_sync with lengths that are not whole blocks (the store pads everything it
    // writes; a user of the public type need not): exactly the slice's bytes reach the file, what lies
    // behind them in the block stays as it was; under AddressSanitizer a read past the slice is reported
    {
        use feoxdb::storage::io::DiskIO;
        use std::io::{Read, Seek, SeekFrom, Write};
        let path = format!("{dir}/abuf_diskio_{}.bin", std::process::id());
        let mut verdict = "ok".to_string();
        let run = || -> Result<(), String> {
            let mut f = std::fs::OpenOptions::new().read(true).write(true).create(true).truncate(true).open(&path).map_err(|e| e.to_string())?;
            f.write_all(&vec![0xEEu8; 64 * 4096]).map_err(|e| e.to_string())?;
            f.sync_all().map_err(|e| e.to_string())?;
            let file = std::sync::Arc::new(f.try_clone().map_err(|e| e.to_string())?);
            let disk = DiskIO::new(file, false).map_err(|e| format!("DiskIO::new {e}"))?;
            for (i, len) in [1usize, 100, 511, 513, 4095, 4097, 5000, 8191, 12289].into_iter().enumerate() {
                // an exact-size heap slice: anything read beyond it is somebody else's memory
                let data: Vec<u8> = (0..len).map(|j| (j % 199) as u8 + 1).collect::<Vec<u8>>().into_boxed_slice().into_vec();
                let sector = 16 + 4 * i as u64;
                disk.write_sectors_sync(sector, &data).map_err(|e| format!("write_sectors_sync(len={len}) {e}"))?;
                let blocks = len.div_ceil(4096);
                let mut back = vec![0u8; blocks * 4096];
                f.seek(SeekFrom::Start(sector * 4096)).map_err(|e| e.to_string())?;
                f.read_exact(&mut back).map_err(|e| e.to_string())?;
                if back[..len] != data[..] {
                    return Err(format!("write_sectors_sync(len={len})-did-not-write-the-slice"));
                }
                if back[len..].iter().any(|b| *b != 0xEE) {
                    return Err(format!("write_sectors_sync(len={len})-wrote-bytes-that-are-not-in-the-slice"));
                }
            }
            Ok(())
        };
        if let Err(e) = run() {
            verdict = format!("FAIL {e}");
        }
        let _ = std::fs::remove_file(&path);
        out.emit3("note abuf-diskio-odd-lengths", "note", &verdict);
    }
    // the allocator's small/large split, in a child process (a mismatched free may abort it)
    for k in 0..3u64 {
        let outp = crate::img::run_child(&["abufallocchild".into(), format!("seed={}", seed + k)], 120).unwrap_or_else(|| "SPAWN-FAILED".into());
        let last_size = outp.lines().filter(|l| l.starts_with("size=")).last().unwrap_or("size=?").to_string();
        let verdict = if outp.lines().any(|l| l.starts_with("alloc-ok counter=+0")) {
            "ok".to_string()
        } else if outp.contains("alloc-ok") {
            format!("FAIL allocation-counter-not-back-to-its-start {}", outp.lines().last().unwrap_or(""))
        } else if outp.contains("allocate-failed") {
            "ok".to_string()
        } else {
            format!("FAIL allocate-deallocate-round-trip-killed-the-process at {last_size} ({})", outp.lines().last().unwrap_or("").chars().take(80).collect::<String>())
        };
        out.emit3(&format!("note abuf-allocator-round-trips seed={}", seed + k), "note", &verdict);
    }
    let total = out.finish();
    println!("cases={total}");
    0
}
