//! C05: at every quiescent point the data area is exactly partitioned between live extents and
//! the free pool, counters are exact, freed space is reusable, and the state recovery would
//! rebuild from the file equals the live state.
use crate::img::{fnv1a, run_child};
use crate::util::{hex, Opts, Out, Rng};
use feoxdb::storage::metadata::Metadata;
use feoxdb::FeoxStore;
use std::io::Write;

fn blocks_of(klen: usize, vlen: usize) -> u64 {
    ((6 + klen + 24 + vlen) as u64).div_ceil(4096)
}

/// The live store at a quiescent point, in the format of the `open` probe line, plus the oracle.
fn quiescent_line(store: &FeoxStore, path: &str, nblocks: u64) -> (String, Vec<String>) {
    let mut fails = Vec::new();
    let snap = store.verif_snapshot();
    let (tf, chunks, largest, _frag) = store.verif_free_stats();
    let mut keys = String::new();
    let mut extents: Vec<(u64, u64, Vec<u8>)> = Vec::new();
    for r in &snap {
        let v = match store.get(&r.key) {
            Ok(v) => format!("{:016x}", fnv1a(&v)),
            Err(_) => "err".to_string(),
        };
        keys.push_str(&format!("{}:{}:{}:{}:{}:{};", hex(&r.key), r.timestamp, r.ttl_expiry, r.value_len, r.sector, v));
        let n = blocks_of(r.key.len(), r.value_len);
        if r.sector < 16 || r.sector + n > nblocks {
            fails.push(format!("extent-outside-data-area key={} sector={} blocks={n}", hex(&r.key), r.sector));
        }
        extents.push((r.sector, n, r.key.clone()));
    }
    extents.sort();
    for w in extents.windows(2) {
        if w[0].0 + w[0].1 > w[1].0 {
            fails.push(format!("two-live-extents-overlap {}@{}+{} {}@{}", hex(&w[0].2), w[0].0, w[0].1, hex(&w[1].2), w[1].0));
        }
    }
    let live_blocks: u64 = extents.iter().map(|e| e.1).sum();
    if live_blocks * 4096 + tf != (nblocks - 16) * 4096 {
        fails.push(format!("free-pool-is-not-the-complement live_blocks={live_blocks} free_bytes={tf} data_blocks={}", nblocks - 16));
    }
    if store.verif_disk_usage() != live_blocks * 4096 {
        fails.push(format!("usage-counter-differs disk_usage={} live={}", store.verif_disk_usage(), live_blocks * 4096));
    }
    if store.len() != snap.len() {
        fails.push(format!("len-differs len={} live={}", store.len(), snap.len()));
    }
    // newest metadata copy on the device
    let img = std::fs::read(path).unwrap_or_default();
    if img.len() >= 8 * 4096 {
        let p = Metadata::from_bytes(&img[..4096]);
        let q = Metadata::from_bytes(&img[7 * 4096..8 * 4096]);
        let m = match (p, q) {
            (Some(a), Some(b)) => Some(if feoxdb::verif::pure::metadata_generation(&b) > feoxdb::verif::pure::metadata_generation(&a) { b } else { a }),
            (a, b) => a.or(b),
        };
        match m {
            Some(m) => {
                if m.total_records != snap.len() as u64 || m.total_size != live_blocks * 4096 {
                    fails.push(format!(
                        "persisted-counters-differ records={} size={} live_records={} live_bytes={}",
                        m.total_records,
                        m.total_size,
                        snap.len(),
                        live_blocks * 4096
                    ));
                }
            }
            None => fails.push("no-valid-metadata-copy".to_string()),
        }
    }
    let line = format!(
        "ok v={} n={} mem={} disk={} free={},{},{} amb=0 keys={} post={:016x}",
        store.verif_format_version(),
        store.len(),
        store.memory_usage(),
        store.verif_disk_usage(),
        tf,
        chunks,
        largest,
        if keys.is_empty() { "-".to_string() } else { keys },
        fnv1a(&img)
    );
    (line, fails)
}

/// child: path= seed= blocks= ops=
pub fn partchild(opts: &Opts) -> i32 {
    let path = opts.str("path", "");
    let seed = opts.u64("seed", 1);
    let blocks = opts.u64("blocks", 64);
    let nops = opts.u64("ops", 80);
    let _ = std::fs::remove_file(&path);
    let mut rng = Rng::new(seed);
    let open = || FeoxStore::builder().device_path(path.clone()).file_size(blocks * 4096).hash_bits(8).enable_caching(false).build();
    let mut store = open().unwrap();
    let nkeys = rng.range(3, 10);
    let mut q = 0;
    let mut emit = |store: &FeoxStore, what: &str, q: &mut u64| {
        let (line, fails) = quiescent_line(store, &path, blocks);
        let snap = format!("{path}.q{q}.img");
        std::fs::copy(&path, &snap).unwrap();
        println!("Q {snap} {what} | {line} | {}", if fails.is_empty() { "ok".to_string() } else { format!("FAIL {}", fails.join(" ; ").replace(' ', "_")) });
        *q += 1;
    };
    for i in 0..nops {
        let k = format!("p{}", rng.below(nkeys)).into_bytes();
        match rng.below(100) {
            0..=54 => {
                let len = match rng.below(6) {
                    0 => rng.range(4000, 4200),
                    1 => rng.range(8100, 8400),
                    2 => rng.range(12200, 12400),
                    3 => rng.range(16300, 20000),
                    _ => rng.range(1, 500),
                } as usize;
                let v: Vec<u8> = (0..len).map(|j| (seed as usize + i as usize * 31 + j) as u8).collect();
                // every way of writing a value: each has its own hand-off of the replaced extent
                match rng.below(5) {
                    0 | 1 => {
                        let _ = store.insert(&k, &v);
                    }
                    2 => {
                        let _ = store.insert_bytes(&k, bytes::Bytes::from(v));
                    }
                    3 => {
                        let _ = store.insert_bytes_with_timestamp(&k, bytes::Bytes::from(v), None);
                    }
                    _ => match store.get(&k) {
                        Ok(cur) => {
                            let _ = store.compare_and_swap(&k, &cur, &v);
                        }
                        Err(_) => {
                            let _ = store.insert_with_timestamp(&k, &v, None);
                        }
                    },
                }
            }
            55..=74 => {
                let _ = store.delete(&k);
            }
            75..=92 => {
                if store.flush().is_ok() {
                    emit(&store, "flush", &mut q);
                }
            }
            _ => {
                if store.flush().is_ok() {
                    drop(store);
                    store = open().unwrap();
                    emit(&store, "reopen", &mut q);
                }
            }
        }
    }
    // empty the device: all space must come back as one run, and a fresh device's fill must fit again
    for r in store.verif_snapshot() {
        let _ = store.delete(&r.key);
    }
    if store.flush().is_ok() {
        let (tf, chunks, _largest, _) = store.verif_free_stats();
        let ok = tf == (blocks - 16) * 4096 && chunks == 1 && store.len() == 0 && store.verif_disk_usage() == 0;
        let mut filled = 0;
        let v = vec![7u8; 4096 * 2 - 100];
        while store.insert(format!("fill{filled}").as_bytes(), &v).is_ok() && store.flush().is_ok() && filled < blocks {
            filled += 1;
        }
        // a fresh device holds (blocks-16)/2 such records; the last insert may stay buffered when full
        let expect = (blocks - 16) / 2;
        println!(
            "E emptied free={tf} chunks={chunks} refill={filled} expect={expect} | {}",
            if ok && filled >= expect { "ok".to_string() } else { format!("FAIL emptied-device-is-not-fresh_free={tf}_chunks={chunks}_refill={filled}_expect={expect}") }
        );
    }
    let _ = std::io::stdout().flush();
    std::mem::forget(store);
    unsafe { libc::_exit(0) }
}

pub fn run(opts: &Opts) -> i32 {
    let dir = opts.str("out", "/verif/.build/cases/partition");
    let seed = opts.u64("seed", 1);
    let shards = opts.u64("shards", 16);
    let per = opts.u64("n", if opts.thorough() { 20 } else { 1 });
    let keep = format!("{dir}/images");
    std::fs::create_dir_all(&keep).unwrap();
    let mut handles = Vec::new();
    for sh in 0..shards {
        let dir = dir.clone();
        let keep = keep.clone();
        handles.push(std::thread::spawn(move || {
            let mut out = Out::new(&dir, &format!("s{sh}"));
            let mut rng = Rng::new(seed.wrapping_mul(7_368_787).wrapping_add(sh));
            for w in 0..per {
                let base = format!("{keep}/p{sh}_{w}.feox");
                let g = run_child(
                    &[
                        "partchild".into(),
                        format!("path={base}"),
                        format!("seed={}", rng.next() % 1_000_000_007),
                        format!("blocks={}", rng.pick(&[40u64, 56, 96])),
                        format!("ops={}", rng.range(40, 120)),
                    ],
                    360,
                )
                .unwrap_or_default();
                if g.is_empty() || g.contains("TIMEOUT") || g.contains("CHILD-DIED") {
                    out.emit3(&format!("note partchild-failed {}", g.replace(' ', "_")), "note", "FAIL workload-child-failed-or-hung");
                    continue;
                }
                for l in g.lines() {
                    let parts: Vec<&str> = l.split(" | ").collect();
                    if l.starts_with("Q ") && parts.len() == 3 {
                        let snap = parts[0].split(' ').nth(1).unwrap_or("");
                        out.emit3(&format!("open {snap} ro=0 allow=0 ttl=0 now=0 recsize={} quiescent={}", FeoxStore::verif_record_overhead(), parts[0].split(' ').nth(2).unwrap_or("")), parts[1], parts[2]);
                    } else if l.starts_with("E ") && parts.len() == 2 {
                        out.emit3(&format!("note {}", parts[0].replace(' ', "_")), "note", parts[1]);
                    }
                }
            }
            out.finish()
        }));
    }
    let mut total = 0;
    for h in handles {
        total += h.join().unwrap();
    }
    println!("cases={total}");
    0
}
