//! C02 / C09 (T-eq for Model.Gate): `Record::successor_is_durable_or_deleted`, the gate the flusher
//! consults before it retires a superseded generation, on synthetic successor chains (hook H12):
//! forward chains of 1-9 generations with every mix of durable / live / deleted / superseded
//! nodes and memo bits.  The answer and the memo bits afterwards must equal Model.Gate.gate.
use crate::util::{Opts, Out, Rng};

pub fn run(opts: &Opts) -> i32 {
    let dir = opts.str("out", "/verif/.build/cases/gate");
    let seed = opts.u64("seed", 1);
    let n = opts.u64("n", if opts.thorough() { 200_000 } else { 8000 });
    let mut out = Out::new(&dir, "s0");
    let mut rng = Rng::new(seed.wrapping_mul(48_271));
    for _ in 0..n {
        let len = rng.range(1, 9) as usize;
        let mut nodes: Vec<(u64, u32, i64, bool)> = Vec::new();
        for i in 0..len {
            let succ = if i + 1 < len && rng.chance(3, 4) { rng.range(i as u64 + 1, len as u64 - 1) as i64 } else { -1 };
            let sector = if rng.chance(1, 3) { rng.range(16, 900) } else { 0 };
            // a node with a successor has been superseded: refcount 0 (the real code sets it so); ends are live or deleted
            let refcount = if succ >= 0 { if rng.chance(1, 12) { 1 } else { 0 } } else { rng.below(2) as u32 };
            let safe = rng.chance(1, 6);
            nodes.push((sector, refcount, succ, safe));
        }
        let start = rng.below(len as u64) as usize;
        let (answer, safe_after) = feoxdb::verif::pure::gate_sim(&nodes, start);
        let case = format!(
            "gate {start} {}",
            nodes.iter().map(|(s, r, c, f)| format!("{s},{r},{c},{}", *f as u8)).collect::<Vec<_>>().join(" ")
        );
        let res = format!("{} {}", answer as u8, safe_after.iter().map(|b| if *b { '1' } else { '0' }).collect::<String>());
        out.emit(&case, &res);
    }
    let total = out.finish();
    println!("cases={total}");
    0
}
