//! C17 / C10: mutated and forged images. Each mutant is opened by the real code (child) and by
//! `Model.Recovery.open_image`; the property oracle demands: no panic, no hang, no abort.
use crate::img::{open_verdict, probe_image, run_child};
use crate::util::{Opts, Out, Rng};
use feoxdb::storage::metadata::Metadata;
use feoxdb::verif::pure;

const B: usize = 4096;

fn blocks(img: &[u8]) -> usize {
    img.len() / B
}

fn head_sectors(img: &[u8]) -> Vec<usize> {
    (16..blocks(img)).filter(|s| img[s * B] == 0xCD && img[s * B + 1] == 0xAB).collect()
}

/// number of record heads met by walking the data area extent by extent (v3 layout)
pub fn live_heads(img: &[u8]) -> usize {
    let mut s = 16;
    let mut n = 0;
    while s < blocks(img) {
        if img[s * B] == 0xCD && img[s * B + 1] == 0xAB {
            n += 1;
            s += claimed_blocks(img, s, 3);
        } else {
            s += 1;
        }
    }
    n
}

fn marker_sectors(img: &[u8]) -> Vec<usize> {
    (16..blocks(img)).filter(|s| &img[s * B..s * B + 8] == b"\0DELETED").collect()
}

/// number of blocks of the record whose head is at `s` (as the header claims), clamped
fn claimed_blocks(img: &[u8], s: usize, version: u32) -> usize {
    let d = &img[s * B..];
    let klen = u16::from_le_bytes([d[4], d[5]]) as usize;
    if 6 + klen + 8 > B {
        return 1;
    }
    let vlen = u64::from_le_bytes(d[6 + klen..6 + klen + 8].try_into().unwrap()) as usize;
    let hdr = 6 + klen + 16 + if version == 1 { 0 } else { 8 };
    (hdr.saturating_add(vlen).div_ceil(B)).clamp(1, blocks(img) - s)
}

fn restamp_record(img: &mut [u8], s: usize, version: u32) {
    if version < 3 {
        return;
    }
    let n = claimed_blocks(img, s, version);
    let tok = pure::record_seq_token(s as u64, &img[s * B..(s + n) * B]);
    img[s * B + 2..s * B + 4].copy_from_slice(&tok.to_le_bytes());
}

fn write_marker(img: &mut [u8], s: usize, remaining: u64, state: u8) {
    let m = &mut img[s * B..s * B + 19];
    m[..8].copy_from_slice(b"\0DELETED");
    m[8..16].copy_from_slice(&remaining.to_le_bytes());
    m[18] = state;
    let tok = pure::retirement_marker_token(s as u64, m);
    m[16..18].copy_from_slice(&tok.to_le_bytes());
}

fn image_version(img: &[u8]) -> u32 {
    let p = Metadata::from_bytes(&img[..B]);
    let q = Metadata::from_bytes(&img[7 * B..8 * B]);
    match (p, q) {
        (Some(a), Some(b)) => {
            if pure::metadata_generation(&b) > pure::metadata_generation(&a) {
                b.version
            } else {
                a.version
            }
        }
        (Some(a), None) => a.version,
        (None, Some(b)) => b.version,
        _ => 3,
    }
}

fn weird_u64(rng: &mut Rng, around: u64) -> u64 {
    match rng.below(9) {
        0 => 0,
        1 => 1,
        2 => u64::MAX,
        3 => u64::MAX - rng.below(4096),
        4 => around.wrapping_add(rng.below(5)).wrapping_sub(2),
        5 => 1 << rng.range(10, 63),
        6 => 4 * 1024 * 1024 + rng.below(3),
        7 => rng.below(70000),
        _ => rng.next(),
    }
}

/// A crashed batch: an ACTIVE journal (newest generation) naming the extents of live records in
/// allocation order, i.e. not sorted by sector.
pub fn pending_batch_journal(rng: &mut Rng, img: &mut Vec<u8>) -> Option<&'static str> {
    pending_batch_journal_opt(rng, img, false)
}

pub fn pending_batch_journal_opt(rng: &mut Rng, img: &mut Vec<u8>, force_marker: bool) -> Option<&'static str> {
    let version = image_version(img);
    let mut pool = head_sectors(img);
    if pool.len() < 2 {
        return None;
    }
    let mut exts = Vec::new();
    for _ in 0..rng.range(2, 5).min(pool.len() as u64) {
        let i = rng.below(pool.len() as u64) as usize;
        let s = pool.swap_remove(i);
        exts.push((s as u64, claimed_blocks(img, s, version).max(1)));
    }
    if rng.chance(1, 2) {
        exts.sort();
        exts.reverse();
    }
    let slot = rng.below(2) as usize;
    let enc = pure::journal_encode_active(1 << 40, &exts).ok()?;
    let base = (1 + 3 * slot) * B;
    img[base..base + enc.len()].copy_from_slice(&enc);
    if force_marker || rng.chance(1, 3) {
        // ... and a valid retirement marker in FRONT of the lowest journaled extent whose count
        // reaches to its end or beyond: a scan that virtualises the journal (read-only open) jumps
        // over the journaled extent without ever standing inside it
        let (lo, n) = *exts.iter().min().unwrap();
        if lo as usize > 17 {
            let m = rng.range(16, lo - 1) as usize;
            let reach = (lo as usize + n - m) as u64 + rng.below(2);
            if m as u64 + reach <= blocks(img) as u64 {
                write_marker(img, m, reach, *rng.pick(&[1u8, 2]));
                return Some("pending-batch-journal+marker-across-it");
            }
        }
    }
    Some("pending-batch-journal")
}

/// An older, one-block generation of a key whose newest generation spans several blocks, planted
/// ABOVE the newest one in a free block that is directly followed by a live record head: a scan
/// that advances by anything but the older generation's own length steps over that head.
pub fn plant_stale_generation(rng: &mut Rng, img: &mut Vec<u8>) -> Option<&'static str> {
    let version = image_version(img);
    let nb = blocks(img);
    let mut covered = vec![false; nb];
    let mut heads: Vec<(usize, usize)> = Vec::new();
    let mut s = 16;
    while s < nb {
        if img[s * B] == 0xCD && img[s * B + 1] == 0xAB {
            let n = claimed_blocks(img, s, version);
            heads.push((s, n));
            for c in covered.iter_mut().skip(s).take(n) {
                *c = true;
            }
            s += n;
        } else {
            s += 1;
        }
    }
    let ext = if version == 1 { 0 } else { 8 };
    let winners: Vec<(usize, usize)> = heads
        .iter()
        .copied()
        .filter(|(h, n)| {
            let klen = u16::from_le_bytes([img[h * B + 4], img[h * B + 5]]) as usize;
            *n >= 2 && 6 + klen + 16 + ext + 16 <= B && u64::from_le_bytes(img[h * B + 14 + klen..h * B + 22 + klen].try_into().unwrap()) >= 2
        })
        .collect();
    if winners.is_empty() {
        return None;
    }
    let (w, _) = *rng.pick(&winners);
    let spots: Vec<usize> = (w + 1..nb.saturating_sub(1)).filter(|f| !covered[*f] && heads.iter().any(|(h, _)| *h == f + 1)).collect();
    if spots.is_empty() {
        return None;
    }
    let f = *rng.pick(&spots);
    let klen = u16::from_le_bytes([img[w * B + 4], img[w * B + 5]]) as usize;
    let ts = u64::from_le_bytes(img[w * B + 14 + klen..w * B + 22 + klen].try_into().unwrap());
    let mut rec = vec![0u8; B];
    rec[0] = 0xCD;
    rec[1] = 0xAB;
    rec[4..6 + klen].copy_from_slice(&img[w * B + 4..w * B + 6 + klen]);
    let value = b"stale-older-gen";
    rec[6 + klen..14 + klen].copy_from_slice(&(value.len() as u64).to_le_bytes());
    rec[14 + klen..22 + klen].copy_from_slice(&(ts - 1).to_le_bytes());
    let hdr = 6 + klen + 16 + ext;
    rec[hdr..hdr + value.len()].copy_from_slice(value);
    img[f * B..(f + 1) * B].copy_from_slice(&rec);
    restamp_record(img, f, version);
    Some("stale-small-generation-above-its-successor")
}

/// An older generation that spans TWO blocks, planted above the newest generation of its key in two
/// free blocks, whose continuation block is, byte for byte, a well-formed one-block record of a key
/// that exists nowhere else ("ghost").  A scan that steps over the older generation by anything but
/// its own length stands on the ghost and indexes it -- and the retirement of the older generation
/// then removes it again, so that a second open disagrees with the first.
pub fn plant_stale_big_generation(rng: &mut Rng, img: &mut Vec<u8>) -> Option<&'static str> {
    let version = image_version(img);
    let nb = blocks(img);
    let mut covered = vec![false; nb];
    let mut heads: Vec<(usize, usize)> = Vec::new();
    let mut s = 16;
    while s < nb {
        if img[s * B] == 0xCD && img[s * B + 1] == 0xAB {
            let n = claimed_blocks(img, s, version);
            heads.push((s, n));
            for c in covered.iter_mut().skip(s).take(n) {
                *c = true;
            }
            s += n;
        } else {
            if img[s * B..s * B + 8] != [0u8; 8] {
                covered[s] = true; // markers and anything else that is not plainly free
            }
            s += 1;
        }
    }
    let ext = if version == 1 { 0 } else { 8 };
    let winners: Vec<usize> = heads
        .iter()
        .map(|(h, _)| *h)
        .filter(|h| {
            let klen = u16::from_le_bytes([img[h * B + 4], img[h * B + 5]]) as usize;
            klen >= 1 && klen <= 64 && u64::from_le_bytes(img[h * B + 14 + klen..h * B + 22 + klen].try_into().unwrap()) >= 2
        })
        .collect();
    if winners.is_empty() {
        return None;
    }
    let w = *rng.pick(&winners);
    let spots: Vec<usize> = (w + 1..nb.saturating_sub(1)).filter(|f| !covered[*f] && !covered[*f + 1]).collect();
    if spots.is_empty() {
        return None;
    }
    let f = *rng.pick(&spots);
    let klen = u16::from_le_bytes([img[w * B + 4], img[w * B + 5]]) as usize;
    let ts = u64::from_le_bytes(img[w * B + 14 + klen..w * B + 22 + klen].try_into().unwrap());
    // the ghost: a one-block record image for block f+1
    let gkey = b"ghost-in-a-continuation-block";
    let mut ghost = vec![0u8; B];
    ghost[0] = 0xCD;
    ghost[1] = 0xAB;
    ghost[4..6].copy_from_slice(&(gkey.len() as u16).to_le_bytes());
    ghost[6..6 + gkey.len()].copy_from_slice(gkey);
    let gval = b"never-written-by-anybody";
    ghost[6 + gkey.len()..14 + gkey.len()].copy_from_slice(&(gval.len() as u64).to_le_bytes());
    ghost[14 + gkey.len()..22 + gkey.len()].copy_from_slice(&7_000u64.to_le_bytes());
    let ghdr = 6 + gkey.len() + 16 + ext;
    ghost[ghdr..ghdr + gval.len()].copy_from_slice(gval);
    img[(f + 1) * B..(f + 2) * B].copy_from_slice(&ghost);
    restamp_record(img, f + 1, version);
    // the older generation: its value runs from its header to the end of block f+1
    let hdr = 6 + klen + 16 + ext;
    let vlen = 2 * B - hdr;
    let mut head = vec![0u8; B];
    head[0] = 0xCD;
    head[1] = 0xAB;
    head[4..6 + klen].copy_from_slice(&img[w * B + 4..w * B + 6 + klen]);
    head[6 + klen..14 + klen].copy_from_slice(&(vlen as u64).to_le_bytes());
    head[14 + klen..22 + klen].copy_from_slice(&(ts - 1).to_le_bytes());
    for (i, b) in head.iter_mut().enumerate().skip(hdr) {
        *b = (i * 7 + 3) as u8;
    }
    img[f * B..(f + 1) * B].copy_from_slice(&head);
    restamp_record(img, f, version);
    Some("stale-two-block-generation-with-a-ghost-in-its-continuation")
}

/// Apply one mutation; returns its name.
pub fn mutate(rng: &mut Rng, img: &mut Vec<u8>) -> &'static str {
    let nb = blocks(img);
    let version = image_version(img);
    let heads = head_sectors(img);
    let markers = marker_sectors(img);
    match rng.below(19) {
        18 => {
            // a journal record whose header is intact except for a forged entry count (or state): the
            // checksum fields still agree with each other, so a decoder that slices by the count
            // before checking it reads beyond the slot
            let slot = rng.below(2) as usize;
            let base = (1 + 3 * slot) * B;
            if img[base..base + 8] != *b"\0FEOXAJ1" {
                let exts: Vec<(u64, usize)> = (0..rng.range(1, 4)).map(|i| (16 + 2 * i, 1usize)).collect();
                if let Ok(enc) = pure::journal_encode_active(rng.range(1, 1 << 30), &exts) {
                    img[base..base + enc.len()].copy_from_slice(&enc);
                }
            }
            let count = *rng.pick(&[0u32, 1025, 1531, 1532, 1536, 2051, 4096, 65_535, 1 << 20, u32::MAX]);
            img[base + 28..base + 32].copy_from_slice(&count.to_le_bytes());
            if rng.chance(1, 4) {
                img[base + 24..base + 28].copy_from_slice(&rng.pick(&[0u32, 1, 2, u32::MAX]).to_le_bytes());
            }
            "forged-journal-count"
        }
        17 => {
            if rng.chance(1, 2) {
                if let Some(name) = plant_stale_big_generation(rng, img) {
                    return name;
                }
            }
            if let Some(name) = plant_stale_generation(rng, img) {
                return name;
            }
            img[16 * B + 9] ^= 1;
            "bit-flips"
        }
        16 if !heads.is_empty() => {
            // a plausible record (value length at most 4 MiB) whose extent ends a few blocks beyond the
            // device: a file truncated inside a record, or a forged length
            let s = *rng.pick(&heads);
            let klen = u16::from_le_bytes([img[s * B + 4], img[s * B + 5]]) as usize;
            if 6 + klen + 8 > B {
                return "bit-flips";
            }
            let hdr = 6 + klen + 16 + if version == 1 { 0 } else { 8 };
            let blocks_wanted = (nb - s) as u64 + rng.range(1, 3);
            let vlen = (blocks_wanted * B as u64).saturating_sub(hdr as u64).saturating_sub(rng.below(B as u64 - 1)).min(4 * 1024 * 1024).max(1);
            img[s * B + 6 + klen..s * B + 14 + klen].copy_from_slice(&vlen.to_le_bytes());
            if rng.chance(4, 5) {
                restamp_record(img, s, version);
            }
            "extent-leaves-device"
        }
        0 => {
            for b in img.iter_mut() {
                *b = rng.next() as u8;
            }
            "random-bytes"
        }
        1 => {
            // bit flips, biased to block heads and the metadata/journal area
            for _ in 0..rng.range(1, 8) {
                let blk = if rng.chance(1, 3) { rng.below(16) } else { rng.below(nb as u64) } as usize;
                let off = if rng.chance(2, 3) { rng.below(64) } else { rng.below(B as u64) } as usize;
                img[blk * B + off] ^= 1 << rng.below(8);
            }
            "bit-flips"
        }
        2 => {
            let a = rng.range(16, nb as u64 - 1) as usize;
            let b = rng.range(16, nb as u64 - 1) as usize;
            for i in 0..B {
                img.swap(a * B + i, b * B + i);
            }
            "block-swap"
        }
        3 if !heads.is_empty() => {
            // duplicate an extent elsewhere (stale copy); re-stamped half of the time
            let s = *rng.pick(&heads);
            let n = claimed_blocks(img, s, version);
            let d = rng.range(16, (nb - n) as u64) as usize;
            let src = img[s * B..(s + n) * B].to_vec();
            img[d * B..(d + n) * B].copy_from_slice(&src);
            if rng.chance(1, 2) {
                restamp_record(img, d, version);
            }
            "duplicate-extent"
        }
        4 if !heads.is_empty() => {
            // truncate an extent: zero or overwrite its last block
            let s = *rng.pick(&heads);
            let n = claimed_blocks(img, s, version);
            let t = s + n - 1;
            for b in &mut img[t * B..(t + 1) * B] {
                *b = 0;
            }
            "truncate-extent"
        }
        5 | 6 if !heads.is_empty() => {
            // forged lengths / timestamp in a record head, token recomputed
            let s = *rng.pick(&heads);
            let klen = u16::from_le_bytes([img[s * B + 4], img[s * B + 5]]) as usize;
            match rng.below(4) {
                0 => {
                    let k = *rng.pick(&[0u16, 1, 4065, 4066, 4067, 4074, 4075, 4090, 65535, (klen as u16).wrapping_add(1)]);
                    img[s * B + 4..s * B + 6].copy_from_slice(&k.to_le_bytes());
                }
                1 if 6 + klen + 8 <= B => {
                    let old = u64::from_le_bytes(img[s * B + 6 + klen..s * B + 14 + klen].try_into().unwrap());
                    let v = weird_u64(rng, old);
                    img[s * B + 6 + klen..s * B + 14 + klen].copy_from_slice(&v.to_le_bytes());
                }
                2 if 6 + klen + 16 <= B => {
                    let v = weird_u64(rng, 0);
                    img[s * B + 14 + klen..s * B + 22 + klen].copy_from_slice(&v.to_le_bytes());
                }
                _ => {
                    let v = rng.next() as u16;
                    img[s * B + 2..s * B + 4].copy_from_slice(&v.to_le_bytes());
                    return "forged-token";
                }
            }
            if rng.chance(4, 5) {
                restamp_record(img, s, version);
            }
            "forged-record-field"
        }
        7 | 8 => {
            // forged retirement marker with a valid token
            let s = if !markers.is_empty() && rng.chance(1, 2) { *rng.pick(&markers) } else { rng.range(16, nb as u64 - 1) as usize };
            let rem = match rng.below(6) {
                0 => 0,
                1 => (nb - s) as u64,
                2 => (nb - s) as u64 + 1,
                3 => u64::MAX - rng.below(3),
                4 => rng.range(1, 5),
                _ => u64::MAX - s as u64 + rng.below(3),
            };
            write_marker(img, s, rem, if rng.chance(1, 3) { 0 } else if rng.chance(1, 6) { rng.next() as u8 } else { 1 });
            if rng.chance(1, 6) {
                img[s * B + 16] ^= 0x5a; // wrong token
            }
            "forged-marker"
        }
        9 | 10 => {
            // forged journal slot, checksummed by the real encoder
            let slot = rng.below(2) as usize;
            let generation = match rng.below(4) {
                0 => u64::MAX,
                1 => u64::MAX - 1,
                2 => rng.range(1, 50),
                _ => 1 << 40,
            };
            let n = rng.range(1, 6);
            let mut exts = Vec::new();
            if heads.len() >= 2 && rng.chance(1, 2) {
                return pending_batch_journal(rng, img).unwrap_or("forged-journal");
            }
            for _ in 0..n {
                let s = rng.range(16, nb as u64 - 1);
                let len = match rng.below(5) {
                    0 => nb as u64 - s,
                    1 => nb as u64 - s + 1,
                    _ => rng.range(1, 4),
                };
                exts.push((s, len as usize));
            }
            let enc = if rng.chance(1, 5) { pure::journal_encode_clear(generation) } else { pure::journal_encode_active(generation, &exts) };
            if let Ok(mut enc) = enc {
                if rng.chance(1, 8) {
                    let i = rng.below(enc.len().min(64) as u64) as usize;
                    enc[i] ^= 1;
                }
                let base = (1 + 3 * slot) * B;
                img[base..base + enc.len()].copy_from_slice(&enc);
            }
            "forged-journal"
        }
        11 | 12 => {
            // forged metadata with a valid checksum
            let copy = if rng.chance(1, 2) { 0 } else { 7 };
            let base = Metadata::from_bytes(&img[..B]).or_else(|| Metadata::from_bytes(&img[7 * B..8 * B]));
            let mut m = base.unwrap_or_else(Metadata::new);
            match rng.below(7) {
                0 => m.version = *rng.pick(&[0u32, 1, 2, 3, 4, u32::MAX]),
                1 => m.device_size = *rng.pick(&[0u64, 1, 4096, (nb as u64) * 4096, (nb as u64 + 1) * 4096, 1 << 40, (1 << 40) + 1, u64::MAX]),
                2 => m.block_size = *rng.pick(&[0u32, 512, 4095, 4097, 8192]),
                3 => m.total_records = weird_u64(rng, 0),
                4 => m.total_size = weird_u64(rng, 0),
                5 => m.signature = *b"FEOX_SIX",
                _ => {}
            }
            m.update();
            let mut enc = m.encode().to_vec();
            if rng.chance(1, 4) {
                // forged generation (recomputing the checksum needs the private field: flip and keep)
                enc[76..84].copy_from_slice(&weird_u64(rng, 0).to_le_bytes());
            }
            if rng.chance(1, 6) {
                for b in &mut enc[64..132] {
                    *b = 0;
                }
            }
            img[copy * B..copy * B + enc.len()].copy_from_slice(&enc);
            "forged-metadata"
        }
        13 => {
            // not a FeOx device: destroy both signatures, keep everything else
            for c in [0usize, 7] {
                for b in &mut img[c * B..c * B + 8] {
                    *b = rng.next() as u8 | 1;
                }
            }
            "no-signature"
        }
        14 => {
            for b in img.iter_mut() {
                *b = 0;
            }
            if rng.chance(1, 3) {
                // larger than the blank-device scan's 1 MiB chunk: the first MiB (and more) is zero,
                // something else lives further back
                let nb2 = rng.range(300, 800) as usize;
                *img = vec![0u8; nb2 * B];
                let lo = (256 + rng.below(3) * 128) as usize * B;
                let i = lo.min(img.len() - 1) + rng.below((img.len() - lo.min(img.len() - 1)) as u64) as usize;
                img[i] = 1 + rng.below(255) as u8;
                if rng.chance(1, 2) {
                    let s = rng.range(280, nb2 as u64 - 1) as usize;
                    img[s * B..s * B + 8].copy_from_slice(b"not-feox");
                }
                return "zero-first-mib-not-blank";
            }
            if rng.chance(1, 2) {
                let i = rng.below(img.len() as u64) as usize;
                img[i] = 1 + rng.below(255) as u8;
            }
            "zero-or-almost"
        }
        _ => {
            // ambiguous legacy tombstone: "\0DELETED" followed by zeros
            let s = rng.range(16, nb as u64 - 1) as usize;
            for b in &mut img[s * B..(s + 1) * B] {
                *b = 0;
            }
            img[s * B..s * B + 8].copy_from_slice(b"\0DELETED");
            "legacy-tombstone"
        }
    }
}

pub fn run(opts: &Opts) -> i32 {
    let dir = opts.str("out", "/verif/.build/cases/mutimg");
    let seed = opts.u64("seed", 1);
    let shards = opts.u64("shards", 16);
    let bases = opts.u64("bases", if opts.thorough() { 40 } else { 4 });
    let per_base = opts.u64("mutants", if opts.thorough() { 60 } else { 12 });
    let twice_opt = opts.u64("twice", 0) == 1;
    let keep = format!("{dir}/images");
    std::fs::create_dir_all(&keep).unwrap();
    let mut handles = Vec::new();
    for sh in 0..shards {
        let dir = dir.clone();
        let keep = keep.clone();
        handles.push(std::thread::spawn(move || {
            let mut out = Out::new(&dir, &format!("s{sh}"));
            let mut rng = Rng::new(seed.wrapping_mul(104729).wrapping_add(sh));
            let mut kinds = std::collections::BTreeMap::<String, u64>::new();
            if sh == 0 {
                // files that are not block lists at all (the model starts at whole blocks): short and
                // odd-sized non-empty files that are no FeOx device must be refused and left as they are
                for len in [1usize, 17, 100, 4095, 4096, 4097, 8191, 65_535, 65_536, 69_632] {
                    for fill in [0x78u8, 0x00] {
                        let path = format!("{keep}/short_{len}_{fill}.img");
                        let mut data = vec![fill; len];
                        data[len - 1] = 0x79; // never all zero: an all-zero file is a fresh device
                        std::fs::write(&path, &data).unwrap();
                        let (_now, _recsize, line) = probe_image(&path, &format!("{path}.probe"), false, false);
                        let verdict = if line.starts_with("ok") || line.starts_with("fresh") {
                            format!("FAIL a-{len}-byte-file-that-is-no-feox-device-was-opened-as-a-store: {}", line.split(' ').take(3).collect::<Vec<_>>().join("_"))
                        } else {
                            open_verdict(&line)
                        };
                        out.emit3(&format!("note short-foreign-file len={len} fill={fill} {}", line.split(' ').take(3).collect::<Vec<_>>().join("_")), "note", &verdict);
                        let _ = std::fs::remove_file(&path);
                    }
                }
            }
            for b in 0..bases {
                let twice = twice_opt;
                let base = format!("{keep}/b{sh}_{b}.img");
                let version = *rng.pick(&[3u64, 3, 3, 2, 1]);
                let ttl = rng.chance(1, 2);
                let g = run_child(
                    &[
                        "genimg".into(),
                        format!("version={version}"),
                        format!("legacy_checksum={}", rng.below(2)),
                        format!("path={base}"),
                        format!("seed={}", rng.next() % 1_000_000_007),
                        format!("blocks={}", rng.pick(&[32u64, 48, 64])),
                        format!("ttl={}", ttl as u8),
                        format!("ops={}", rng.range(10, 80)),
                        format!("ending={}", rng.below(3)),
                    ],
                    180,
                );
                if g.as_deref().map_or(true, |s| !s.starts_with("genimg-done")) {
                    out.emit3(&format!("note genimg-failed {:?}", g), "note", "FAIL workload-child-failed");
                    continue;
                }
                let base_bytes = std::fs::read(&base).unwrap();
                for m in 0..per_base {
                    let mut img = base_bytes.clone();
                    let mut names = Vec::new();
                    for _ in 0..(if rng.chance(1, 4) { 2 } else { 1 }) {
                        names.push(mutate(&mut rng, &mut img));
                    }
                    let path = format!("{keep}/m{sh}_{b}_{m}.img");
                    std::fs::write(&path, &img).unwrap();
                    let probe_ttl = rng.chance(1, 2);
                    let allow = rng.chance(1, 3);
                    let (now, recsize, line) = probe_image(&path, &format!("{path}.probe"), probe_ttl, allow);
                    if twice && line.starts_with("ok") {
                        // C04 on damaged files: an open that succeeded is followed by a second open of the
                        // file as the first one left it; both must report the same keys
                        // (TTL off for the pair: with TTL on a key may expire between the two opens)
                        let (l1, l2) = crate::img::probe_twice(&path, &format!("{path}.probe2"), false, allow);
                        let keys = |l: &str| l.split(' ').filter(|t| t.starts_with("n=") || t.starts_with("keys=")).collect::<Vec<_>>().join(" ");
                        let verdict = if !l2.starts_with("ok") {
                            format!("FAIL second-open-of-the-recovered-file-fails: {}", l2.split(' ').take(2).collect::<Vec<_>>().join("_"))
                        } else if l1.starts_with("ok") && keys(&l1) != keys(&l2) {
                            "FAIL second-open-reports-other-contents-than-the-first".to_string()
                        } else {
                            "ok".to_string()
                        };
                        out.emit3(&format!("note reopen-twice {path} mut={} first={} second={}", names.join("+"), keys(&l1).replace(' ', "_").chars().take(120).collect::<String>(), keys(&l2).replace(' ', "_").chars().take(120).collect::<String>()), "note", &verdict);
                    }
                    let case = format!(
                        "open {path} ro=0 allow={} ttl={} now={now} recsize={recsize} mut={}",
                        allow as u8,
                        probe_ttl as u8,
                        names.join("+")
                    );
                    let outcome = line.split(' ').take(2).collect::<Vec<_>>().join("-");
                    *kinds.entry(format!("{}=>{}", names.join("+"), outcome)).or_default() += 1;
                    out.emit3(&case, &line, &open_verdict(&line));
                }
            }
            (out.finish(), kinds)
        }));
    }
    let mut total = 0;
    let mut all = std::collections::BTreeMap::<String, u64>::new();
    for h in handles {
        let (n, kinds) = h.join().unwrap();
        total += n;
        for (k, v) in kinds {
            *all.entry(k).or_default() += v;
        }
    }
    let stats: Vec<String> = all.iter().map(|(k, v)| format!("\"{k}\": {v}")).collect();
    std::fs::write(format!("{dir}/stats.json"), format!("{{{}}}", stats.join(", "))).unwrap();
    println!("cases={total}");
    0
}
