//! C08: readers racing with updates, deletes, TTL rewrites, flushes, extent retirement and reuse.
//! One store per child process (the pin/write event log is global).  Every value carries its key,
//! its generation number and a checkable fill, so "genuine" and "recent enough" are decidable.
use crate::img::run_child;
use crate::util::{Opts, Out, Rng};
use feoxdb::verif::dev::{Decision, Observer};
use feoxdb::{FeoxError, FeoxStore};
use std::sync::atomic::{AtomicBool, AtomicU64, Ordering};
use std::sync::{Arc, Mutex};
use std::time::Duration;

static EVENTS: Mutex<Vec<(u8, u64, u64)>> = Mutex::new(Vec::new()); // (kind p/u/w, sector, blocks)
static SLEEP_SEED: AtomicU64 = AtomicU64::new(0x1234_5678);
static SLEEPS_ON: AtomicBool = AtomicBool::new(false);

struct Dev;
impl Observer for Dev {
    fn write(&self, _fd: i32, offset: u64, data: &[u8], _ring: bool) -> Decision {
        EVENTS.lock().unwrap().push((b'w', offset / 4096, (data.len() as u64).div_ceil(4096)));
        Decision::Proceed
    }
    fn fsync(&self, _fd: i32) -> Decision {
        Decision::Proceed
    }
    fn fsync_done(&self, _fd: i32, _ok: bool) {}
}

fn note(name: &'static str, a: u64, b: u64) {
    let kind = if name == "pin" { b'p' } else { b'u' };
    EVENTS.lock().unwrap().push((kind, a, b));
}

// directed case "late cache fill": one marked reader is held right after its device read
thread_local! { pub static HELD_READER: std::cell::Cell<bool> = const { std::cell::Cell::new(false) }; }
pub static HOLD: Mutex<(bool, bool)> = Mutex::new((false, false)); // (reader is parked, reader may go on)
pub static HOLD_CV: std::sync::Condvar = std::sync::Condvar::new();

thread_local! { static HELD_AT_PIN: std::cell::Cell<bool> = const { std::cell::Cell::new(false) }; }
thread_local! { static HELD_BEFORE_PIN: std::cell::Cell<bool> = const { std::cell::Cell::new(false) }; }

pub fn point(name: &'static str) {
    if (name == "c08_unpinned" && HELD_READER.with(|h| h.get()))
        || (name == "c08_pinned" && HELD_AT_PIN.with(|h| h.get()))
        || (name == "c08_before_pin" && HELD_BEFORE_PIN.with(|h| h.replace(false)))
    {
        let mut g = HOLD.lock().unwrap();
        g.0 = true;
        HOLD_CV.notify_all();
        while !g.1 {
            g = HOLD_CV.wait(g).unwrap();
        }
        return;
    }
    if !name.starts_with("c08_") || !SLEEPS_ON.load(Ordering::Relaxed) {
        return;
    }
    let x = SLEEP_SEED.fetch_add(0x9E37_79B9_7F4A_7C15, Ordering::Relaxed);
    let mut z = x;
    z = (z ^ (z >> 30)).wrapping_mul(0xBF58_476D_1CE4_E5B9);
    z = (z ^ (z >> 27)).wrapping_mul(0x94D0_49BB_1331_11EB);
    z ^= z >> 31;
    match z % 8 {
        0 | 1 => std::thread::sleep(Duration::from_micros(50 + (z >> 8) % 400)),
        2 => std::thread::sleep(Duration::from_millis(1 + (z >> 8) % 3)),
        3 => std::thread::yield_now(),
        _ => {}
    }
}

pub fn key_of(k: u64) -> Vec<u8> {
    format!("rk{k:02}").into_bytes()
}

/// value = "K<k>G<gen>L<len>|" + fill(k, gen)
pub fn value_of(k: u64, gen: u64, len: usize) -> Vec<u8> {
    let mut v = format!("K{k}G{gen}L{len}|").into_bytes();
    let mut x = (k + 1).wrapping_mul(0x9E37_79B9_7F4A_7C15) ^ gen.wrapping_mul(0xD1B5_4A32_D192_ED03) | 1;
    while v.len() < len {
        x ^= x << 13;
        x ^= x >> 7;
        x ^= x << 17;
        v.push(b'a' + (x % 26) as u8);
    }
    v
}

/// Some((k, gen)) when `v` is exactly a value this engine wrote
pub fn parse_value(v: &[u8]) -> Option<(u64, u64)> {
    let bar = v.iter().position(|b| *b == b'|')?;
    let head = std::str::from_utf8(&v[..bar]).ok()?;
    let rest = head.strip_prefix('K')?;
    let (k, rest) = rest.split_once('G')?;
    let (g, l) = rest.split_once('L')?;
    let (k, g, l): (u64, u64, usize) = (k.parse().ok()?, g.parse().ok()?, l.parse().ok()?);
    if value_of(k, g, l) == v {
        Some((k, g))
    } else {
        None
    }
}

#[derive(Clone, Debug)]
struct WOp {
    t0: u64, // wall clock (us) at invocation / response
    t1: u64,
    key: u64,
    gen: u64,      // generation number of the state this op leaves (puts and deletes count)
    present: bool, // state after the op
    inv: u64,
    res: u64,
    ok: bool,
}

#[derive(Clone, Debug)]
struct ROp {
    t0: u64,
    t1: u64,
    key: u64,
    inv: u64,
    res: u64,
    what: &'static str,
    out: Result<Vec<u8>, String>, // Ok(value) | Err("nf"|"stale"|other)
}

fn err_name(e: &FeoxError) -> String {
    match e {
        FeoxError::KeyNotFound => "nf".into(),
        FeoxError::StaleExtent => "stale".into(),
        FeoxError::OutOfSpace => "nospace".into(),
        other => format!("err:{other}"),
    }
}

/// Directed (C08 recency, C16): a reader is held between its device read of generation OLD and the
/// moment it returns (and fills the cache); meanwhile the key is updated to NEW of the same length
/// and NEW is flushed.  After the late cache fill, TTL-only rewrites and reads must keep giving NEW,
/// also after a flush and a restart.
fn directed_late_cache_fill(dir: &str, sh: u64) -> (String, String) {
    let path = format!("{dir}/dev/race_late_{sh}.feox");
    let _ = std::fs::remove_file(&path);
    *HOLD.lock().unwrap() = (false, false);
    let open = || FeoxStore::builder().device_path(path.clone()).file_size(96 * 4096).hash_bits(6).enable_caching(true).enable_ttl(true).no_memory_limit().build();
    let run = || -> Result<(), String> {
        let store = Arc::new(open().map_err(|e| format!("cannot-create-store {e}"))?);
        let key = key_of(77);
        let (old, new) = (value_of(77, 1, 5000), value_of(77, 2, 5000));
        store.insert(&key, &old).map_err(|e| format!("insert {e}"))?;
        store.flush().map_err(|e| format!("flush {e}"))?;
        let reader = {
            let (store, key) = (store.clone(), key.clone());
            std::thread::spawn(move || {
                HELD_READER.with(|h| h.set(true));
                store.get(&key)
            })
        };
        {
            let mut g = HOLD.lock().unwrap();
            let t0 = std::time::Instant::now();
            while !g.0 {
                if t0.elapsed() > Duration::from_secs(10) {
                    // the value was still resident: nothing to hold; let the case pass as not applicable
                    g.1 = true;
                    HOLD_CV.notify_all();
                    drop(g);
                    let _ = reader.join();
                    return Ok(());
                }
                g = HOLD_CV.wait_timeout(g, Duration::from_millis(50)).unwrap().0;
            }
        }
        // (the held reader still has the device's read lock: the update completes in memory only)
        store.insert(&key, &new).map_err(|e| format!("update {e}"))?;
        {
            let mut g = HOLD.lock().unwrap();
            g.1 = true;
            HOLD_CV.notify_all();
        }
        match reader.join() {
            Ok(Ok(v)) if v == old || v == new => {}
            Ok(Ok(_)) => return Err("held-reader-returned-bytes-never-written".into()),
            Ok(Err(e)) => return Err(format!("held-reader-error {e}")),
            Err(_) => return Err("held-reader-panicked".into()),
        }
        // NEW becomes durable and is offloaded; nobody reads it before the TTL-only rewrites
        store.flush().map_err(|e| format!("flush {e}"))?;
        for step in 0..3 {
            match step {
                0 => store.update_ttl(&key, 7200).map_err(|e| format!("update_ttl {e}"))?,
                1 => store.persist(&key).map_err(|e| format!("persist {e}"))?,
                _ => store.flush().map_err(|e| format!("flush {e}"))?,
            }
            let got = store.get(&key).map_err(|e| format!("get-after-ttl-rewrite {e}"))?;
            if got != new {
                return Err(format!("read-after-a-TTL-only-rewrite-returned-a-superseded-generation step={step} got={}", if got == old { "OLD" } else { "other bytes" }));
            }
        }
        drop(store);
        let store = open().map_err(|e| format!("cannot-reopen {e}"))?;
        let got = store.get(&key).map_err(|e| format!("get-after-restart {e}"))?;
        if got != new {
            return Err("restart-brought-back-a-superseded-generation".into());
        }
        Ok(())
    };
    let verdict = match std::panic::catch_unwind(std::panic::AssertUnwindSafe(run)) {
        Ok(Ok(())) => "ok".to_string(),
        Ok(Err(e)) => format!("FAIL {e}"),
        Err(_) => "FAIL an-api-call-panicked".to_string(),
    };
    let _ = std::fs::remove_file(&path);
    ("note race directed=late-cache-fill".to_string(), verdict)
}

/// Directed (C08, blocks under a reader): a reader of a key with a time-to-live passes the expiry
/// check while the key is alive and is held between its pin and its device read; the expiry instant
/// passes; the key is overwritten and a flush tries to retire the old extent.  While the reader is
/// held no device write may land in the pinned blocks.
fn directed_expired_pinned_reader(dir: &str, sh: u64) -> (String, String) {
    let path = format!("{dir}/dev/race_exp_{sh}.feox");
    let _ = std::fs::remove_file(&path);
    *HOLD.lock().unwrap() = (false, false);
    let run = || -> Result<&'static str, String> {
        let store = Arc::new(
            FeoxStore::builder()
                .device_path(path.clone())
                .file_size(40 * 4096)
                .hash_bits(6)
                .enable_caching(false)
                .enable_ttl(true)
                .no_memory_limit()
                .build()
                .map_err(|e| format!("cannot-create-store {e}"))?,
        );
        let key = key_of(78);
        let (old, new) = (value_of(78, 1, 5000), value_of(78, 2, 5000));
        let t_insert = std::time::Instant::now();
        store.insert_with_ttl(&key, &old, 1).map_err(|e| format!("insert {e}"))?;
        store.flush().map_err(|e| format!("flush {e}"))?;
        let mark = EVENTS.lock().unwrap().len();
        let reader = {
            let (store, key) = (store.clone(), key.clone());
            std::thread::spawn(move || {
                HELD_AT_PIN.with(|h| h.set(true));
                store.get(&key)
            })
        };
        let release = || {
            let mut g = HOLD.lock().unwrap();
            g.1 = true;
            HOLD_CV.notify_all();
        };
        {
            let mut g = HOLD.lock().unwrap();
            let t0 = std::time::Instant::now();
            while !g.0 {
                if t0.elapsed() > Duration::from_millis(700) {
                    // not parked: the value was resident or the key had expired before the read started
                    drop(g);
                    release();
                    let _ = reader.join();
                    return Ok("reader-not-parked");
                }
                g = HOLD_CV.wait_timeout(g, Duration::from_millis(20)).unwrap().0;
            }
        }
        let pinned = EVENTS.lock().unwrap()[mark..].iter().rev().find(|e| e.0 == b'p').map(|e| (e.1, e.2));
        let Some((psec, pblocks)) = pinned else {
            release();
            let _ = reader.join();
            return Err("reader-parked-without-a-pin-event".into());
        };
        // the expiry instant passes while the reader stands between pin and read
        let wait = Duration::from_millis(1400).saturating_sub(t_insert.elapsed());
        std::thread::sleep(wait);
        let mark2 = EVENTS.lock().unwrap().len();
        let flusher = {
            let (store, key, new) = (store.clone(), key.clone(), new.clone());
            std::thread::spawn(move || {
                let a = store.insert(&key, &new).map(|_| ());
                let b = store.flush();
                (a, b)
            })
        };
        std::thread::sleep(Duration::from_millis(600));
        let hit = EVENTS.lock().unwrap()[mark2..]
            .iter()
            .find(|e| e.0 == b'w' && e.1 < psec + pblocks && psec < e.1 + e.2)
            .map(|e| (e.1, e.2));
        release();
        let got = reader.join();
        let fl = flusher.join();
        if let Some((wsec, wblocks)) = hit {
            return Err(format!(
                "device-write-into-pinned-blocks-of-an-expired-generation pinned={psec}+{pblocks} write={wsec}+{wblocks} (reader held between pin and read)"
            ));
        }
        match got {
            Ok(Ok(v)) if v == old || v == new => {}
            Ok(Ok(_)) => return Err("held-reader-returned-bytes-never-written".into()),
            Ok(Err(FeoxError::KeyNotFound)) | Ok(Err(FeoxError::StaleExtent)) => {}
            Ok(Err(e)) => return Err(format!("held-reader-error {e}")),
            Err(_) => return Err("held-reader-panicked".into()),
        }
        match fl {
            Ok((Ok(()), Ok(()))) => {}
            Ok((a, b)) => return Err(format!("overwrite-or-flush-failed {:?} {:?}", a.err().map(|e| e.to_string()), b.err().map(|e| e.to_string()))),
            Err(_) => return Err("overwrite-or-flush-panicked".into()),
        }
        if store.get(&key).ok().as_deref() != Some(&new[..]) {
            return Err("read-after-the-overwrite-is-not-the-new-value".into());
        }
        Ok("reader-held-across-the-expiry")
    };
    let (status, verdict) = match std::panic::catch_unwind(std::panic::AssertUnwindSafe(run)) {
        Ok(Ok(st)) => (st, "ok".to_string()),
        Ok(Err(e)) => ("failed", format!("FAIL {e}")),
        Err(_) => ("failed", "FAIL an-api-call-panicked".to_string()),
    };
    let _ = std::fs::remove_file(&path);
    (format!("note race directed=expired-pinned-reader {status}"), verdict)
}

/// Directed (C07 with C08): a read-modify-write with an EXPLICIT timestamp T (increment, compare-and-swap,
/// JSON patch) on a key whose generation G1 lives only on the device is parked after its optimistic
/// read of G1 and before it pins G1's extent; meanwhile another writer installs G2 with G1.ts < T <=
/// G2.ts and a flush makes G2 durable and retires G1's extent.  Released, the call falls over to G2.
/// Last-writer-wins: it must be refused (OlderTimestamp) or leave the key at G2 -- the key's
/// timestamp never goes backwards and G2's value is not overwritten by a write stamped T.
fn directed_parked_writer(dir: &str, sh: u64) -> (String, String) {
    let path = format!("{dir}/dev/race_pw_{sh}.feox");
    let mut status = Vec::new();
    let mut run = |kind: &'static str| -> Result<(), String> {
        let _ = std::fs::remove_file(&path);
        *HOLD.lock().unwrap() = (false, false);
        let store = Arc::new(
            FeoxStore::builder().device_path(path.clone()).file_size(64 * 4096).hash_bits(6).enable_caching(false).no_memory_limit().build().map_err(|e| format!("cannot-create-store {e}"))?,
        );
        let key = b"pw-key".to_vec();
        let g1: Vec<u8> = match kind {
            "incr" => 5i64.to_le_bytes().to_vec(),
            "patch" => br#"{"a":1}"#.to_vec(),
            _ => b"g1-value".to_vec(),
        };
        let g2: Vec<u8> = match kind {
            "incr" => 7i64.to_le_bytes().to_vec(),
            "patch" => br#"{"a":2}"#.to_vec(),
            _ => b"g1-value".to_vec(), // the same bytes: the compare-and-swap's expectation still matches
        };
        store.insert_with_timestamp(&key, &g1, Some(100)).map_err(|e| format!("setup {e}"))?;
        store.flush().map_err(|e| format!("flush {e}"))?;
        let writer = {
            let (store, key) = (store.clone(), key.clone());
            std::thread::spawn(move || {
                HELD_BEFORE_PIN.with(|h| h.set(true));
                match kind {
                    "incr" => store.atomic_increment_with_timestamp(&key, 1, Some(150)).map(|_| ()),
                    "patch" => store.json_patch_with_timestamp(&key, br#"[{"op":"replace","path":"/a","value":9}]"#, Some(150)),
                    _ => store.compare_and_swap_with_timestamp(&key, b"g1-value", b"swapped", Some(150)).map(|_| ()),
                }
            })
        };
        let release = || {
            let mut g = HOLD.lock().unwrap();
            g.1 = true;
            HOLD_CV.notify_all();
        };
        {
            let mut g = HOLD.lock().unwrap();
            let t0 = std::time::Instant::now();
            while !g.0 {
                if t0.elapsed() > Duration::from_millis(1500) {
                    drop(g);
                    release();
                    let _ = writer.join();
                    status.push(format!("{kind}:not-parked"));
                    return Ok(());
                }
                g = HOLD_CV.wait_timeout(g, Duration::from_millis(20)).unwrap().0;
            }
        }
        let r2 = store.insert_with_timestamp(&key, &g2, Some(200)).map(|_| ());
        let rf = store.flush();
        release();
        let got = writer.join().map_err(|_| "parked-writer-panicked".to_string())?;
        if r2.is_err() || rf.is_err() {
            status.push(format!("{kind}:upsert-or-flush-failed"));
            return Ok(());
        }
        let ts_now = store.verif_snapshot().iter().find(|r| r.key == key).map(|r| r.timestamp);
        let val_now = store.get(&key).ok();
        if ts_now.map_or(true, |t| t < 200) {
            return Err(format!("timestamp-went-backwards kind={kind} call-stamped-150-answered={} key-now-at={ts_now:?} after-a-write-stamped-200-was-accepted", if got.is_ok() { "Ok" } else { "Err" }));
        }
        if val_now.as_deref() != Some(&g2[..]) {
            return Err(format!("older-write-overwrote-a-newer-one kind={kind} (call stamped 150 changed the value accepted at 200)"));
        }
        status.push(format!("{kind}:{}", if got.is_ok() { "answered-ok-without-effect" } else { "refused" }));
        Ok(())
    };
    let res = std::panic::catch_unwind(std::panic::AssertUnwindSafe(|| run("incr").and_then(|_| run("cas")).and_then(|_| run("patch"))));
    let verdict = match res {
        Ok(Ok(())) => "ok".to_string(),
        Ok(Err(e)) => format!("FAIL {e}"),
        Err(_) => "FAIL an-api-call-panicked".to_string(),
    };
    let _ = std::fs::remove_file(&path);
    (format!("note race directed=parked-explicit-timestamp-writer {}", status.join(",")), verdict)
}

pub fn racechild(opts: &Opts) -> i32 {
    let dir = opts.str("out", "/verif/.build/cases/race");
    let sh = opts.u64("shard", 0);
    let seed = opts.u64("seed", 1);
    let n = opts.u64("n", 4);
    feoxdb::verif::dev::install(Some(Arc::new(Dev)));
    let cb: feoxdb::verif::ext::Callback = Arc::new(note);
    feoxdb::verif::ext::install(Some(cb));
    let pcb: feoxdb::verif::sched::Callback = Arc::new(point);
    feoxdb::verif::sched::install(Some(pcb));
    let mut out = Out::new(&dir, &format!("s{sh}"));
    let mut rng = Rng::new(seed.wrapping_mul(2_147_483_647).wrapping_add(sh * 977));
    let path = format!("{dir}/dev/race_{sh}.feox");
    std::fs::create_dir_all(format!("{dir}/dev")).unwrap();
    if sh < 2 {
        let (case, verdict) = directed_late_cache_fill(&dir, sh);
        out.emit3(&case, "note", &verdict);
    }
    if sh == 2 || sh == 3 {
        let (case, verdict) = directed_expired_pinned_reader(&dir, sh);
        out.emit3(&case, "note", &verdict);
    }
    if sh == 4 || sh == 5 {
        let (case, verdict) = directed_parked_writer(&dir, sh);
        out.emit3(&case, "note", &verdict);
    }
    let mut summary = std::collections::BTreeMap::<String, u64>::new();
    for _case in 0..n {
        let _ = std::fs::remove_file(&path);
        // tight: the device has room for every key once plus at most two spare blocks, so a second
        // copy of a value (update, TTL-only rewrite) often has to wait for a retirement
        let tight = rng.chance(1, 3);
        let nkeys = if tight { rng.range(2, 4) } else { rng.range(3, 6) };
        let blocks = if tight { 16 + nkeys * 2 + rng.range(0, 1) } else { rng.range(44, 72) };
        let cache = !tight && rng.chance(1, 2);
        // with the cache on, two thirds of the runs give every key one value length for all its
        // generations and always have TTL: a cache entry of a superseded generation then differs from the
        // current one in identity only
        let samelen = cache && rng.chance(2, 3);
        let ttl = tight || samelen || rng.chance(1, 2);
        let nwriters = rng.range(1, 2);
        let nreaders = rng.range(2, 3);
        let wops = if tight { rng.range(30, 60) } else { rng.range(60, 140) };
        let sync_path = rng.chance(1, 3);
        feoxdb::verif::dev::set_force_sync_path(sync_path);
        EVENTS.lock().unwrap().clear();
        let store = match FeoxStore::builder()
            .hash_bits(6)
            .no_memory_limit()
            .enable_ttl(ttl)
            .device_path(path.clone())
            .file_size(blocks * 4096)
            .enable_caching(cache)
            .build()
        {
            Ok(s) => Arc::new(s),
            Err(e) => {
                out.emit3("note open-failed", "note", &format!("FAIL cannot-open-store {e}"));
                continue;
            }
        };
        SLEEP_SEED.store(rng.next(), Ordering::Relaxed);
        SLEEPS_ON.store(true, Ordering::Relaxed);
        let clock = Arc::new(AtomicU64::new(1));
        let epoch = std::time::Instant::now();
        let done = Arc::new(AtomicBool::new(false));
        let mut whandles = Vec::new();
        for w in 0..nwriters {
            let store = store.clone();
            let clock = clock.clone();
            let mut rng = rng.fork();
            whandles.push(std::thread::spawn(move || {
                let us = move || epoch.elapsed().as_micros() as u64;
                let mut log: Vec<WOp> = Vec::new();
                let mut touch: Vec<(u64, u64, u64)> = Vec::new(); // TTL-only rewrites: key, t0, t1
                let mut gens = vec![0u64; nkeys as usize];
                let mut present = vec![false; nkeys as usize];
                let mut ttl_rewrites = vec![0u64; nkeys as usize];
                for i in 0..wops {
                    if tight && i == 0 {
                        // preamble: every key of this writer present and offloaded
                        for k in (0..nkeys).filter(|k| k % nwriters == w) {
                            let g = gens[k as usize] + 1;
                            let v = value_of(k, g, rng.range(4100, 6000) as usize);
                            let (t0, inv) = (us(), clock.fetch_add(1, Ordering::SeqCst));
                            let r = store.insert(&key_of(k), &v);
                            let (res, t1) = (clock.fetch_add(1, Ordering::SeqCst), us());
                            if r.is_ok() {
                                gens[k as usize] = g;
                                present[k as usize] = true;
                            }
                            log.push(WOp { t0, t1, key: k, gen: g, present: true, inv, res, ok: r.is_ok() });
                        }
                        let _ = store.flush();
                    }
                    // single writer per key: key k belongs to writer k % nwriters
                    let mine: Vec<u64> = (0..nkeys).filter(|k| k % nwriters == w).collect();
                    if mine.is_empty() {
                        break;
                    }
                    let k = *rng.pick(&mine);
                    // tight devices: TTL-only rewrites and flushes dominate, so that deferred generations
                    // (bytes only in the predecessor's extent) meet a full device
                    let kind = if tight {
                        *rng.pick(&[10u64, 70, 80, 80, 80, 80, 80, 80, 90, 90, 90, 90, 97, 99, 99])
                    } else if samelen {
                        let any = rng.below(100);
                        *rng.pick(&[10u64, 10, 10, 10, 80, 80, 80, 90, 90, 90, 97, any])
                    } else {
                        rng.below(100)
                    };
                    if kind < 62 {
                        let len = match if tight { 2 } else { rng.below(5) } {
                            0 => rng.range(40, 300),
                            1 => rng.range(3000, 4000),
                            2 => rng.range(4100, 6000),
                            3 => rng.range(7000, 8100),
                            _ => rng.range(8200, 12200),
                        } as usize;
                        let len = if samelen { 4200 + 37 * k as usize } else { len };
                        let g = gens[k as usize] + 1;
                        let v = value_of(k, g, len);
                        let (t0, inv) = (us(), clock.fetch_add(1, Ordering::SeqCst));
                        let r = if rng.chance(1, 2) { store.insert(&key_of(k), &v) } else { store.insert_bytes(&key_of(k), bytes::Bytes::from(v)) };
                        let (res, t1) = (clock.fetch_add(1, Ordering::SeqCst), us());
                        if r.is_ok() {
                            gens[k as usize] = g;
                            present[k as usize] = true;
                        }
                        log.push(WOp { t0, t1, key: k, gen: g, present: true, inv, res, ok: r.is_ok() });
                    } else if kind < 76 {
                        let g = gens[k as usize] + 1;
                        let (t0, inv) = (us(), clock.fetch_add(1, Ordering::SeqCst));
                        let r = store.delete(&key_of(k));
                        let (res, t1) = (clock.fetch_add(1, Ordering::SeqCst), us());
                        if r.is_ok() {
                            gens[k as usize] = g;
                            present[k as usize] = false;
                            log.push(WOp { t0, t1, key: k, gen: g, present: false, inv, res, ok: true });
                        }
                    } else if kind < 86 && ttl {
                        // TTL-only rewrite: same value, new generation of the record (deferred bytes)
                        let t0 = us();
                        let r = if rng.chance(1, 3) { store.persist(&key_of(k)) } else { store.update_ttl(&key_of(k), rng.range(7200, 100_000)) };
                        if r.is_ok() {
                            ttl_rewrites[k as usize] += 1;
                            touch.push((k, t0, us()));
                        }
                    } else if kind < 96 {
                        let _ = store.flush();
                    } else if kind == 99 {
                        // a quiet period: nothing is being rewritten, readers keep reading
                        let _ = store.flush();
                        std::thread::sleep(Duration::from_millis(420));
                    } else {
                        std::thread::sleep(Duration::from_millis(rng.range(1, 8)));
                    }
                    if i % 16 == 15 {
                        let _ = store.flush();
                    }
                }
                (log, ttl_rewrites, touch)
            }));
        }
        let mut rhandles = Vec::new();
        for _r in 0..nreaders {
            let store = store.clone();
            let clock = clock.clone();
            let done = done.clone();
            let mut rng = rng.fork();
            rhandles.push(std::thread::spawn(move || {
                let us = move || epoch.elapsed().as_micros() as u64;
                let mut log: Vec<ROp> = Vec::new();
                while !done.load(Ordering::Relaxed) && log.len() < 4000 {
                    let k = rng.below(nkeys);
                    let kind = rng.below(10);
                    let (t0, inv) = (us(), clock.fetch_add(1, Ordering::SeqCst));
                    let (what, outv): (&'static str, Vec<(u64, Result<Vec<u8>, String>)>) = match kind {
                        0..=3 => ("get", vec![(k, store.get(&key_of(k)).map_err(|e| err_name(&e)))]),
                        4..=6 => ("get_bytes", vec![(k, store.get_bytes(&key_of(k)).map(|b| b.to_vec()).map_err(|e| err_name(&e)))]),
                        7 => {
                            // a compare-and-swap that can never match: it reads and compares the value
                            let r = store.compare_and_swap(&key_of(k), b"never-a-value", b"x");
                            ("cas", vec![(k, match r {
                                Ok(false) => Err("nf".to_string()), // no information about the bytes
                                Ok(true) => Err("err:cas-swapped-on-a-value-never-written".to_string()),
                                Err(e) => Err(err_name(&e)),
                            })])
                        }
                        _ => match store.range_query(b"rk", b"rk~", 100) {
                            Ok(pairs) => (
                                "range",
                                pairs
                                    .into_iter()
                                    .map(|(kk, v)| {
                                        let id = std::str::from_utf8(&kk[2..]).ok().and_then(|s| s.parse::<u64>().ok()).unwrap_or(999);
                                        (id, Ok(v))
                                    })
                                    .collect(),
                            ),
                            Err(e) => ("range", vec![(k, Err(err_name(&e)))]),
                        },
                    };
                    let (res, t1) = (clock.fetch_add(1, Ordering::SeqCst), us());
                    for (key, out) in outv {
                        if what == "cas" && out == Err("nf".to_string()) {
                            continue;
                        }
                        log.push(ROp { t0, t1, key, inv, res, what, out });
                    }
                }
                log
            }));
        }
        let mut wlog: Vec<WOp> = Vec::new();
        let mut rewrites = vec![0u64; nkeys as usize];
        let mut touches: Vec<(u64, u64, u64)> = Vec::new();
        for h in whandles {
            let (l, t, tc) = h.join().unwrap();
            wlog.extend(l);
            touches.extend(tc);
            for (i, x) in t.iter().enumerate() {
                rewrites[i] += x;
            }
        }
        done.store(true, Ordering::Relaxed);
        let mut rlog: Vec<ROp> = Vec::new();
        for h in rhandles {
            rlog.extend(h.join().unwrap());
        }
        SLEEPS_ON.store(false, Ordering::Relaxed);
        let _ = store.flush();
        // final reads, sequentially
        let fin = clock.fetch_add(1, Ordering::SeqCst);
        let tfin = epoch.elapsed().as_micros() as u64 + 10_000_000;
        for k in 0..nkeys {
            rlog.push(ROp { t0: tfin, t1: tfin + 1, key: k, inv: fin, res: fin + 1, what: "final", out: store.get(&key_of(k)).map_err(|e| err_name(&e)) });
        }
        drop(store);

        // ---- oracle ----
        let mut verdict = "ok".to_string();
        let mut stats = [0u64; 5]; // values, nf, stale, from-disk unknown, other
        for r in &rlog {
            let ops: Vec<&WOp> = wlog.iter().filter(|w| w.key == r.key && w.ok).collect();
            // newest write op completed before the read began
            let floor = ops.iter().filter(|w| w.res < r.inv).map(|w| w.gen).max().unwrap_or(0);
            // newest write op invoked before the read ended
            let ceil = wlog.iter().filter(|w| w.key == r.key && w.inv < r.res).map(|w| w.gen).max().unwrap_or(0);
            let state_at = |g: u64| ops.iter().find(|w| w.gen == g).map(|w| w.present);
            let bad = match &r.out {
                Ok(v) => {
                    stats[0] += 1;
                    match parse_value(v) {
                        None => Some(format!("returned-bytes-are-not-a-value-ever-written len={} head={}", v.len(), crate::util::hex(&v[..v.len().min(24)]))),
                        Some((k, _)) if k != r.key => Some(format!("returned-another-keys-value k={k}")),
                        Some((_, g)) if g < floor => Some(format!("returned-a-generation-older-than-the-last-completed-update gen={g} floor={floor}")),
                        Some((_, g)) if g > ceil => Some(format!("returned-a-generation-not-yet-invoked gen={g} ceil={ceil}")),
                        Some(_) => None,
                    }
                }
                Err(e) if e == "nf" => {
                    stats[1] += 1;
                    // absent must have been the state at some generation in [floor, ceil]
                    let ok = (floor..=ceil).any(|g| if g == 0 { true } else { state_at(g) == Some(false) });
                    if ok || r.what == "range" { None } else { Some(format!("not-found-although-present-throughout floor={floor} ceil={ceil}")) }
                }
                Err(e) if e == "stale" => {
                    stats[2] += 1;
                    // "being rewritten": an update, delete or TTL-only rewrite of the key overlaps the read,
                    // or returned less than SLACK before it began (its retirement runs in the background)
                    const SLACK_US: u64 = 250_000;
                    let rewritten = wlog.iter().any(|w| w.key == r.key && w.t0 <= r.t1 && r.t0 <= w.t1 + SLACK_US)
                        || touches.iter().any(|(k, a, b)| *k == r.key && *a <= r.t1 && r.t0 <= *b + SLACK_US);
                    if rewritten { None } else { Some("stale-extent-on-a-key-that-is-not-being-rewritten".to_string()) }
                }
                Err(e) => {
                    stats[4] += 1;
                    Some(format!("unexpected-read-error {e}"))
                }
            };
            if let Some(b) = bad {
                if verdict == "ok" {
                    verdict = format!("FAIL {b} key={} what={} inv={} res={}", r.key, r.what, r.inv, r.res);
                }
            }
        }
        let evs = std::mem::take(&mut *EVENTS.lock().unwrap());
        let pins = evs.iter().filter(|e| e.0 == b'p').count();
        let body = evs.iter().filter(|e| e.0 != b'w' || e.1 >= 16).map(|(k, s, n)| format!("{}{s},{n}", *k as char)).collect::<Vec<_>>().join(" ");
        *summary.entry("reads-value".into()).or_default() += stats[0];
        *summary.entry("reads-notfound".into()).or_default() += stats[1];
        *summary.entry("reads-stale".into()).or_default() += stats[2];
        *summary.entry("pins".into()).or_default() += pins as u64;
        *summary.entry("data-writes".into()).or_default() += evs.iter().filter(|e| e.0 == b'w' && e.1 >= 16).count() as u64;
        out.emit3(
            &format!("pins cfg=tight{},keys{nkeys},blocks{blocks},cache{},ttl{},w{nwriters},r{nreaders},sync{} reads={} stale={} rewrites={} pinned={pins} {body}", tight as u8, cache as u8, ttl as u8, sync_path as u8, rlog.len(), stats[2], rewrites.iter().sum::<u64>()),
            "ok",
            &verdict,
        );
    }
    let _ = std::fs::remove_file(&path);
    out.finish();
    println!("{}", summary.iter().map(|(k, v)| format!("{k}={v}")).collect::<Vec<_>>().join(" "));
    0
}

/// engine `scan`: range scans hammering keys that are replaced, deleted, expired and re-created at
/// full speed (memory-only and persistent), small and large values.  Every returned pair must be a
/// value written to that key; keys come back in strictly ascending order.  Meant to be re-run under
/// AddressSanitizer (C20) -- the ordered index hands out epoch-managed pointers.
pub fn run_scan(opts: &Opts) -> i32 {
    let dir = opts.str("out", "/verif/.build/cases/scan");
    let seed = opts.u64("seed", 1);
    let n = opts.u64("n", if opts.thorough() { 40 } else { 4 });
    let ms = opts.u64("ms", 400);
    std::fs::create_dir_all(format!("{dir}/dev")).unwrap();
    let mut out = Out::new(&dir, "s0");
    let mut rng = Rng::new(seed.wrapping_mul(524_287));
    let mut pairs_total = 0u64;
    for case in 0..n {
        let persistent = case % 4 == 3;
        let path = format!("{dir}/dev/scan.feox");
        let _ = std::fs::remove_file(&path);
        let ttl = rng.chance(1, 2);
        let mut b = FeoxStore::builder().hash_bits(6).no_memory_limit().enable_ttl(ttl);
        if persistent {
            b = b.device_path(path.clone()).file_size(512 * 4096).enable_caching(rng.chance(1, 2));
        }
        let store = match b.build() {
            Ok(s) => Arc::new(s),
            Err(e) => {
                out.emit3("note open-failed", "note", &format!("FAIL cannot-open-store {e}"));
                continue;
            }
        };
        let nkeys = rng.range(2, 6);
        let big = rng.chance(2, 3);
        // C14 under concurrency: keys that nobody touches while the scans run must be in every scan
        // exactly once; keys deleted before the scans began must never appear.  They sort between
        // and around the churned keys ("rk00".."rk05").
        let nstable = rng.range(2, 6);
        for i in 0..nstable {
            let _ = store.insert(format!("rk0{i}~stable").as_bytes(), &value_of(100 + i, 1, 64));
            let _ = store.insert(format!("rj-stable{i}").as_bytes(), &value_of(200 + i, 1, 64));
            let _ = store.insert(format!("rk0{i}~dead").as_bytes(), b"x");
            let _ = store.delete(format!("rk0{i}~dead").as_bytes());
        }
        let stop = Arc::new(AtomicBool::new(false));
        let bad = Arc::new(Mutex::new(None::<String>));
        let pairs = Arc::new(AtomicU64::new(0));
        let mut hs = Vec::new();
        for w in 0..4u64 {
            let store = store.clone();
            let stop = stop.clone();
            let mut rng = rng.fork();
            hs.push(std::thread::spawn(move || {
                let mut g = w * 1_000_000;
                while !stop.load(Ordering::Relaxed) {
                    let k = rng.below(nkeys);
                    g += 1;
                    let len = if big && rng.chance(2, 3) { rng.range(8300, 20_000) } else { rng.range(40, 200) } as usize;
                    let v = value_of(k, g, len);
                    match rng.below(10) {
                        0..=4 => {
                            let _ = store.insert(&key_of(k), &v);
                        }
                        5 | 6 => {
                            let _ = store.insert_bytes(&key_of(k), bytes::Bytes::from(v));
                        }
                        7 => {
                            let _ = store.delete(&key_of(k));
                        }
                        8 if ttl => {
                            let _ = store.update_ttl(&key_of(k), 3600);
                        }
                        _ => {
                            if let Ok(cur) = store.get(&key_of(k)) {
                                let _ = store.compare_and_swap(&key_of(k), &cur, &v);
                            }
                        }
                    }
                }
            }));
        }
        for _ in 0..4 {
            let store = store.clone();
            let stop = stop.clone();
            let bad = bad.clone();
            let pairs = pairs.clone();
            hs.push(std::thread::spawn(move || {
                while !stop.load(Ordering::Relaxed) {
                    match store.range_query(b"rj", b"rk~", 1000) {
                        Ok(res) => {
                            pairs.fetch_add(res.len() as u64, Ordering::Relaxed);
                            let mut last: Option<Vec<u8>> = None;
                            let stable_seen = res.iter().filter(|(k, _)| k.ends_with(b"~stable") || k.starts_with(b"rj-stable")).count() as u64;
                            if stable_seen != 2 * nstable {
                                *bad.lock().unwrap() = Some(format!("a-key-untouched-during-the-scan-is-missing-or-duplicated seen={stable_seen} expected={}", 2 * nstable));
                            }
                            if res.iter().any(|(k, _)| k.ends_with(b"~dead")) {
                                *bad.lock().unwrap() = Some("a-key-deleted-before-the-scan-began-appeared".into());
                            }
                            for (k, v) in res {
                                if last.as_ref().map_or(false, |l| *l >= k) {
                                    *bad.lock().unwrap() = Some("range-result-not-strictly-ascending".into());
                                }
                                if k.ends_with(b"~stable") || k.starts_with(b"rj-stable") {
                                    if parse_value(&v).is_none() {
                                        *bad.lock().unwrap() = Some("stable-key-returned-with-bytes-never-written".into());
                                    }
                                    last = Some(k);
                                    continue;
                                }
                                let id = std::str::from_utf8(&k[2..]).ok().and_then(|s| s.parse::<u64>().ok()).unwrap_or(999);
                                match parse_value(&v) {
                                    Some((kk, _)) if kk == id => {}
                                    Some((kk, _)) => *bad.lock().unwrap() = Some(format!("range-returned-another-keys-value key={id} value-of={kk}")),
                                    None => *bad.lock().unwrap() = Some(format!("range-returned-bytes-never-written key={id} len={}", v.len())),
                                }
                                last = Some(k);
                            }
                        }
                        Err(e) => *bad.lock().unwrap() = Some(format!("range-query-error {e}")),
                    }
                }
            }));
        }
        std::thread::sleep(Duration::from_millis(ms));
        stop.store(true, Ordering::Relaxed);
        for h in hs {
            let _ = h.join();
        }
        // the duel: one thread creates fresh keys (each exactly once), another deletes each as soon
        // as it can; once a delete has succeeded the key is gone from BOTH indexes -- a read and a
        // range query over just that key must not find it (a key deleted before the query began
        // never appears), whatever the interleaving of the creation's two index insertions
        {
            let trials = opts.u64("duel", 3000);
            let next = Arc::new(AtomicU64::new(0));
            let deleted = Arc::new(AtomicU64::new(0));
            let s2 = store.clone();
            let (n2, d2) = (next.clone(), deleted.clone());
            let deleter = std::thread::spawn(move || {
                for i in 0..trials {
                    let key = format!("rd{i:08}").into_bytes();
                    let t0 = std::time::Instant::now();
                    loop {
                        if s2.delete(&key).is_ok() {
                            break;
                        }
                        if t0.elapsed() > Duration::from_secs(20) {
                            return;
                        }
                        if n2.load(Ordering::Acquire) <= i {
                            std::hint::spin_loop();
                        }
                    }
                    d2.store(i + 1, Ordering::Release);
                }
            });
            for i in 0..trials {
                let key = format!("rd{i:08}").into_bytes();
                let _ = store.insert(&key, b"payload");
                next.store(i + 1, Ordering::Release);
                let t0 = std::time::Instant::now();
                while deleted.load(Ordering::Acquire) <= i && t0.elapsed() < Duration::from_secs(20) {
                    std::hint::spin_loop();
                }
                if deleted.load(Ordering::Acquire) <= i {
                    *bad.lock().unwrap() = Some(format!("duel-delete-of-a-created-key-never-succeeded trial={i}"));
                    break;
                }
                let got = store.get(&key).is_ok();
                let mut hi = key.clone();
                hi.push(0xff);
                let ranged = store.range_query(&key, &hi, 10).map(|r| r.len()).unwrap_or(99);
                if got || ranged != 0 {
                    *bad.lock().unwrap() = Some(format!("a-key-deleted-before-the-query-began-appeared trial={i} get-finds-it={got} range-returns={ranged} (creation racing the delete)"));
                    break;
                }
            }
            let _ = deleter.join();
        }
        // quiescent: the ordered and the hashed index hold the same keys
        let mut verdict = bad.lock().unwrap().clone().map_or("ok".to_string(), |b| format!("FAIL {b}"));
        if verdict == "ok" {
            let mut hashed = store.verif_hash_keys();
            hashed.sort();
            let ordered: Vec<Vec<u8>> = store.range_query(b"", &[0xff; 8], 1_000_000).map(|r| r.into_iter().map(|(k, _)| k).collect()).unwrap_or_default();
            let snap: Vec<Vec<u8>> = store.verif_snapshot().into_iter().map(|r| r.key).collect();
            if hashed != snap {
                verdict = format!("FAIL ordered-and-hashed-index-disagree-at-quiescence hashed={} ordered={}", hashed.len(), snap.len());
            } else if ordered != snap && !ttl {
                verdict = format!("FAIL full-range-query-differs-from-the-index-at-quiescence range={} index={}", ordered.len(), snap.len());
            }
        }
        pairs_total += pairs.load(Ordering::Relaxed);
        out.emit3(&format!("note scan case={case} persistent={} ttl={} keys={nkeys} big={} pairs={}", persistent as u8, ttl as u8, big as u8, pairs.load(Ordering::Relaxed)), "note", &verdict);
        drop(store);
        let _ = std::fs::remove_file(&path);
    }
    std::fs::write(format!("{dir}/stats.json"), format!("{{\"pairs_returned_by_scans\": {pairs_total}}}")).unwrap();
    let total = out.finish();
    println!("scan: {total} cases, {pairs_total} pairs");
    0
}

/// engine `sweep` (C11): expiry with the background sweeper running, TTL changes racing expiry,
/// readers polling; visibility is judged against the wall clock with a margin.
pub fn run_sweep(opts: &Opts) -> i32 {
    use feoxdb::core::ttl_sweep::TtlConfig;
    let dir = opts.str("out", "/verif/.build/cases/sweep");
    let seed = opts.u64("seed", 1);
    let n = opts.u64("n", if opts.thorough() { 48 } else { 16 });
    let force_cache = opts.u64("cache", 0) == 1;
    std::fs::create_dir_all(format!("{dir}/dev")).unwrap();
    let now_ns = || std::time::SystemTime::now().duration_since(std::time::UNIX_EPOCH).unwrap().as_nanos() as u64;
    const MARGIN: u64 = 150_000_000; // 150 ms either side of the expiry instant is not judged
    let mut handles = Vec::new();
    for case in 0..n {
        let dir = dir.clone();
        handles.push(std::thread::spawn(move || {
            let mut rng = Rng::new(seed.wrapping_mul(7919).wrapping_add(case));
            let persistent = case % 2 == 1;
            // half of the runs have no sweeper: expiry is then enforced by the lazy check of each read alone
            let sweeper_on = case % 8 < 4;
            let path = format!("{dir}/dev/sweep_{case}.feox");
            let _ = std::fs::remove_file(&path);
            let open = |path: &str| {
                let mut b = FeoxStore::builder().hash_bits(6).no_memory_limit().enable_ttl(true);
                if persistent {
                    b = b.device_path(path.to_string()).file_size(512 * 4096).enable_caching(case % 4 == 1 || force_cache);
                }
                b.build().map(Arc::new)
            };
            let store = match open(&path) {
                Ok(s) => s,
                Err(e) => return (format!("note sweep case={case}"), format!("FAIL cannot-open-store {e}")),
            };
            if sweeper_on {
            store.start_ttl_sweeper(Some(TtlConfig {
                sample_size: 20,
                expiry_threshold: 0.1,
                max_iterations: 16,
                max_time_per_run: Duration::from_millis(5),
                sleep_interval: Duration::from_millis(rng.range(10, 80)),
                enabled: true,
            }));
            }
            // key -> (value, earliest expiry, latest expiry)  (0,0 = never)
            let mut keys: Vec<(Vec<u8>, Vec<u8>, u64, u64)> = Vec::new();
            let nk = rng.range(6, 30);
            for i in 0..nk {
                let k = format!("sw{i:03}").into_bytes();
                let v = value_of(i, 1, rng.range(20, 5000) as usize);
                let ttl = match rng.below(3) {
                    0 => 0,
                    1 => 1,
                    _ => 3600,
                };
                let tb = now_ns();
                let r = if ttl == 0 { store.insert(&k, &v).map(|_| ()) } else { store.insert_with_ttl(&k, &v, ttl).map(|_| ()) };
                let ta = now_ns();
                if r.is_err() {
                    continue;
                }
                let (lo, hi) = if ttl == 0 { (0, 0) } else { (tb + ttl * 1_000_000_000, ta + ttl * 1_000_000_000) };
                keys.push((k, v, lo, hi));
            }
            if persistent && (rng.chance(1, 2) || !sweeper_on) {
                let _ = store.flush();
            }
            // TTL changes before anything expires
            for e in keys.iter_mut() {
                match rng.below(6) {
                    0 => {
                        if store.persist(&e.0).is_ok() {
                            e.2 = 0;
                            e.3 = 0;
                        }
                    }
                    1 => {
                        let tb = now_ns();
                        if store.update_ttl(&e.0, 1).is_ok() {
                            e.2 = tb + 1_000_000_000;
                            e.3 = now_ns() + 1_000_000_000;
                        }
                    }
                    2 => {
                        let tb = now_ns();
                        if store.update_ttl(&e.0, 3600).is_ok() {
                            e.2 = tb + 3_600_000_000_000;
                            e.3 = now_ns() + 3_600_000_000_000;
                        }
                    }
                    _ => {}
                }
            }
            let mut verdict = "ok".to_string();
            let judge = |k: &[u8], v: &[u8], lo: u64, hi: u64, tb: u64, ta: u64, r: &Result<Vec<u8>, FeoxError>| -> Option<String> {
                let must_live = lo == 0 || ta + MARGIN < lo;
                let must_be_gone = hi != 0 && tb > hi + MARGIN;
                match r {
                    Ok(got) if must_be_gone => Some(format!("key-visible-after-its-expiry key={} late-by-ms={}", String::from_utf8_lossy(k), (tb - hi) / 1_000_000)),
                    Ok(got) if got != v => Some(format!("wrong-value key={}", String::from_utf8_lossy(k))),
                    Err(FeoxError::KeyNotFound) if must_live => Some(format!("unexpired-key-not-found key={} ttl-left-ms={}", String::from_utf8_lossy(k), if lo == 0 { 0 } else { (lo - ta) / 1_000_000 })),
                    Err(e) if !matches!(e, FeoxError::KeyNotFound) => Some(format!("unexpected-error {e} key={}", String::from_utf8_lossy(k))),
                    _ => None,
                }
            };
            let start = std::time::Instant::now();
            let mut reads = 0u64;
            while start.elapsed() < Duration::from_millis(2400) {
                let e = &keys[rng.below(keys.len() as u64) as usize];
                let tb = now_ns();
                let r = if rng.chance(1, 2) { store.get(&e.0) } else { store.get_bytes(&e.0).map(|b| b.to_vec()) };
                let ta = now_ns();
                reads += 1;
                if let Some(b) = judge(&e.0, &e.1, e.2, e.3, tb, ta, &r) {
                    verdict = format!("FAIL {b}");
                    break;
                }
                if reads % 64 == 0 {
                    std::thread::sleep(Duration::from_millis(5));
                }
            }
            // everything with a 1 s TTL is now long expired: a range scan shows exactly the others
            if verdict == "ok" {
                let tb = now_ns();
                if let Ok(pairs) = store.range_query(b"sw", b"sw~", 10_000) {
                    let ta = now_ns();
                    for e in &keys {
                        let present = pairs.iter().any(|(k, _)| *k == e.0);
                        let must_live = e.2 == 0 || ta + MARGIN < e.2;
                        let must_be_gone = e.3 != 0 && tb > e.3 + MARGIN;
                        if present && must_be_gone {
                            verdict = format!("FAIL expired-key-in-a-range-scan key={}", String::from_utf8_lossy(&e.0));
                        } else if !present && must_live {
                            verdict = format!("FAIL unexpired-key-missing-from-a-range-scan key={}", String::from_utf8_lossy(&e.0));
                        }
                    }
                }
            }
            // C13 with the sweeper: whatever it has removed, memory_usage() is the sum over the records
            // that are still indexed and len() their number (sampled when nothing is being written)
            if verdict == "ok" {
                let mut stable = false;
                for _ in 0..40 {
                    let snap = store.verif_snapshot();
                    let expect: usize = snap.iter().map(|r| FeoxStore::verif_record_overhead() + r.key.len() + r.value_len).sum();
                    let (got, n) = (store.memory_usage(), store.len());
                    // the sweeper may remove a key between the snapshot and the two reads: look again
                    let snap2 = store.verif_snapshot();
                    if snap2.len() == snap.len() && got == expect && n == snap.len() {
                        stable = true;
                        break;
                    }
                    if snap2.len() == snap.len() && (got != expect || n != snap.len()) && !sweeper_on {
                        break;
                    }
                    std::thread::sleep(Duration::from_millis(15));
                }
                if !stable {
                    let snap = store.verif_snapshot();
                    let expect: usize = snap.iter().map(|r| FeoxStore::verif_record_overhead() + r.key.len() + r.value_len).sum();
                    verdict = format!("FAIL memory_usage-differs-from-the-indexed-records usage={} expected={expect} len={} records={}", store.memory_usage(), store.len(), snap.len());
                }
            }
            // restart: expired keys stay gone, the others keep their value and expiry
            if verdict == "ok" && persistent {
                let _ = store.flush();
                drop(store);
                match open(&path) {
                    Ok(s2) => {
                        for e in &keys {
                            let tb = now_ns();
                            let r = s2.get(&e.0);
                            let ta = now_ns();
                            if let Some(b) = judge(&e.0, &e.1, e.2, e.3, tb, ta, &r) {
                                verdict = format!("FAIL after-restart: {b}");
                                break;
                            }
                        }
                    }
                    Err(e) => verdict = format!("FAIL reopen-failed {e}"),
                }
            }
            let _ = std::fs::remove_file(&path);
            (format!("note sweep case={case} persistent={} sweeper={} keys={} reads={reads}", persistent as u8, sweeper_on as u8, keys.len()), verdict)
        }));
    }
    let mut out = Out::new(&dir, "s0");
    for h in handles {
        let (case, verdict) = h.join().unwrap();
        out.emit3(&case, "note", &verdict);
    }
    let total = out.finish();
    println!("sweep: {total} cases");
    0
}

pub fn run(opts: &Opts) -> i32 {
    let dir = opts.str("out", "/verif/.build/cases/race");
    let seed = opts.u64("seed", 1);
    let shards = opts.u64("shards", 16);
    let n = opts.u64("n", if opts.thorough() { 60 } else { 3 });
    let mut handles = Vec::new();
    for sh in 0..shards {
        let dir = dir.clone();
        handles.push(std::thread::spawn(move || {
            run_child(&["racechild".into(), format!("out={dir}"), format!("shard={sh}"), format!("seed={seed}"), format!("n={n}")], 400 + n * 60)
        }));
    }
    let mut all = std::collections::BTreeMap::<String, u64>::new();
    let mut failed = 0;
    for h in handles {
        match h.join().unwrap() {
            Some(line) if !line.contains("TIMEOUT") && !line.contains("CHILD-DIED") => {
                for kv in line.split_whitespace() {
                    if let Some((k, v)) = kv.split_once('=') {
                        *all.entry(k.to_string()).or_default() += v.parse::<u64>().unwrap_or(0);
                    }
                }
            }
            other => {
                failed += 1;
                eprintln!("race child failed: {other:?}");
            }
        }
    }
    if failed > 0 {
        let mut out = Out::new(&dir, "parent");
        out.emit3("note child-failed", "note", &format!("FAIL {failed}-race-children-died-or-hung"));
        out.finish();
    }
    let dist = all.iter().map(|(k, v)| format!("\"{k}\": {v}")).collect::<Vec<_>>().join(", ");
    std::fs::write(format!("{dir}/stats.json"), format!("{{{dist}}}")).unwrap();
    println!("race: {} children, {dist}", shards);
    0
}
