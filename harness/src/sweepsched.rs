//! C11, concurrent clause (T-sched for Model.Sweep): the real TTL sweeper is parked at the H9
//! scheduling points -- right after its sample and between finding a sampled record expired and
//! the guarded removal -- while this thread renews, replaces, deletes or reads the keys; then it
//! is released.  The executed event sequence is replayed by `Model.Sweep.sstep`; every client
//! result and the final table (ordered index and hashed index) must agree.
//!
//! Expiries are either four hours in the past (expired on arrival, explicit timestamp) or at
//! least two hours ahead, so every comparison with the wall clock has the same outcome as in the
//! model, whose clock stands at 1000 with expiries 500 (past), 5000 (future) or 0 (none).
use crate::img::run_child;
use crate::util::{Opts, Out, Rng};
use feoxdb::core::ttl_sweep::TtlConfig;
use feoxdb::{FeoxError, FeoxStore};
use std::sync::{Arc, Condvar, Mutex};
use std::time::{Duration, Instant};

#[derive(Default)]
struct Ctl {
    enabled: bool,
    seq: u64,
    parked: Option<(String, Vec<u8>)>,
    release: bool,
}

static CTL: Mutex<Option<Arc<(Mutex<Ctl>, Condvar)>>> = Mutex::new(None);

thread_local! { static HELPER: std::cell::Cell<bool> = const { std::cell::Cell::new(false) }; }

fn point(name: &'static str, key: &[u8]) {
    let Some(ctl) = CTL.lock().unwrap().clone() else { return };
    let lazy = name.starts_with("c11_lazy") && HELPER.with(|h| h.get());
    if !name.starts_with("c11_sweep") && !lazy {
        return;
    }
    let (m, cv) = &*ctl;
    let mut g = m.lock().unwrap();
    if !g.enabled {
        return;
    }
    g.seq += 1;
    g.parked = Some((name.to_string(), key.to_vec()));
    g.release = false;
    cv.notify_all();
    while !g.release && g.enabled {
        g = cv.wait(g).unwrap();
    }
    g.parked = None;
    g.release = false;
    cv.notify_all();
}

/// wait for the sweeper's next park; None on timeout
fn wait_park(ctl: &Arc<(Mutex<Ctl>, Condvar)>, last: &mut u64, timeout: Duration) -> Option<(String, Vec<u8>)> {
    let (m, cv) = &**ctl;
    let start = Instant::now();
    let mut g = m.lock().unwrap();
    loop {
        if g.seq > *last {
            if let Some(p) = g.parked.clone() {
                *last = g.seq;
                return Some(p);
            }
        }
        let left = timeout.checked_sub(start.elapsed())?;
        g = cv.wait_timeout(g, left).unwrap().0;
    }
}

fn release(ctl: &Arc<(Mutex<Ctl>, Condvar)>) {
    let (m, cv) = &**ctl;
    let mut g = m.lock().unwrap();
    g.release = true;
    cv.notify_all();
}

fn disable(ctl: &Arc<(Mutex<Ctl>, Condvar)>) {
    let (m, cv) = &**ctl;
    let mut g = m.lock().unwrap();
    g.enabled = false;
    g.release = true;
    cv.notify_all();
}

const PAST: u64 = 500;
const FUTURE: u64 = 5000;

fn key_of(i: u64) -> Vec<u8> {
    format!("sk{i:02}").into_bytes()
}
fn index_of(key: &[u8]) -> u64 {
    String::from_utf8_lossy(&key[2..]).parse().unwrap_or(99)
}
fn value_of(tag: u64) -> Vec<u8> {
    let mut v = format!("v{tag:06}-").into_bytes();
    v.resize(16 + (tag % 5) as usize * 700, b'a' + (tag % 26) as u8);
    v
}
fn tag_of(v: &[u8]) -> u64 {
    String::from_utf8_lossy(&v[1..7]).parse().unwrap_or(0)
}

struct Runner {
    store: Arc<FeoxStore>,
    events: Vec<String>,
    results: Vec<String>,
    next_tag: u64,
    next_fresh: u64,
    keys: Vec<u64>,
    fail: Option<String>,
    /// property oracle, independent of the model: what a read of the key must return, given only
    /// this thread's own calls (the sweeper may remove expired generations, which are invisible anyway)
    expect: std::collections::HashMap<u64, Option<u64>>,
}

impl Runner {
    fn now_ns() -> u64 {
        std::time::SystemTime::now().duration_since(std::time::UNIX_EPOCH).unwrap().as_nanos() as u64
    }
    /// a record that is expired on arrival needs an explicit timestamp in the past: fresh key only
    fn put_past(&mut self) {
        let k = self.next_fresh;
        self.next_fresh += 1;
        self.keys.push(k);
        let tag = self.next_tag;
        self.next_tag += 1;
        let ts = Self::now_ns() - 4 * 3_600_000_000_000;
        match self.store.insert_with_ttl_and_timestamp(&key_of(k), &value_of(tag), 60, Some(ts)) {
            Ok(_) => {
                self.events.push(format!("P{k},{PAST},{tag}"));
                self.expect.insert(k, None);
            }
            Err(e) => self.fail = Some(format!("insert-expired-on-arrival-refused {e}")),
        }
    }
    fn put(&mut self, k: u64, future: bool) {
        let tag = self.next_tag;
        self.next_tag += 1;
        let r = if future { self.store.insert_with_ttl(&key_of(k), &value_of(tag), 7200 + tag) } else { self.store.insert(&key_of(k), &value_of(tag)) };
        match r {
            Ok(_) => {
                self.events.push(format!("P{k},{},{tag}", if future { FUTURE } else { 0 }));
                self.expect.insert(k, Some(tag));
            }
            Err(e) => self.fail = Some(format!("insert-refused {e} key={k}")),
        }
        if !self.keys.contains(&k) {
            self.keys.push(k);
        }
    }
    fn ttl(&mut self, k: u64, future: bool) {
        let r = if future { self.store.update_ttl(&key_of(k), 9000) } else { self.store.persist(&key_of(k)) };
        self.events.push(format!("T{k},{}", if future { FUTURE } else { 0 }));
        match r {
            Ok(()) if self.expect.get(&k).copied().flatten().is_none() => self.fail = Some(format!("update_ttl-succeeded-on-an-absent-or-expired-key key={k}")),
            Ok(()) => self.results.push("t:1".into()),
            Err(FeoxError::KeyNotFound) if self.expect.get(&k).copied().flatten().is_some() => {
                self.fail = Some(format!("unexpired-key-hidden-or-removed (update_ttl: KeyNotFound) key={k}"))
            }
            Err(FeoxError::KeyNotFound) => self.results.push("t:0".into()),
            Err(e) => self.fail = Some(format!("update_ttl-error {e} key={k}")),
        }
    }
    fn del(&mut self, k: u64) {
        self.events.push(format!("D{k}"));
        let r = self.store.delete(&key_of(k));
        if r.is_ok() || self.expect.get(&k).copied().flatten().is_none() {
            self.expect.insert(k, None);
        }
        match r {
            Ok(()) => self.results.push("d:1".into()),
            Err(FeoxError::KeyNotFound) if self.expect.get(&k).copied().flatten().is_some() => {
                self.fail = Some(format!("unexpired-key-hidden-or-removed (delete: KeyNotFound) key={k}"))
            }
            Err(FeoxError::KeyNotFound) => self.results.push("d:0".into()),
            Err(e) => self.fail = Some(format!("delete-error {e} key={k}")),
        }
    }
    fn get(&mut self, k: u64) {
        self.events.push(format!("G{k}"));
        match self.store.get(&key_of(k)) {
            Ok(v) => {
                let t = tag_of(&v);
                match self.expect.get(&k).copied().flatten() {
                    Some(e) if e == t => self.results.push(format!("g:{t}")),
                    Some(e) => self.fail = Some(format!("read-returned-another-generation key={k} got={t} latest={e}")),
                    None => self.fail = Some(format!("expired-or-deleted-key-visible key={k} got={t}")),
                }
            }
            Err(FeoxError::KeyNotFound) if self.expect.get(&k).copied().flatten().is_some() => {
                self.fail = Some(format!("unexpired-key-hidden-or-removed (get: KeyNotFound) key={k}"))
            }
            Err(FeoxError::KeyNotFound) => self.results.push("g:-".into()),
            Err(e) => self.fail = Some(format!("get-error {e} key={k}")),
        }
    }
    fn client_events(&mut self, rng: &mut Rng, focus: Option<u64>, max: u64) {
        let n = rng.below(max + 1);
        for _ in 0..n {
            // most events hit the key the sweeper is about to handle
            let k = match focus {
                Some(k) if rng.chance(3, 4) => k,
                _ => *rng.pick(&self.keys),
            };
            match rng.below(10) {
                0..=2 => self.put(k, rng.chance(1, 2)),
                3 | 4 => self.ttl(k, rng.chance(1, 2)),
                5 => self.del(k),
                6 => self.put_past(),
                _ => self.get(k),
            }
            if self.fail.is_some() {
                return;
            }
        }
    }
}

/// Lazy retirement (T-sched for ELazySee / ELazyRetire / EIncr): a helper thread increments a counter
/// whose current generation is expired; it is parked between seeing that and
/// `retire_expired_if_current`, while this thread renews, deletes or reads the key.
fn lazy_case(rng: &mut Rng, case: u64, dir: &str, ctl: &Arc<(Mutex<Ctl>, Condvar)>) -> (String, String, String) {
    let persistent = case % 2 == 0;
    let path = format!("{dir}/dev/lzy_{}_{case}.feox", std::process::id());
    let _ = std::fs::remove_file(&path);
    let mut b = FeoxStore::builder().hash_bits(6).no_memory_limit().enable_ttl(true);
    if persistent {
        b = b.device_path(path.clone()).file_size(512 * 4096).enable_caching(case % 4 == 0);
    }
    let store = match b.build() {
        Ok(s) => Arc::new(s),
        Err(e) => return ("swp".into(), "note".into(), format!("FAIL cannot-open-store {e}")),
    };
    let now_ns = || std::time::SystemTime::now().duration_since(std::time::UNIX_EPOCH).unwrap().as_nanos() as u64;
    let ckey = |k: u64| format!("ck{k:02}").into_bytes();
    let mut events: Vec<String> = vec!["K1000".into()];
    let mut results: Vec<String> = Vec::new();
    let mut verdict = "ok".to_string();
    // what a read of each counter must return, from this thread's and the helper's calls alone
    let mut expect: std::collections::HashMap<u64, Option<i64>> = Default::default();
    let mut keys: Vec<u64> = Vec::new();
    let mut hidden: std::collections::HashMap<u64, i64> = Default::default(); // expired value by key
    let nk = rng.range(1, 3);
    for k in 0..nk {
        keys.push(k);
        let init = rng.range(1, 50) as i64;
        if rng.chance(2, 3) {
            // expired on arrival
            let ts = now_ns() - 4 * 3_600_000_000_000;
            match store.atomic_increment_with_timestamp_and_ttl(&ckey(k), init, Some(ts), 60) {
                Ok(_) => {
                    events.push(format!("P{k},{PAST},{init}"));
                    expect.insert(k, None);
                    hidden.insert(k, init);
                }
                Err(e) => verdict = format!("FAIL expired-on-arrival-counter-refused {e}"),
            }
        } else {
            match store.atomic_increment(&ckey(k), init) {
                Ok(v) => {
                    events.push(format!("I{k},{init}"));
                    results.push(format!("i:{v}"));
                    expect.insert(k, Some(init));
                }
                Err(e) => verdict = format!("FAIL increment-refused {e}"),
            }
        }
    }
    if persistent && rng.chance(1, 2) {
        let _ = store.flush();
    }
    {
        let mut g = ctl.0.lock().unwrap();
        g.enabled = true;
        g.release = false;
        g.parked = None;
    }
    let mut last = ctl.0.lock().unwrap().seq;
    for round in 0..rng.range(1, 4) {
        if verdict != "ok" {
            break;
        }
        let k = *rng.pick(&keys);
        let d = rng.range(1, 9) as i64;
        let done = Arc::new(std::sync::atomic::AtomicBool::new(false));
        let helper = {
            let (store, key, done, ctl2) = (store.clone(), ckey(k), done.clone(), ctl.clone());
            std::thread::spawn(move || {
                HELPER.with(|h| h.set(true));
                let r = store.atomic_increment(&key, d);
                done.store(true, std::sync::atomic::Ordering::SeqCst);
                ctl2.1.notify_all();
                r
            })
        };
        // wait for the helper to park or to finish
        let parked = {
            let (m, cv) = &**ctl;
            let start = Instant::now();
            let mut g = m.lock().unwrap();
            loop {
                if g.seq > last && g.parked.is_some() {
                    last = g.seq;
                    break true;
                }
                if done.load(std::sync::atomic::Ordering::SeqCst) {
                    break false;
                }
                if start.elapsed() > Duration::from_secs(20) {
                    verdict = "FAIL increment-neither-finished-nor-reached-its-scheduling-point".into();
                    break false;
                }
                g = cv.wait_timeout(g, Duration::from_millis(5)).unwrap().0;
            }
        };
        if parked {
            events.push(format!("L{round},{k}"));
            // this thread's calls while the helper holds its stale observation
            for _ in 0..rng.range(0, 3) {
                let kk = if rng.chance(3, 4) { k } else { *rng.pick(&keys) };
                match rng.below(6) {
                    0 | 1 => {
                        let v = rng.range(100, 900) as i64;
                        let future = rng.chance(1, 2);
                        let r = if future { store.insert_with_ttl(&ckey(kk), &v.to_le_bytes(), 7200) } else { store.insert(&ckey(kk), &v.to_le_bytes()) };
                        match r {
                            Ok(_) => {
                                events.push(format!("P{kk},{},{v}", if future { FUTURE } else { 0 }));
                                expect.insert(kk, Some(v));
                            }
                            Err(e) => verdict = format!("FAIL insert-refused {e}"),
                        }
                    }
                    2 => {
                        events.push(format!("D{kk}"));
                        match store.delete(&ckey(kk)) {
                            Ok(()) => results.push("d:1".into()),
                            Err(FeoxError::KeyNotFound) => results.push("d:0".into()),
                            Err(e) => verdict = format!("FAIL delete-error {e}"),
                        }
                        expect.insert(kk, None);
                        hidden.remove(&kk);
                    }
                    3 => {
                        events.push(format!("T{kk},{FUTURE}"));
                        match store.update_ttl(&ckey(kk), 9000) {
                            Ok(()) => results.push("t:1".into()),
                            Err(FeoxError::KeyNotFound) => results.push("t:0".into()),
                            Err(e) => verdict = format!("FAIL update_ttl-error {e}"),
                        }
                    }
                    _ => {
                        events.push(format!("G{kk}"));
                        match store.get(&ckey(kk)) {
                            Ok(v) if v.len() == 8 => {
                                let n = i64::from_le_bytes(v[..8].try_into().unwrap());
                                if expect.get(&kk).copied().flatten() != Some(n) {
                                    verdict = format!("FAIL read-returned-a-value-that-is-not-the-latest key={kk} got={n}");
                                }
                                results.push(format!("g:{n}"));
                            }
                            Ok(_) => verdict = "FAIL counter-value-is-not-8-bytes".into(),
                            Err(FeoxError::KeyNotFound) => {
                                if expect.get(&kk).copied().flatten().is_some() {
                                    verdict = format!("FAIL unexpired-key-hidden-or-removed (get: KeyNotFound) key={kk}");
                                }
                                results.push("g:-".into());
                            }
                            Err(e) => verdict = format!("FAIL get-error {e}"),
                        }
                    }
                }
            }
            release(ctl);
        }
        let r = helper.join();
        if parked {
            events.push(format!("R{round}"));
        }
        events.push(format!("I{k},{d}"));
        match r {
            Ok(Ok(v)) => {
                let want = expect.get(&k).copied().flatten().unwrap_or(0) + d;
                if v != want && verdict == "ok" {
                    verdict = format!("FAIL increment-lost-or-applied-to-an-expired-value key={k} got={v} expected={want}");
                }
                results.push(format!("i:{v}"));
                expect.insert(k, Some(v));
                hidden.remove(&k);
            }
            Ok(Err(e)) => verdict = format!("FAIL increment-error {e}"),
            Err(_) => verdict = "FAIL increment-panicked".into(),
        }
    }
    // final reads and table
    for k in keys.clone() {
        events.push(format!("G{k}"));
        match store.get(&ckey(k)) {
            Ok(v) if v.len() == 8 => {
                let n = i64::from_le_bytes(v[..8].try_into().unwrap());
                if expect.get(&k).copied().flatten() != Some(n) && verdict == "ok" {
                    verdict = format!("FAIL final-read-is-not-the-latest-value key={k} got={n}");
                }
                results.push(format!("g:{n}"));
            }
            Ok(_) => verdict = "FAIL counter-value-is-not-8-bytes".into(),
            Err(FeoxError::KeyNotFound) => {
                if expect.get(&k).copied().flatten().is_some() && verdict == "ok" {
                    verdict = format!("FAIL unexpired-key-hidden-or-removed (final get) key={k}");
                }
                results.push("g:-".into());
            }
            Err(e) => verdict = format!("FAIL get-error {e}"),
        }
    }
    let now = now_ns();
    let class = |exp: u64| if exp == 0 { 0 } else if exp < now { PAST } else { FUTURE };
    let mut tbl: Vec<(u64, i64, u64)> = Vec::new();
    for rec in store.verif_snapshot() {
        let k: u64 = String::from_utf8_lossy(&rec.key[2..]).parse().unwrap_or(99);
        let v = match store.get(&rec.key) {
            Ok(v) if v.len() == 8 => i64::from_le_bytes(v[..8].try_into().unwrap()),
            _ => hidden.get(&k).copied().unwrap_or(-1),
        };
        tbl.push((k, v, class(rec.ttl_expiry)));
    }
    tbl.sort();
    // C14 at quiescence: a range query over everything returns exactly the keys a read finds
    if verdict == "ok" {
        let mut readable: Vec<Vec<u8>> = store.verif_hash_keys().into_iter().filter(|k| store.get(k).is_ok()).collect();
        readable.sort();
        match store.range_query(&[], &[0xff; 64], 1 << 20) {
            Ok(rows) => {
                let got: Vec<Vec<u8>> = rows.into_iter().map(|(k, _)| k).collect();
                if got != readable {
                    let missing: Vec<u64> = readable.iter().filter(|k| !got.contains(k)).map(|k| index_of(k)).collect();
                    let extra: Vec<u64> = got.iter().filter(|k| !readable.contains(k)).map(|k| index_of(k)).collect();
                    verdict = format!("FAIL range-query-at-quiescence-differs-from-the-readable-keys missing={missing:?} extra={extra:?}");
                }
            }
            Err(e) => verdict = format!("FAIL range-query-error {e}"),
        }
    }
    let line = format!(
        "{} final={} n={} removed={}",
        results.join(";"),
        tbl.iter().map(|(k, v, e)| format!("{k}:{v}:{e}")).collect::<Vec<_>>().join(";"),
        store.len(),
        store.stats().ttl_expired_active
    );
    disable(ctl);
    let case_text = format!("swp {}", events.join(" "));
    drop(store);
    let _ = std::fs::remove_file(&path);
    (case_text, line, verdict)
}

fn one_case(rng: &mut Rng, case: u64, dir: &str, ctl: &Arc<(Mutex<Ctl>, Condvar)>) -> (String, String, String) {
    let persistent = case % 3 == 2;
    let path = format!("{dir}/dev/swp_{}_{case}.feox", std::process::id());
    let _ = std::fs::remove_file(&path);
    let mut b = FeoxStore::builder().hash_bits(6).no_memory_limit().enable_ttl(true);
    if persistent {
        b = b.device_path(path.clone()).file_size(512 * 4096).enable_caching(case % 2 == 0);
    }
    let store = match b.build() {
        Ok(s) => Arc::new(s),
        Err(e) => return ("swp".into(), "note".into(), format!("FAIL cannot-open-store {e}")),
    };
    let mut r = Runner { store: store.clone(), events: vec!["K1000".into()], results: vec![], next_tag: 1, next_fresh: 0, keys: vec![], fail: None, expect: Default::default() };
    // initial contents: expired-on-arrival, far-future and permanent keys
    let n0 = rng.range(1, 4);
    for _ in 0..n0 {
        match rng.below(4) {
            0 | 1 => r.put_past(),
            2 => {
                let k = r.next_fresh;
                r.next_fresh += 1;
                r.put(k, true)
            }
            _ => {
                let k = r.next_fresh;
                r.next_fresh += 1;
                r.put(k, false)
            }
        }
    }
    if persistent && rng.chance(1, 2) {
        let _ = store.flush();
    }
    let mut last = {
        let mut g = ctl.0.lock().unwrap();
        g.enabled = true;
        g.release = false;
        g.parked = None;
        g.seq
    };
    store.start_ttl_sweeper(Some(TtlConfig {
        sample_size: 64,
        expiry_threshold: 2.0, // one batch per run
        max_iterations: 1,
        max_time_per_run: Duration::from_millis(500),
        sleep_interval: Duration::from_millis(2),
        enabled: true,
    }));
    let batches = rng.range(1, 3);
    let mut seen_batches = 0;
    let mut pending: Option<u64> = None; // candidate whose guarded step comes at the next release
    let mut verdict = "ok".to_string();
    loop {
        let Some((name, key)) = wait_park(ctl, &mut last, Duration::from_secs(10)) else {
            verdict = "FAIL sweeper-never-reached-its-next-scheduling-point".into();
            break;
        };
        // the sweeper has moved on: the guarded step of the previous candidate has happened
        if let Some(k) = pending.take() {
            r.events.push(format!("X{k}"));
        }
        if name == "c11_sweep_sampled" {
            if seen_batches == batches {
                break;
            }
            seen_batches += 1;
            r.events.push("S".into());
            r.client_events(rng, None, 2);
        } else {
            let k = index_of(&key);
            pending = Some(k);
            r.client_events(rng, Some(k), 3);
        }
        if r.fail.is_some() {
            break;
        }
        release(ctl);
    }
    // the sweeper stays parked (after the sample of a batch that is not replayed) during the final reads
    if let Some(f) = r.fail.take() {
        verdict = format!("FAIL {f}");
    }
    // final reads and table
    let keys = r.keys.clone();
    for k in keys {
        r.get(k);
    }
    let now = Runner::now_ns();
    let class = |exp: u64| if exp == 0 { 0 } else if exp < now { PAST } else { FUTURE };
    let snap = store.verif_snapshot();
    let mut tbl: Vec<(u64, u64, u64)> = Vec::new();
    for rec in &snap {
        let v = match store.get(&rec.key) {
            Ok(v) => tag_of(&v),
            Err(_) => {
                // expired: read the tag through the raw record is not possible; take it from the event list
                r.events.iter().rev().find_map(|e| e.strip_prefix(&format!("P{},", index_of(&rec.key))).map(|x| x.rsplit(',').next().unwrap().parse().unwrap_or(0))).unwrap_or(0)
            }
        };
        tbl.push((index_of(&rec.key), v, class(rec.ttl_expiry)));
    }
    tbl.sort();
    let mut hashed: Vec<u64> = store.verif_hash_keys().iter().map(|k| index_of(k)).collect();
    hashed.sort();
    let ordered: Vec<u64> = tbl.iter().map(|t| t.0).collect();
    if verdict == "ok" && hashed != ordered {
        verdict = format!("FAIL ordered-and-hashed-index-disagree ordered={ordered:?} hashed={hashed:?}");
    }
    let line = format!(
        "{} final={} n={} removed={}",
        r.results.join(";"),
        tbl.iter().map(|(k, v, e)| format!("{k}:{v}:{e}")).collect::<Vec<_>>().join(";"),
        store.len(),
        store.stats().ttl_expired_active
    );
    disable(ctl);
    let case_text = format!("swp {}", r.events.join(" "));
    // the sweeper thread may hold the store for the rest of its batch: wait until it is gone, so
    // that it cannot reach a scheduling point during the next case
    let weak = Arc::downgrade(&store);
    drop(r);
    drop(store);
    let t0 = Instant::now();
    while weak.strong_count() > 0 && t0.elapsed() < Duration::from_secs(20) {
        std::thread::sleep(Duration::from_millis(1));
    }
    let verdict = if weak.strong_count() > 0 && verdict == "ok" { "FAIL store-still-referenced-20s-after-its-last-handle-was-dropped".to_string() } else { verdict };
    let _ = std::fs::remove_file(&path);
    (case_text, line, verdict)
}

pub fn child(opts: &Opts) -> i32 {
    let dir = opts.str("out", "/verif/.build/cases/sweepsched");
    let sh = opts.u64("shard", 0);
    let seed = opts.u64("seed", 1);
    let n = opts.u64("n", 20);
    std::fs::create_dir_all(format!("{dir}/dev")).unwrap();
    let ctl: Arc<(Mutex<Ctl>, Condvar)> = Arc::new((Mutex::new(Ctl::default()), Condvar::new()));
    *CTL.lock().unwrap() = Some(ctl.clone());
    let cb: feoxdb::verif::sched::KeyCallback = Arc::new(point);
    feoxdb::verif::sched::install_keyed(Some(cb));
    let mut out = Out::new(&dir, &format!("s{sh}"));
    let mut rng = Rng::new(seed.wrapping_mul(104_729).wrapping_add(sh * 7_919));
    for case in 0..n {
        let (case_text, line, verdict) = if case % 3 == 1 { lazy_case(&mut rng, case, &dir, &ctl) } else { one_case(&mut rng, case, &dir, &ctl) };
        out.emit3(&case_text, &line, &verdict);
    }
    let total = out.finish();
    println!("cases={total}");
    0
}

pub fn run(opts: &Opts) -> i32 {
    let dir = opts.str("out", "/verif/.build/cases/sweepsched");
    let seed = opts.u64("seed", 1);
    let shards = opts.u64("shards", 16);
    let n = opts.u64("n", if opts.thorough() { 400 } else { 25 });
    let mut handles = Vec::new();
    for sh in 0..shards {
        let dir = dir.clone();
        handles.push(std::thread::spawn(move || {
            run_child(&["sweepschedchild".into(), format!("out={dir}"), format!("shard={sh}"), format!("seed={seed}"), format!("n={n}")], 300 + n * 5)
        }));
    }
    let mut total = 0u64;
    let mut failed = 0;
    for h in handles {
        match h.join().unwrap() {
            Some(line) if line.starts_with("cases=") => total += line[6..].trim().parse::<u64>().unwrap_or(0),
            _ => failed += 1,
        }
    }
    if failed > 0 {
        let mut out = Out::new(&dir, "parent");
        out.emit3("note sweepsched children", "note", &format!("FAIL {failed}-child-processes-hung-or-died"));
        out.finish();
    }
    println!("cases={total}");
    0
}
