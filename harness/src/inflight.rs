//! C20 (part): io.rs InFlightBuffers vs Model.InFlight -- which buffers are freed and which are
//! kept alive for ever when a batch is dropped with submissions possibly still in flight.
use crate::util::{Opts, Out, Rng};

pub fn run(opts: &Opts) -> i32 {
    let dir = opts.str("out", "/verif/.build/cases/inflight");
    let seed = opts.u64("seed", 1);
    let n = opts.u64("n", if opts.thorough() { 200_000 } else { 20_000 });
    let mut out = Out::new(&dir, "s0");
    let mut rng = Rng::new(seed.wrapping_mul(1_000_003));
    for _ in 0..n {
        // the shape of batch_write_inner: push every buffer, then per entry mark + sq.push
        // (ok / fails -> unqueue and stop), then completions in any order, possibly missing
        // (submit error), possibly duplicated; the drop comes last
        let nb = rng.range(1, 12) as usize;
        let mut ops: Vec<(u8, usize)> = (0..nb).map(|_| (0u8, 0usize)).collect();
        let mut toks: Vec<String> = (0..nb).map(|_| "P".to_string()).collect();
        let mut queued = Vec::new();
        for i in 0..nb {
            ops.push((1, i));
            toks.push(format!("M{i}"));
            if rng.chance(1, 10) {
                ops.push((2, i));
                toks.push(format!("F{i}"));
                break;
            }
            toks.push(format!("K{i}"));
            queued.push(i);
        }
        // completions
        let mut order = queued.clone();
        for i in (1..order.len()).rev() {
            order.swap(i, rng.below(i as u64 + 1) as usize);
        }
        let keep = if rng.chance(1, 3) { rng.below(order.len() as u64 + 1) as usize } else { order.len() };
        for &i in order.iter().take(keep) {
            ops.push((3, i));
            toks.push(format!("C{i}"));
            if rng.chance(1, 12) {
                ops.push((3, i));
                toks.push(format!("C{i}"));
            }
        }
        let (completes, freed) = feoxdb::verif::pure::inflight_sim(&ops);
        let res = format!(
            "complete={} bufs={}",
            completes.iter().map(|b| if *b { '1' } else { '0' }).collect::<String>(),
            freed.iter().map(|f| if *f { 'F' } else { 'L' }).collect::<String>()
        );
        out.emit(&format!("inflight {}", toks.join(" ")), &res);
    }
    let total = out.finish();
    println!("inflight: {total} cases");
    0
}
