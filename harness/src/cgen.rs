//! C16 (T-eq for Model.CacheGen, layer A): the generation-tagged calls of the read cache --
//! get_for_record / insert_for_record / remove_for_record / record_entry and the
//! can_replace_generation rule -- on a real ClockCache and real Records (hook H13): random
//! sequences over 1-3 keys and up to 8 generations that are created, superseded (refcount 0),
//! dropped, looked up, filled, removed and re-tagged, mixed with the untagged public calls.  Every
//! result must equal Model.CacheGen.arun.
use crate::util::{Opts, Out, Rng};

pub fn run(opts: &Opts) -> i32 {
    let dir = opts.str("out", "/verif/.build/cases/cgen");
    let seed = opts.u64("seed", 1);
    let n = opts.u64("n", if opts.thorough() { 60_000 } else { 3000 });
    let mut out = Out::new(&dir, "s0");
    let mut rng = Rng::new(seed.wrapping_mul(69_621));
    for _ in 0..n {
        let nkeys = rng.range(1, 3);
        let len = rng.range(6, 40) as usize;
        let mut ops: Vec<(u8, u64, u64, u64)> = Vec::new();
        // per generation: (key, alive as an Arc in the harness)
        let mut gens: Vec<(u64, bool)> = Vec::new();
        let mut value = 100u64;
        for _ in 0..len {
            let usable: Vec<u64> = gens.iter().enumerate().filter(|(_, g)| g.1).map(|(i, _)| i as u64 + 1).collect();
            let roll = rng.below(100);
            if usable.is_empty() || (roll < 18 && gens.len() < 8) {
                let k = rng.range(1, nkeys);
                // timestamps collide and go backwards on purpose: re-creations with lower timestamps
                let ts = rng.range(1, 6);
                value += 1;
                ops.push((0, k, value, ts));
                gens.push((k, true));
                continue;
            }
            let g = usable[rng.below(usable.len() as u64) as usize];
            // mostly the generation's own key, sometimes another one
            let k = if rng.chance(5, 6) { gens[g as usize - 1].0 } else { rng.range(1, nkeys) };
            match roll {
                0..=29 => {
                    value += 1;
                    ops.push((4, k, value, g));
                }
                30..=47 => ops.push((3, k, g, 0)),
                48..=55 => ops.push((5, k, g, 0)),
                56..=63 => ops.push((1, g, 0, 0)),
                64..=71 => {
                    ops.push((2, g, 0, 0));
                    gens[g as usize - 1].1 = false;
                }
                72..=79 => ops.push((6, k, g, 0)),
                80..=84 => ops.push((7, k, g, 0)),
                85..=90 => ops.push((8, k, 0, 0)),
                91..=95 => {
                    value += 1;
                    ops.push((9, k, value, 0));
                }
                _ => ops.push((10, k, 0, 0)),
            }
        }
        let results = feoxdb::verif::pure::cache_gen_sim(&ops);
        let case = format!("cgen {}", ops.iter().map(|(c, a, b, d)| format!("{c},{a},{b},{d}")).collect::<Vec<_>>().join(" "));
        let res = results.iter().map(|r| r.map_or("-".to_string(), |v| v.to_string())).collect::<Vec<_>>().join(" ");
        out.emit(&case, &res);
    }
    let total = out.finish();
    println!("cases={total}");
    0
}
