//! C02 / C03 / C04 / C05 / C09: device-trace engines.
//!
//! `tracegen` (child): runs a workload on a fresh device with the H1/H2 observer installed and
//! writes the complete device trace (every write with its bytes, every fsync and its outcome)
//! interleaved with the application history (invocations, returns, acknowledgements), all
//! numbered by one counter.  Faults can be injected by sequence number.
//!
//! `crash` (parent): for a trace, enumerates crash points x subsets of un-synced writes x
//! sector-granular tearing, rebuilds each device image, reopens it with the real code (child)
//! and with the model, and evaluates the crash-safety oracle on the real result.
use crate::img::{fnv1a, probe_image, run_child};
use crate::util::{hex, Opts, Out, Rng};
use feoxdb::verif::dev::{Decision, Observer};
use feoxdb::{FeoxError, FeoxStore};
use std::collections::{BTreeMap, HashMap};
use std::io::Write;
use std::sync::atomic::{AtomicU64, Ordering};
use std::sync::{Arc, Mutex};

// ---------------------------------------------------------------------------------------------
// child: workload with trace
// ---------------------------------------------------------------------------------------------

pub struct Tracer {
    seq: AtomicU64,
    log: Mutex<Vec<String>>,
    data: Mutex<Vec<u8>>,
    /// fault plan: device-event index (0-based count of writes+fsyncs) -> decision, optionally persistent
    faults: Mutex<FaultPlan>,
    devcount: AtomicU64,
}

#[derive(Default)]
struct FaultPlan {
    at: HashMap<u64, Decision>,
    persistent_from: Option<u64>,
}

impl Tracer {
    pub fn new() -> Arc<Tracer> {
        Arc::new(Tracer {
            seq: AtomicU64::new(0),
            log: Mutex::new(Vec::new()),
            data: Mutex::new(Vec::new()),
            faults: Mutex::new(FaultPlan::default()),
            devcount: AtomicU64::new(0),
        })
    }
    /// write `<path>.trace` / `<path>.data`
    pub fn save(&self, path: &str, blocks: u64, ttl: bool) {
        let mut log = self.log.lock().unwrap().clone();
        log.sort_by_key(|l| l.split(' ').next().unwrap().parse::<u64>().unwrap_or(0));
        let mut f = std::fs::File::create(format!("{path}.trace")).unwrap();
        writeln!(f, "BLOCKS {blocks} TTL {}", ttl as u8).unwrap();
        for l in &log {
            writeln!(f, "{l}").unwrap();
        }
        std::fs::write(format!("{path}.data"), &*self.data.lock().unwrap()).unwrap();
    }
    fn next(&self) -> u64 {
        self.seq.fetch_add(1, Ordering::SeqCst)
    }
    fn note(&self, line: String) {
        self.log.lock().unwrap().push(line);
    }
    fn decide(&self) -> Decision {
        let n = self.devcount.fetch_add(1, Ordering::SeqCst);
        let plan = self.faults.lock().unwrap();
        if let Some(d) = plan.at.get(&n) {
            return *d;
        }
        if plan.persistent_from.map_or(false, |p| n >= p) {
            return Decision::FailBefore;
        }
        Decision::Proceed
    }
}

impl Observer for Tracer {
    fn write(&self, _fd: i32, offset: u64, data: &[u8], ring: bool) -> Decision {
        // the ring path reports Proceed only (faults need the forced pwrite path)
        let d = if ring { self.devcount.fetch_add(1, Ordering::SeqCst); Decision::Proceed } else { self.decide() };
        let seq = self.next();
        let mut store = self.data.lock().unwrap();
        let at = store.len();
        let applied = d != Decision::FailBefore;
        if applied {
            store.extend_from_slice(data);
        }
        drop(store);
        self.note(format!(
            "{seq} W off={offset} len={} at={at} applied={} fault={:?} ring={}",
            data.len(),
            applied as u8,
            d,
            ring as u8
        ));
        d
    }
    fn fsync(&self, _fd: i32) -> Decision {
        self.decide()
    }
    fn fsync_done(&self, _fd: i32, ok: bool) {
        let seq = self.next();
        self.note(format!("{seq} F ok={}", ok as u8));
    }
}

fn err_name(e: &FeoxError) -> String {
    match e {
        FeoxError::KeyNotFound => "notfound".into(),
        FeoxError::OlderTimestamp => "older".into(),
        FeoxError::OutOfSpace => "nospace".into(),
        FeoxError::IoError(_) => "io".into(),
        FeoxError::IndeterminateWrite(_) => "indeterminate".into(),
        other => format!("other:{other}").replace(' ', "_"),
    }
}

fn value_for(tag: u64, len: usize) -> Vec<u8> {
    let mut x = tag.wrapping_mul(0x9E3779B97F4A7C15) | 1;
    (0..len)
        .map(|_| {
            x ^= x << 13;
            x ^= x >> 7;
            x ^= x << 17;
            (x & 0xff) as u8
        })
        .collect()
}


/// H15 oracle (C19): under a shard's lock, the counter the coordinator looks at equals the number
/// of entries in the shard's queue.  The first violation seen is kept.
static BACKLOG_BROKEN: Mutex<Option<String>> = Mutex::new(None);

pub fn sample_backlog(store: &FeoxStore) {
    for (i, (queue, count)) in store.verif_shard_backlog().into_iter().enumerate() {
        if queue != count {
            let mut g = BACKLOG_BROKEN.lock().unwrap();
            if g.is_none() {
                *g = Some(format!("shard={i} queued={queue} counter={count}"));
            }
        }
    }
}

pub fn backlog_verdict(g: &Option<String>) -> Option<String> {
    let s = g.as_deref()?;
    let at = s.find("BACKLOG-BROKEN")?;
    Some(format!("FAIL shard-counter-differs-from-its-queue {}", s[at + 15..].replace(' ', "_")))
}

/// child: path= seed= blocks= ops= sync=0|1 ttl=0|1 faults=<idx:before|after,...> persist_from=<idx>
pub fn tracegen(opts: &Opts) -> i32 {
    let path = opts.str("path", "");
    let seed = opts.u64("seed", 1);
    let blocks = opts.u64("blocks", 64);
    let nops = opts.u64("ops", 40);
    let ttl = opts.u64("ttl", 0) == 1;
    let hostile = opts.u64("hostile", 0) == 1;
    let tracer = Arc::new(Tracer {
        seq: AtomicU64::new(0),
        log: Mutex::new(Vec::new()),
        data: Mutex::new(Vec::new()),
        faults: Mutex::new(FaultPlan::default()),
        devcount: AtomicU64::new(0),
    });
    {
        let mut plan = tracer.faults.lock().unwrap();
        let spec = opts.str("faults", "");
        for item in spec.split(',').filter(|s| !s.is_empty()) {
            if let Some((i, k)) = item.split_once(':') {
                let d = if k == "after" { Decision::FailAfter } else { Decision::FailBefore };
                plan.at.insert(i.parse().unwrap_or(u64::MAX), d);
            }
        }
        if let Some(p) = opts.get("persist_from") {
            plan.persistent_from = p.parse().ok();
        }
    }
    feoxdb::verif::dev::set_force_sync_path(opts.u64("sync", 0) == 1);
    feoxdb::verif::dev::install(Some(tracer.clone()));
    let _ = std::fs::remove_file(&path);
    let mut rng = Rng::new(seed);
    let open = |ttl: bool| {
        FeoxStore::builder()
            .device_path(path.clone())
            .file_size(blocks * 4096)
            .hash_bits(8)
            .enable_caching(false)
            .enable_ttl(ttl)
            .build()
    };
    let store = match open(ttl) {
        Ok(s) => s,
        Err(e) => {
            println!("tracegen-open-error {}", err_name(&e));
            return 3;
        }
    };
    let mut store = Some(store);
    // C19: a store that has been idle (nothing buffered, nothing to retire) for a while before its
    // first write must still bring that write to the device within the bound
    let idle = opts.u64("idle_ms", 0);
    if idle > 0 {
        std::thread::sleep(std::time::Duration::from_millis(idle));
    }
    let nkeys = match opts.u64("nkeys", 0) {
        0 => rng.range(2, 7),
        n => n,
    };
    let noflush = opts.u64("noflush", 0) == 1;
    let mut ecount = 0u64;
    let heal_at = opts.u64("heal_at", u64::MAX);
    let recipe = opts.str("recipe", "");
    if recipe == "f1" || recipe == "bulkdel" {
        // Directed workload for finding F1: many superseded generations and many expired newest
        // generations interleaved on the device, so that recovery's retirement list is longer than
        // one journal chunk (1024 coalesced extents).
        let st = store.as_ref().unwrap();
        let put = |k: &[u8], v: &[u8], ts: Option<u64>, ttl: u64, expired: bool| {
            let inv = tracer.next();
            let r = if ttl > 0 { st.insert_with_ttl_and_timestamp(k, v, ttl, ts) } else { st.insert_with_timestamp(k, v, ts) };
            let ret = tracer.next();
            // explicit timestamps are known; only automatic ones have to be read back
            let t = match ts {
                Some(t) => t,
                None => st.verif_snapshot().iter().find(|x| x.key == k).map_or(0, |x| x.timestamp),
            };
            tracer.note(format!(
                "{inv} OP put key={} vh={:016x} len={} ret={ret} res={} ts={t} expired={}",
                hex(k),
                fnv1a(v),
                v.len(),
                r.as_ref().map(|_| "ok".to_string()).unwrap_or_else(|e| err_name(e)),
                expired as u8
            ));
        };
        let flush = || {
            let inv = tracer.next();
            let r = st.flush();
            let ret = tracer.next();
            tracer.note(format!("{inv} FLUSH ret={ret} res={}", r.as_ref().map(|_| "ok".to_string()).unwrap_or_else(|e| err_name(e))));
        };
        let nfill = opts.u64("fillers", 1200);
        let nx = opts.u64("xkeys", 600);
        if recipe == "bulkdel" {
            // Directed workload: ONE flush retires more non-adjacent extents than one allocation-journal
            // transaction can name (1024), so the retirement runs as several transactions.  The
            // periodic flusher is held so that the deletes are not retired piecemeal.
            feoxdb::verif::dev::set_periodic_flush_paused(true);
            for i in 0..nfill {
                put(format!("bulk{i:05}").as_bytes(), &value_for(i, if i % 2 == 0 { 700 } else { 90 }), None, 0, false);
            }
            flush();
            // delete the records that sit in the even blocks: no two retired extents are adjacent
            let victims: Vec<Vec<u8>> = st.verif_snapshot().into_iter().filter(|r| r.sector != 0 && r.sector % 2 == 0).map(|r| r.key).collect();
            for k in victims {
                let inv = tracer.next();
                let r = st.delete(&k);
                let ret = tracer.next();
                tracer.note(format!("{inv} OP del key={} vh=0 len=0 ret={ret} res={} ts=0", hex(&k), r.as_ref().map(|_| "ok".to_string()).unwrap_or_else(|e| err_name(e))));
            }
            flush();
            feoxdb::verif::dev::set_periodic_flush_paused(false);
        } else {
        for i in 0..nfill {
            put(format!("fill{i:05}").as_bytes(), &value_for(i, 60), None, 0, false);
        }
        for i in 0..nx {
            // every third one is longer than a sector, so that a torn retirement marker over it leaves a
            // record head whose body is gone
            put(format!("xkey{i:05}").as_bytes(), &value_for(10_000 + i, if i % 3 == 0 { 700 } else { 80 }), Some(1000), 0, false);
            put(format!("guard{i:05}").as_bytes(), &value_for(20_000 + i, 40), None, 0, false);
        }
        flush();
        for i in (0..nfill).step_by(2) {
            let k = format!("fill{i:05}").into_bytes();
            let inv = tracer.next();
            let r = st.delete(&k);
            let ret = tracer.next();
            tracer.note(format!("{inv} OP del key={} vh=0 len=0 ret={ret} res={} ts=0", hex(&k), r.as_ref().map(|_| "ok".to_string()).unwrap_or_else(|e| err_name(e))));
        }
        flush();
        let seq = tracer.next();
        tracer.note(format!("{seq} PHASE rewrite"));
        // every X rewritten with a generation that is expired on arrival (expiry in 1970); best fit
        // puts the new generations into the one-block holes below the old ones
        // as fast as possible (keys and values prepared, notes written afterwards): the whole
        // rewrite must reach the write buffer between two ticks of the periodic flusher
        let prepared: Vec<(Vec<u8>, Vec<u8>)> = (0..nx).map(|i| (format!("xkey{i:05}").into_bytes(), value_for(30_000 + i, if i % 3 == 1 { 900 } else { 70 }))).collect();
        let mut done = Vec::with_capacity(prepared.len());
        for (k, v) in &prepared {
            let inv = tracer.next();
            let r = st.insert_with_ttl_and_timestamp(k, v, 1, Some(2000));
            let ret = tracer.next();
            done.push((inv, ret, r.is_ok()));
        }
        for ((k, v), (inv, ret, ok)) in prepared.iter().zip(done) {
            tracer.note(format!(
                "{inv} OP put key={} vh={:016x} len={} ret={ret} res={} ts=2000 expired=1",
                hex(k),
                fnv1a(v),
                v.len(),
                if ok { "ok" } else { "err" }
            ));
        }
        flush();
        }
    } else {
    for i in 0..nops {
        if i == heal_at {
            // the device works again from here on
            let mut plan = tracer.faults.lock().unwrap();
            plan.persistent_from = None;
            plan.at.clear();
            let seq = tracer.next();
            tracer.note(format!("{seq} HEAL"));
        }
        let st = store.as_ref().unwrap();
        sample_backlog(st);
        let mut k = format!("key{}", rng.below(nkeys)).into_bytes();
        // now and then a key as long as a persistent store accepts
        // (4066 bytes: the v3 header 4+2+key+24 then fills the head sector exactly) and one byte less
        if (k == b"key0" || k == b"key1") && rng.chance(1, 3) {
            let want = if k == b"key0" { 4066 } else { 4065 };
            k.resize(want, b'x');
        }
        let kind = rng.below(100);
        if ttl && rng.chance(1, 5) {
            // a key family written with small explicit timestamps: with a TTL the generation is
            // expired on arrival (expiry in 1970), without it never expires
            ecount += 1;
            let ek = format!("ek{}", rng.below(2)).into_bytes();
            let ts = 1000 * ecount;
            let expired = rng.chance(1, 2);
            // a third of them end within the last 200 bytes of a block (on-disk size = 30 + key + value),
            // where an extent length derived from any other size formula is off by one block
            let len = match rng.below(6) {
                0 => rng.range(4100, 4300),
                1 | 2 => (4096 * rng.range(1, 3) - 33 - rng.below(200)).max(1),
                _ => rng.range(1, 300),
            } as usize;
            let v = value_for(seed.wrapping_mul(77_777).wrapping_add(i), len);
            let inv = tracer.next();
            let r = if expired { st.insert_with_ttl_and_timestamp(&ek, &v, 1, Some(ts)) } else { st.insert_with_timestamp(&ek, &v, Some(ts)) };
            let ret = tracer.next();
            tracer.note(format!(
                "{inv} OP put key={} vh={:016x} len={len} ret={ret} res={} ts={ts} expired={}",
                hex(&ek),
                fnv1a(&v),
                r.as_ref().map(|_| "ok".to_string()).unwrap_or_else(|e| err_name(e)),
                expired as u8
            ));
        } else if kind < 55 {
            let len = match rng.below(10) {
                0 => rng.range(4000, 4200),
                1 => rng.range(8100, 9000),
                2 => 1,
                // on-disk size (30 + key + value) an exact number of blocks, or one byte either side
                9 => (4096 * (rng.range(1, 2) + (30 + k.len() as u64) / 4096) - 30 - k.len() as u64) + rng.below(3) - 1,
                3 | 4 => rng.range(600, 3900),
                _ => rng.range(1, 400),
            } as usize;
            let tag = seed.wrapping_mul(100_000).wrapping_add(i);
            let mut v = value_for(tag, len);
            if hostile && len > 4200 {
                plant_hostile(&mut v, &k, rng.next());
            }
            let inv = tracer.next();
            let r = st.insert(&k, &v);
            let ret = tracer.next();
            let ts = st.verif_snapshot().iter().find(|x| x.key == k).map_or(0, |x| x.timestamp);
            tracer.note(format!(
                "{inv} OP put key={} vh={:016x} len={len} ret={ret} res={} ts={ts}",
                hex(&k),
                fnv1a(&v),
                r.as_ref().map(|_| "ok".to_string()).unwrap_or_else(|e| err_name(e))
            ));
        } else if kind < 72 {
            let inv = tracer.next();
            let r = st.delete(&k);
            let ret = tracer.next();
            tracer.note(format!(
                "{inv} OP del key={} vh=0 len=0 ret={ret} res={} ts=0",
                hex(&k),
                r.as_ref().map(|_| "ok".to_string()).unwrap_or_else(|e| err_name(e))
            ));
        } else if kind < 90 && noflush {
            // C19 workloads never ask for a flush: durability must come from the write-behind alone
            std::thread::sleep(std::time::Duration::from_millis(rng.below(3)));
        } else if kind < 90 {
            let inv = tracer.next();
            let r = st.flush();
            let ret = tracer.next();
            tracer.note(format!("{inv} FLUSH ret={ret} res={}", r.as_ref().map(|_| "ok".to_string()).unwrap_or_else(|e| err_name(e))));
        } else if kind < 94 {
            // reads keep answering from memory whatever the device does (C09)
            let inv = tracer.next();
            let r = st.get(&k);
            let ret = tracer.next();
            tracer.note(format!(
                "{inv} GET key={} ret={ret} res={}",
                hex(&k),
                r.as_ref().map(|v| format!("{:016x}", fnv1a(v))).unwrap_or_else(|e| err_name(e))
            ));
        } else {
            std::thread::sleep(std::time::Duration::from_millis(rng.below(140)));
        }
    }
    }
    // C19: no flush and no close -- after `settle_ms` everything accepted before the wait must be
    // durable.  Recorded like an acknowledgement invoked before the wait and returned after it.
    let settle = opts.u64("settle_ms", 0);
    if settle > 0 {
        let inv = tracer.next();
        let noise = opts.u64("noise", 0) == 1;
        let deadline = std::time::Instant::now() + std::time::Duration::from_millis(settle);
        if noise {
            // busy neighbours: other keys keep being written during the wait
            let st = store.as_ref().unwrap();
            let mut j = 0u64;
            while std::time::Instant::now() < deadline {
                let k = format!("noise{}", j % 17).into_bytes();
                let v = value_for(seed.wrapping_mul(31).wrapping_add(j), 100 + (j % 5000) as usize);
                let oinv = tracer.next();
                let r = st.insert(&k, &v);
                let oret = tracer.next();
                let ts = st.verif_snapshot().iter().find(|x| x.key == k).map_or(0, |x| x.timestamp);
                tracer.note(format!(
                    "{oinv} OP put key={} vh={:016x} len={} ret={oret} res={} ts={ts}",
                    hex(&k),
                    fnv1a(&v),
                    v.len(),
                    r.as_ref().map(|_| "ok".to_string()).unwrap_or_else(|e| err_name(e))
                ));
                j += 1;
                sample_backlog(st);
                std::thread::sleep(std::time::Duration::from_millis(1 + j % 7));
            }
        } else {
            while std::time::Instant::now() < deadline {
                if let Some(st) = store.as_ref() {
                    sample_backlog(st);
                }
                std::thread::sleep(std::time::Duration::from_millis(20));
            }
        }
        if let Some(st) = store.as_ref() {
            sample_backlog(st);
        }
        let ret = tracer.next();
        tracer.note(format!("{inv} FLUSH ret={ret} res=ok settled-without-flush"));
    }
    // clean close = acknowledgement of everything accepted before it
    if opts.u64("close", 1) == 1 {
        let inv = tracer.next();
        // "dropped cleanly": Drop cannot return an error, but it reports a final flush it could not
        // complete (device full, device failing) on stderr; such a drop acknowledges nothing
        let errpath = format!("{path}.stderr");
        let saved = unsafe { libc::dup(2) };
        if let Ok(f) = std::fs::File::create(&errpath) {
            use std::os::unix::io::AsRawFd;
            unsafe { libc::dup2(f.as_raw_fd(), 2) };
        }
        store = None;
        if saved >= 0 {
            unsafe {
                libc::dup2(saved, 2);
                libc::close(saved);
            }
        }
        let msg = std::fs::read_to_string(&errpath).unwrap_or_default();
        let _ = std::fs::remove_file(&errpath);
        let clean = !msg.contains("final write-buffer flush");
        let ret = tracer.next();
        tracer.note(format!("{inv} CLOSE ret={ret} res={}", if clean { "ok" } else { "unclean" }));
    } else if let Some(s) = store.take() {
        std::mem::forget(s);
    }
    let _ = store;
    feoxdb::verif::dev::install(None);
    let mut log = tracer.log.lock().unwrap().clone();
    log.sort_by_key(|l| l.split(' ').next().unwrap().parse::<u64>().unwrap_or(0));
    let mut f = std::fs::File::create(format!("{path}.trace")).unwrap();
    writeln!(f, "BLOCKS {blocks} TTL {}", ttl as u8).unwrap();
    for l in &log {
        writeln!(f, "{l}").unwrap();
    }
    std::fs::write(format!("{path}.data"), &*tracer.data.lock().unwrap()).unwrap();
    match BACKLOG_BROKEN.lock().unwrap().as_ref() {
        Some(why) => println!("tracegen-done events={} BACKLOG-BROKEN {why}", log.len()),
        None => println!("tracegen-done events={}", log.len()),
    }
    let _ = std::io::stdout().flush();
    unsafe { libc::_exit(0) }
}

/// C03: values that contain byte-exact images of valid records and deletion markers.
fn plant_hostile(v: &mut [u8], victim_key: &[u8], r: u64) {
    // the second block of the extent starts at value offset (4096 - header); header = 6+klen+24 (v3)
    let hdr = 6 + victim_key.len() + 24;
    let off = 4096 - hdr;
    if v.len() < off + 128 {
        return;
    }
    let block = &mut v[off..];
    if r % 2 == 0 {
        // a complete-looking retirement marker for every plausible sector (token brute force is not
        // possible without the sector; use the real encoder for a band of sectors: pick one)
        let sector = 16 + (r >> 8) % 48;
        let mut m = vec![0u8; 4096];
        feoxdb::verif::pure::fill_retirement_markers(&mut m, sector, 1);
        block[..19].copy_from_slice(&m[..19]);
    } else {
        // a record head for another key with a far-future timestamp, stamped for a plausible sector
        let sector = 16 + (r >> 8) % 48;
        let mut rec = Vec::new();
        rec.extend_from_slice(&0xABCDu16.to_le_bytes());
        rec.extend_from_slice(&[0, 0]);
        let key = b"key0";
        rec.extend_from_slice(&(key.len() as u16).to_le_bytes());
        rec.extend_from_slice(key);
        rec.extend_from_slice(&8u64.to_le_bytes());
        rec.extend_from_slice(&(u64::MAX - 7).to_le_bytes());
        rec.extend_from_slice(&0u64.to_le_bytes());
        rec.extend_from_slice(b"INTRUDER");
        rec.resize(4096, 0);
        let tok = feoxdb::verif::pure::record_seq_token(sector, &rec);
        rec[2..4].copy_from_slice(&tok.to_le_bytes());
        let n = block.len().min(64);
        block[..n].copy_from_slice(&rec[..n]);
    }
}

// ---------------------------------------------------------------------------------------------
// parent: trace -> crash images -> reopen + oracle
// ---------------------------------------------------------------------------------------------

#[derive(Clone, Debug)]
pub enum Ev {
    W { seq: u64, off: u64, len: usize, at: usize, applied: bool },
    F { seq: u64, ok: bool },
    Op { inv: u64, ret: u64, del: bool, key: String, vh: String, ok: bool, ts: u64, res: String, expired: bool },
    Flush { inv: u64, ret: u64, ok: bool },
    Close { inv: u64, ret: u64 },
    Get { inv: u64, key: String, res: String },
    Heal { seq: u64 },
}

pub struct Trace {
    pub blocks: u64,
    pub ttl: bool,
    pub evs: Vec<Ev>,
    pub data: Vec<u8>,
    /// the device image the trace starts from (None = all zero)
    pub base: Option<Vec<u8>>,
    /// sequence numbers of device calls that were made to fail
    pub fault_seqs: Vec<u64>,
}

fn field<'a>(toks: &'a [&'a str], k: &str) -> &'a str {
    toks.iter().find_map(|t| t.strip_prefix(k)).unwrap_or("")
}

pub fn load_trace(path: &str) -> Option<Trace> {
    let text = std::fs::read_to_string(format!("{path}.trace")).ok()?;
    let data = std::fs::read(format!("{path}.data")).ok()?;
    let mut lines = text.lines();
    let head: Vec<&str> = lines.next()?.split(' ').collect();
    let blocks = head.get(1)?.parse().ok()?;
    let ttl = head.get(3).map_or(false, |v| *v == "1");
    let mut evs = Vec::new();
    for l in lines {
        let toks: Vec<&str> = l.split(' ').collect();
        let seq: u64 = toks[0].parse().ok()?;
        match toks[1] {
            "W" => evs.push(Ev::W {
                seq,
                off: field(&toks, "off=").parse().ok()?,
                len: field(&toks, "len=").parse().ok()?,
                at: field(&toks, "at=").parse().ok()?,
                applied: field(&toks, "applied=") == "1",
            }),
            "F" => evs.push(Ev::F { seq, ok: field(&toks, "ok=") == "1" }),
            "OP" => evs.push(Ev::Op {
                inv: seq,
                ret: field(&toks, "ret=").parse().ok()?,
                del: toks[2] == "del",
                key: field(&toks, "key=").to_string(),
                vh: field(&toks, "vh=").to_string(),
                ok: field(&toks, "res=") == "ok",
                ts: field(&toks, "ts=").parse().unwrap_or(0),
                res: field(&toks, "res=").to_string(),
                expired: field(&toks, "expired=") == "1",
            }),
            "FLUSH" => evs.push(Ev::Flush { inv: seq, ret: field(&toks, "ret=").parse().ok()?, ok: field(&toks, "res=") == "ok" }),
            "CLOSE" if field(&toks, "res=") == "ok" => evs.push(Ev::Close { inv: seq, ret: field(&toks, "ret=").parse().ok()? }),
            "CLOSE" => {}
            "GET" => evs.push(Ev::Get { inv: seq, key: field(&toks, "key=").to_string(), res: field(&toks, "res=").to_string() }),
            "HEAL" => evs.push(Ev::Heal { seq }),
            _ => {}
        }
    }
    let fault_seqs = text
        .lines()
        .filter(|l| l.contains("fault=Fail"))
        .filter_map(|l| l.split(' ').next().and_then(|x| x.parse().ok()))
        .collect();
    Some(Trace { blocks, ttl, evs, data, base: None, fault_seqs })
}

/// per key: the accepted states in order; state = (invoke seq, return seq, Some((ts, vh)) | None)
type States = BTreeMap<String, Vec<(u64, u64, Option<(u64, String)>)>>;

pub fn key_states(t: &Trace) -> States {
    let mut m: States = BTreeMap::new();
    for e in &t.evs {
        if let Ev::Op { inv, ret, del, key, vh, ok, ts, expired, .. } = e {
            if *ok {
                let vh = if *expired && t.ttl { format!("{vh}!expired") } else { vh.clone() };
                m.entry(key.clone()).or_default().push((*inv, *ret, if *del { None } else { Some((*ts, vh)) }));
            }
        }
    }
    m
}

/// acknowledgements: (invoke seq, return seq) of flush()==Ok and clean close
pub fn acks(t: &Trace) -> Vec<(u64, u64)> {
    // a clean close acknowledges only on a healthy device: Drop cannot report an error, so a close
    // after a device call failed acknowledges nothing, unless a later flush() == Ok has shown the
    // device healthy again
    let mut bad: Vec<u64> = t.fault_seqs.clone();
    for e in &t.evs {
        if let Ev::F { seq, ok: false } = e {
            bad.push(*seq);
        }
    }
    let last_bad_before = |seq: u64| bad.iter().filter(|b| **b < seq).max().copied();
    let unhealthy = |_inv: u64, ret: u64| match last_bad_before(ret) {
        None => false,
        Some(b) => !t.evs.iter().any(|e| matches!(e, Ev::Flush { inv, ret: r, ok: true } if *inv > b && *r < ret)),
    };
    t.evs
        .iter()
        .filter_map(|e| match e {
            Ev::Flush { inv, ret, ok: true } => Some((*inv, *ret)),
            Ev::Close { inv, ret } if !unhealthy(*inv, *ret) => Some((*inv, *ret)),
            _ => None,
        })
        .collect()
}

/// Is `found` (None = absent) an allowed state of `key` for a crash at trace position `cut`?
pub fn allowed(states: &States, acks: &[(u64, u64)], key: &str, cut: u64, found: &Option<(u64, String)>) -> Result<(), String> {
    let empty = Vec::new();
    let hist = states.get(key).unwrap_or(&empty);
    // index of the acknowledged state: last state whose op returned before the invocation of an
    // acknowledgement that itself returned before the cut
    let mut acked: Option<usize> = None;
    for (ainv, aret) in acks {
        if *aret <= cut {
            for (i, (_, ret, _)) in hist.iter().enumerate() {
                if ret < ainv {
                    acked = Some(acked.map_or(i, |a| a.max(i)));
                }
            }
        }
    }
    let lo = acked.map_or(0, |a| a + 1); // states[lo-1] is the acked one; index -1 = initially absent
    let mut ok = false;
    if acked.is_none() && found.is_none() {
        ok = true; // never acknowledged: absent (initial) is allowed
    }
    let start = acked.unwrap_or(0);
    for (i, (inv, _, st)) in hist.iter().enumerate() {
        if i < start || *inv > cut {
            continue;
        }
        if st == found {
            ok = true;
        }
        // a generation that had expired on arrival is dropped by a TTL-aware recovery: the key is absent
        if found.is_none() && st.as_ref().map_or(false, |(_, vh)| vh.ends_with("!expired")) {
            ok = true;
        }
    }
    let _ = lo;
    if ok {
        Ok(())
    } else {
        let known = hist.iter().any(|(_, _, st)| st == found);
        Err(if known {
            format!("older-than-acknowledged key={key} found={found:?}")
        } else if found.is_some() {
            format!("never-written-generation key={key} found={found:?}")
        } else {
            format!("acknowledged-key-missing key={key}")
        })
    }
}

/// the device image for: all writes with seq < durable_upto applied, plus the listed pending writes
/// (index into evs, with an optional set of 512-byte sectors that made it: None = all)
pub fn build_image(t: &Trace, durable_upto: u64, extra: &[(usize, Option<Vec<bool>>)]) -> Vec<u8> {
    let mut img = match &t.base {
        Some(b) => b.clone(),
        None => vec![0u8; (t.blocks * 4096) as usize],
    };
    let mut apply = |off: u64, at: usize, len: usize, mask: &Option<Vec<bool>>| {
        let src = &t.data[at..at + len];
        let off = off as usize;
        if off + len > img.len() {
            return;
        }
        match mask {
            None => img[off..off + len].copy_from_slice(src),
            Some(m) => {
                for (s, keep) in m.iter().enumerate() {
                    if *keep && (s + 1) * 512 <= len {
                        img[off + s * 512..off + (s + 1) * 512].copy_from_slice(&src[s * 512..(s + 1) * 512]);
                    }
                }
            }
        }
    };
    for e in &t.evs {
        if let Ev::W { seq, off, len, at, applied: true } = e {
            if *seq < durable_upto {
                apply(*off, *at, *len, &None);
            }
        }
    }
    for (idx, mask) in extra {
        if let Ev::W { off, len, at, applied: true, .. } = &t.evs[*idx] {
            apply(*off, *at, *len, mask);
        }
    }
    img
}

/// parse the probe line "ok v=.. n=.. ... keys=k:ts:exp:vlen:sector:vh;..." -> (n, map key -> (ts, vh))
pub fn parse_open(line: &str) -> Option<(u64, BTreeMap<String, (u64, String)>)> {
    if !line.starts_with("ok ") {
        return None;
    }
    let toks: Vec<&str> = line.split(' ').collect();
    let n: u64 = field(&toks, "n=").parse().ok()?;
    let keys = field(&toks, "keys=");
    let mut m = BTreeMap::new();
    if keys != "-" {
        for item in keys.split(';').filter(|s| !s.is_empty()) {
            let f: Vec<&str> = item.split(':').collect();
            if f.len() >= 6 {
                m.insert(f[0].to_string(), (f[1].parse().ok()?, f[5].to_string()));
            }
        }
    }
    Some((n, m))
}

/// The crash-safety oracle (C02 + C03) on the real reopen of one crash image.
pub fn crash_verdict(t: &Trace, states: &States, acks: &[(u64, u64)], cut: u64, line: &str) -> String {
    let Some((n, found)) = parse_open(line) else {
        if line.starts_with("fresh") {
            // nothing reached the device: allowed only if nothing was acknowledged
            for k in states.keys() {
                if let Err(e) = allowed(states, acks, k, cut, &None) {
                    return format!("FAIL {e} (device reopened as fresh)");
                }
            }
            return "ok".into();
        }
        return format!("FAIL crash-image-does-not-reopen: {}", line.split(' ').take(3).collect::<Vec<_>>().join("_"));
    };
    if line.contains("CLOCK-BEHIND") {
        return format!("FAIL after-recovery-a-clock-shard-is-below-a-timestamp-recovered-into-it {}", line.split("CLOCK-BEHIND").nth(1).unwrap_or("").split(" PART-BROKEN").next().unwrap_or("").trim());
    }
    if line.contains("PART-BROKEN") {
        return format!("FAIL after-recovery-a-data-block-is-neither-free-nor-owned-or-is-both {}", line.split("PART-BROKEN").nth(1).unwrap_or("").trim());
    }
    if line.contains("ACCT-BROKEN-DISK") {
        return format!("FAIL disk-usage-counter-after-recovery-differs-from-the-live-records-extents {}", line.split("ACCT-BROKEN-DISK").nth(1).unwrap_or("").split(" ACCT-BROKEN").next().unwrap_or("").trim().replace(' ', "_"));
    }
    if line.contains("ACCT-BROKEN") {
        return format!("FAIL memory-usage-after-recovery-differs-from-the-live-records {}", line.split("ACCT-BROKEN").nth(1).unwrap_or("").split(" keys=").next().unwrap_or(""));
    }
    if n as usize != found.len() {
        return format!("FAIL len-differs-from-exposed-keys len={n} keys={}", found.len());
    }
    for (k, (ts, vh)) in &found {
        if !states.contains_key(k) {
            return format!("FAIL key-never-written-surfaced key={k}");
        }
        if vh == "err" || vh == "PANIC" {
            return format!("FAIL exposed-key-unreadable key={k}");
        }
        if let Err(e) = allowed(states, acks, k, cut, &Some((*ts, vh.clone()))) {
            return format!("FAIL {e}");
        }
    }
    for k in states.keys() {
        if !found.contains_key(k) {
            if let Err(e) = allowed(states, acks, k, cut, &None) {
                return format!("FAIL {e}");
            }
        }
    }
    let _ = t;
    "ok".into()
}

/// Classifier for known finding F3: a retirement marker whose span [b, b+remaining) reaches over a
/// block that holds a record head (the retired extent was split between two allocations and only
/// the later part has been rewritten).
pub fn stale_marker_span(img: &[u8]) -> Option<(usize, u64, usize)> {
    let nb = img.len() / 4096;
    for b in 16..nb {
        let blk = &img[b * 4096..(b + 1) * 4096];
        if &blk[..8] == b"\0DELETED" {
            let rem = u64::from_le_bytes(blk[8..16].try_into().unwrap());
            if rem > 1 && (b as u64 + rem) as usize <= nb {
                for o in 1..rem as usize {
                    let t = &img[(b + o) * 4096..(b + o) * 4096 + 8];
                    if t[0] == 0xCD && t[1] == 0xAB {
                        return Some((b, rem, b + o));
                    }
                }
            }
        }
    }
    None
}

pub struct Plan {
    pub cut: u64,
    pub durable_upto: u64,
    pub extra: Vec<(usize, Option<Vec<bool>>)>,
    pub label: String,
}

/// crashes inside a window of in-flight data writes: everything in flight reached the device except
/// that the eight highest in-flight writes are torn (first sector lost, the rest written); for the
/// first, the fullest and the last fsync that has data writes in flight
pub fn torn_top_plans(t: &Trace) -> Vec<Plan> {
    let mut prev = 0u64;
    let mut windows: Vec<(u64, u64, Vec<usize>)> = Vec::new();
    for e in &t.evs {
        if let Ev::F { seq: s2, ok: true } = e {
            let pend: Vec<usize> = t
                .evs
                .iter()
                .enumerate()
                .filter_map(|(i, e)| match e {
                    Ev::W { seq, applied: true, .. } if *seq > prev && *seq < *s2 => Some(i),
                    _ => None,
                })
                .collect();
            if pend.iter().any(|i| matches!(&t.evs[*i], Ev::W { off, .. } if *off >= 16 * 4096)) {
                windows.push((prev, *s2, pend));
            }
            prev = *s2;
        }
    }
    let pick: Vec<usize> = match windows.len() {
        0 => vec![],
        1 => vec![0],
        2 => vec![0, 1],
        n => {
            // the window with the most writes in flight is always among them
            let big = (0..n).rev().max_by_key(|i| windows[*i].2.len()).unwrap(); // the first of the fullest
            let mut v = vec![0, big, n - 1];
            v.dedup();
            v
        }
    };
    pick.into_iter()
        .map(|wi| {
            let (prev, s2, pend) = &windows[wi];
            // the eight highest in-flight writes are torn
            let mut by_off: Vec<usize> = pend.clone();
            by_off.sort_by_key(|i| if let Ev::W { off, .. } = &t.evs[*i] { std::cmp::Reverse(*off) } else { std::cmp::Reverse(0) });
            let top: Vec<usize> = by_off.into_iter().take(8).collect();
            let extra = pend
                .iter()
                .map(|i| if top.contains(i) { (*i, Some(vec![false, true, true, true, true, true, true, true])) } else { (*i, None) })
                .collect();
            Plan { cut: *s2, durable_upto: *prev + 1, extra, label: format!("torn-top-before-fsync{s2}-inflight{}", pend.len()) }
        })
        .collect()
}

/// crash points x subsets x tearing for one trace
/// crash exactly when an acknowledgement returns: the device as it stands (every issued write
/// applied) and the durable part only
pub fn ack_plans(t: &Trace) -> Vec<Plan> {
    let mut out = Vec::new();
    for (_inv, ret) in acks(t) {
        let mut last_sync = 0u64;
        let mut pending: Vec<usize> = Vec::new();
        for (idx, e) in t.evs.iter().enumerate() {
            match e {
                Ev::W { seq, applied, .. } if *seq < ret => {
                    if *applied {
                        pending.push(idx);
                    }
                }
                Ev::F { seq, ok } if *seq < ret => {
                    if *ok {
                        last_sync = *seq;
                        pending.clear();
                    }
                }
                _ => {}
            }
        }
        out.push(Plan { cut: ret, durable_upto: last_sync, extra: pending.iter().map(|i| (*i, None)).collect(), label: format!("ack{ret}-as-it-stands") });
        out.push(Plan { cut: ret, durable_upto: last_sync, extra: vec![], label: format!("ack{ret}-durable-only") });
    }
    out
}

pub fn plans(t: &Trace, rng: &mut Rng, budget: usize) -> Vec<Plan> {
    // device events in order
    let dev: Vec<(usize, &Ev)> = t.evs.iter().enumerate().filter(|(_, e)| matches!(e, Ev::W { .. } | Ev::F { .. })).collect();
    let mut out = Vec::new();
    let mut last_sync_seq = 0u64; // writes with seq < this are durable
    let mut pending: Vec<usize> = Vec::new();
    let mut points: Vec<(u64, u64, Vec<usize>)> = Vec::new(); // (cut seq, durable_upto, pending idx)
    for (idx, e) in &dev {
        match e {
            Ev::W { seq, applied, .. } => {
                if *applied {
                    pending.push(*idx);
                }
                points.push((*seq + 1, last_sync_seq, pending.clone()));
            }
            Ev::F { seq, ok } => {
                if *ok {
                    last_sync_seq = *seq;
                    pending.clear();
                }
                points.push((*seq + 1, last_sync_seq, pending.clone()));
            }
            _ => {}
        }
    }
    // sample crash points evenly, always including the last ones
    let stride = (points.len() / budget.max(1)).max(1);
    for (pi, (cut, upto, pend)) in points.iter().enumerate() {
        if pi % stride != 0 && pi + 3 < points.len() {
            continue;
        }
        let k = pend.len();
        // nothing of the pending set / everything
        out.push(Plan { cut: *cut, durable_upto: *upto, extra: vec![], label: format!("cut{cut}-none") });
        if k == 0 {
            continue;
        }
        out.push(Plan { cut: *cut, durable_upto: *upto, extra: pend.iter().map(|i| (*i, None)).collect(), label: format!("cut{cut}-all") });
        if k <= 4 {
            for mask in 1..(1u32 << k) - 1 {
                let extra = pend.iter().enumerate().filter(|(j, _)| mask >> j & 1 == 1).map(|(_, i)| (*i, None)).collect();
                out.push(Plan { cut: *cut, durable_upto: *upto, extra, label: format!("cut{cut}-sub{mask}") });
            }
        } else {
            for _ in 0..4 {
                let extra: Vec<_> = pend.iter().filter(|_| rng.chance(1, 2)).map(|i| (*i, None)).collect();
                out.push(Plan { cut: *cut, durable_upto: *upto, extra, label: format!("cut{cut}-rand") });
            }
            // reordering: only the last pending write made it
            out.push(Plan { cut: *cut, durable_upto: *upto, extra: vec![(*pend.last().unwrap(), None)], label: format!("cut{cut}-lastonly") });
        }
        // the classic: every other pending write applied, one torn after its first 512-byte sector
        for victim in pend.iter().take(6) {
            if let Ev::W { len, .. } = &t.evs[*victim] {
                let sectors = len / 512;
                if sectors > 1 {
                    let mask: Vec<bool> = (0..sectors).map(|s| s == 0).collect();
                    let mut extra: Vec<(usize, Option<Vec<bool>>)> = pend.iter().filter(|i| *i != victim).map(|i| (*i, None)).collect();
                    extra.push((*victim, Some(mask)));
                    extra.sort_by_key(|(i, _)| *i);
                    out.push(Plan { cut: *cut, durable_upto: *upto, extra, label: format!("cut{cut}-torn1") });
                }
                // ... and its mirror for multi-block writes: the first block lost, the rest landed
                if sectors >= 16 {
                    let mask: Vec<bool> = (0..sectors).map(|s| s >= 8).collect();
                    let mut extra: Vec<(usize, Option<Vec<bool>>)> = pend.iter().filter(|i| *i != victim).map(|i| (*i, None)).collect();
                    extra.push((*victim, Some(mask)));
                    extra.sort_by_key(|(i, _)| *i);
                    out.push(Plan { cut: *cut, durable_upto: *upto, extra, label: format!("cut{cut}-headlost") });
                }
            }
        }
        // tearing of one pending write at sector granularity (others: random subset)
        for _ in 0..2 {
            let victim = pend[rng.below(k as u64) as usize];
            if let Ev::W { len, .. } = &t.evs[victim] {
                let sectors = len / 512;
                let mask: Vec<bool> = match rng.below(3) {
                    0 => {
                        let cutoff = rng.below(sectors as u64 + 1) as usize;
                        (0..sectors).map(|s| s < cutoff).collect()
                    }
                    1 => {
                        let cutoff = rng.below(sectors as u64 + 1) as usize;
                        (0..sectors).map(|s| s >= cutoff).collect()
                    }
                    _ => (0..sectors).map(|_| rng.chance(1, 2)).collect(),
                };
                let mut extra: Vec<(usize, Option<Vec<bool>>)> =
                    pend.iter().filter(|i| **i != victim && rng.chance(1, 2)).map(|i| (*i, None)).collect();
                extra.push((victim, Some(mask)));
                extra.sort_by_key(|(i, _)| *i);
                out.push(Plan { cut: *cut, durable_upto: *upto, extra, label: format!("cut{cut}-torn") });
            }
        }
    }
    out
}

/// engine `crash`: workloads -> traces -> crash images -> reopen (real + model) + oracle
pub fn run(opts: &Opts) -> i32 {
    let dir = opts.str("out", "/verif/.build/cases/crash");
    let seed = opts.u64("seed", 1);
    let shards = opts.u64("shards", 16);
    let per = opts.u64("n", if opts.thorough() { 12 } else { 1 });
    let budget = opts.u64("points", if opts.thorough() { 60 } else { 14 }) as usize;
    let hostile = opts.u64("hostile", 0);
    let bulkdel = opts.u64("bulkdel", 0) == 1;
    let ttl_opt = opts.get("ttl").and_then(|v| v.parse::<u64>().ok());
    let keep = format!("{dir}/images");
    std::fs::create_dir_all(&keep).unwrap();
    let mut handles = Vec::new();
    for sh in 0..shards {
        let dir = dir.clone();
        let keep = keep.clone();
        handles.push(std::thread::spawn(move || {
            let mut out = Out::new(&dir, &format!("s{sh}"));
            let mut rng = Rng::new(seed.wrapping_mul(2_654_435_761).wrapping_add(sh));
            let mut nontrivial = 0u64;
            if sh == 1 {
                let (case, res, verdict) = directed_fold_zero(&keep);
                out.emit3(&case, &res, &verdict);
                let (case, res, verdict) = directed_full_device_close(&keep);
                out.emit3(&case, &res, &verdict);
            }
            // bulkdel=1: shard 0 adds the directed workload whose single flush retires more
            // non-adjacent extents than one journal transaction names (recipe bulkdel)
            let extra_w = (bulkdel && sh == 0) as u64;
            for w in 0..per + extra_w {
                let base = format!("{keep}/t{sh}_{w}.feox");
                let sync = rng.below(2);
                let is_bulk = w >= per;
                let g = if is_bulk {
                    run_child(
                        &[
                            "tracegen".into(),
                            format!("path={base}"),
                            format!("seed={}", rng.next() % 1_000_000_007),
                            "blocks=4096".into(),
                            "recipe=bulkdel".into(),
                            "fillers=2300".into(),
                            format!("sync={sync}"),
                            "ttl=0".into(),
                            "close=0".into(),
                        ],
                        400,
                    )
                } else {
                    run_child(
                    &[
                        "tracegen".into(),
                        format!("path={base}"),
                        format!("seed={}", rng.next() % 1_000_000_007),
                        // tiny devices fill up to their last block (extents and journal entries ending exactly at the end)
                        format!("blocks={}", rng.pick(&[22u64, 26, 30, 40, 64, 96])),
                        format!("ops={}", rng.range(15, 60)),
                        format!("sync={sync}"),
                        format!("hostile={hostile}"),
                        format!("ttl={}", ttl_opt.unwrap_or_else(|| rng.below(2))),
                        format!("close={}", rng.below(2)),
                    ],
                    270,
                )
                };
                if g.as_deref().map_or(true, |s| !s.starts_with("tracegen-done")) {
                    out.emit3(&format!("note tracegen-failed {:?}", g), "note", "FAIL workload-child-failed-or-hung");
                    continue;
                }
                if let Some(v) = backlog_verdict(&g) {
                    out.emit3("note shard-counter", "note", &v);
                }
                let Some(t) = load_trace(&base) else {
                    out.emit3("note trace-unreadable", "note", "FAIL trace-unreadable");
                    continue;
                };
                let states = key_states(&t);
                let ack = acks(&t);
                // T-run: the real device history must be accepted by the Coq monitor
                let nev = t.evs.iter().filter(|e| matches!(e, Ev::W { applied: true, .. } | Ev::F { .. })).count();
                out.emit3(&format!("monitor {base}"), &format!("accepted events={nev}"), "ok");
                let mut all_plans = ack_plans(&t);
                all_plans.extend(torn_top_plans(&t));
                if !is_bulk {
                    // (the big directed workload keeps to the acknowledgement and in-transaction images)
                    all_plans.extend(plans(&t, &mut rng, budget));
                }
                for (pi, plan) in all_plans.into_iter().enumerate() {
                    let img = build_image(&t, plan.durable_upto, &plan.extra);
                    let ipath = format!("{keep}/t{sh}_{w}_{pi}.img");
                    std::fs::write(&ipath, &img).unwrap();
                    let (now, recsize, line) = probe_image(&ipath, &format!("{ipath}.probe"), t.ttl, false);
                    let mut verdict = crash_verdict(&t, &states, &ack, plan.cut, &line);
                    if verdict != "ok" {
                        if let Some((b, rem, head)) = stale_marker_span(&img) {
                            verdict.push_str(&format!(" class=stale-marker-span marker@{b} remaining={rem} covers-record-head@{head}"));
                        }
                    }
                    if !plan.extra.is_empty() {
                        nontrivial += 1;
                    }
                    out.emit3(
                        &format!("open {ipath} ro=0 allow=0 ttl={} now={now} recsize={recsize} plan={} trace={base}", t.ttl as u8, plan.label),
                        &line,
                        &verdict,
                    );
                }
            }
            (out.finish(), nontrivial)
        }));
    }
    let mut total = 0;
    let mut nt = 0;
    for h in handles {
        let (n, k) = h.join().unwrap();
        total += n;
        nt += k;
    }
    std::fs::write(format!("{dir}/stats.json"), format!("{{\"images_with_unsynced_writes_applied\": {nt}}}")).unwrap();
    println!("cases={total}");
    0
}

/// engine `lag` (C19): workloads that never flush and never close; after a settle time everything
/// accepted before it must be on the device.  Shard and worker counts follow the CPUs the child sees.
/// child, directed (C19 on a device that was full for a while): the device is filled, a write is
/// accepted that does not fit (the periodic passes are refused for space and requeue it), then a
/// durable key is deleted -- no flush anywhere after the set-up.  Once the space is back, the write
/// must reach the device within the bound, by the coordinator's own ticks.
pub fn lagfull(opts: &Opts) -> i32 {
    let path = opts.str("path", "/verif/.build/cases/lagfull.feox");
    let _ = std::fs::remove_file(&path);
    let store = match FeoxStore::builder().device_path(path.clone()).file_size(24 * 4096).hash_bits(6).enable_caching(false).no_memory_limit().build() {
        Ok(s) => s,
        Err(e) => {
            println!("lagfull FAIL cannot-create-store {e}");
            return 0;
        }
    };
    let value = |i: u64| value_for(i, 3000);
    let mut fillers = Vec::new();
    for i in 0..8u64 {
        let k = format!("filler{i}").into_bytes();
        if store.insert(&k, &value(i)).is_ok() && store.flush().is_ok() {
            fillers.push(k);
        }
    }
    // the device (8 data blocks) is full now
    let victim = b"victim".to_vec();
    if let Err(e) = store.insert(&victim, &value(99)) {
        println!("lagfull FAIL victim-refused {e}");
        return 0;
    }
    std::thread::sleep(std::time::Duration::from_millis(1500));
    let published = |store: &FeoxStore, key: &[u8]| store.verif_snapshot().iter().any(|r| r.key == key && r.sector != 0);
    if published(&store, &victim) {
        println!("lagfull ok device-was-not-full");
        std::mem::forget(store);
        return 0;
    }
    let t0 = std::time::Instant::now();
    if let Err(e) = store.delete(&fillers[0]) {
        println!("lagfull FAIL delete-refused {e}");
        return 0;
    }
    let mut verdict = format!("FAIL write-accepted-while-the-device-was-full-is-still-not-on-the-device-{}ms-after-space-was-freed", 4000);
    while t0.elapsed() < std::time::Duration::from_millis(4000) {
        sample_backlog(&store);
        if published(&store, &victim) {
            verdict = format!("ok durable-after-ms={}", t0.elapsed().as_millis());
            break;
        }
        std::thread::sleep(std::time::Duration::from_millis(50));
    }
    if let Some(why) = BACKLOG_BROKEN.lock().unwrap().as_ref() {
        verdict = format!("FAIL shard-counter-differs-from-its-queue {} ({})", why.replace(' ', "_"), verdict.replace(' ', "_"));
    }
    println!("lagfull {verdict}");
    use std::io::Write;
    let _ = std::io::stdout().flush();
    std::mem::forget(store);
    let _ = std::fs::remove_file(&path);
    unsafe { libc::_exit(0) }
}

/// child, directed (C19 after a burst): several threads insert tens of thousands of small records
/// as fast as they can, with no flush, on a store that has two write-buffer shards (the child is
/// pinned to four CPUs), so that a shard holds thousands of entries when its worker drains it.
/// Everything accepted must be on the device within the bound after the burst ends.
pub fn lagburst(opts: &Opts) -> i32 {
    let path = opts.str("path", "/verif/.build/cases/lagburst.feox");
    let total = opts.u64("records", 24_000);
    let _ = std::fs::remove_file(&path);
    let store = match FeoxStore::builder().device_path(path.clone()).file_size((total + 4096) * 4096).enable_caching(false).no_memory_limit().build() {
        Ok(s) => std::sync::Arc::new(s),
        Err(e) => {
            println!("lagburst FAIL cannot-create-store {e}");
            return 0;
        }
    };
    let threads = 4u64;
    let handles: Vec<_> = (0..threads)
        .map(|t| {
            let store = store.clone();
            std::thread::spawn(move || {
                let mut accepted = 0u64;
                for i in 0..total / threads {
                    if store.insert(format!("burst-{t}-{i:06}").as_bytes(), &value_for(t * 1_000_000 + i, 48)).is_ok() {
                        accepted += 1;
                    }
                }
                accepted
            })
        })
        .collect();
    let accepted: u64 = handles.into_iter().map(|h| h.join().unwrap_or(0)).sum();
    let t0 = std::time::Instant::now();
    let bound = std::time::Duration::from_millis(opts.u64("bound_ms", 15_000));
    let mut missing = u64::MAX;
    let mut verdict = String::new();
    while t0.elapsed() < bound {
        sample_backlog(&store);
        missing = store.verif_snapshot().iter().filter(|r| r.sector == 0).count() as u64;
        if missing == 0 {
            verdict = format!("ok accepted={accepted} durable-after-ms={}", t0.elapsed().as_millis());
            break;
        }
        std::thread::sleep(std::time::Duration::from_millis(250));
    }
    if verdict.is_empty() {
        verdict = format!("FAIL accepted-writes-still-not-on-the-device-{}ms-after-the-burst-ended accepted={accepted} not-written={missing}", bound.as_millis());
    }
    if let Some(why) = BACKLOG_BROKEN.lock().unwrap().as_ref() {
        verdict = format!("FAIL shard-counter-differs-from-its-queue {} ({})", why.replace(' ', "_"), verdict.replace(' ', "_"));
    }
    println!("lagburst {verdict}");
    use std::io::Write;
    let _ = std::io::stdout().flush();
    let _ = std::fs::remove_file(&path);
    unsafe { libc::_exit(0) }
}

pub fn run_lag(opts: &Opts) -> i32 {
    let dir = opts.str("out", "/verif/.build/cases/lag");
    let seed = opts.u64("seed", 1);
    let shards = opts.u64("shards", 16);
    let per = opts.u64("n", if opts.thorough() { 20 } else { 1 });
    let keep = format!("{dir}/images");
    std::fs::create_dir_all(&keep).unwrap();
    {
        let mut out = Out::new(&dir, "full");
        for k in 0..2 {
            let line = run_child(&["lagfullchild".into(), format!("path={keep}/lagfull_{k}.feox")], 120).unwrap_or_else(|| "SPAWN-FAILED".into());
            let verdict = match line.strip_prefix("lagfull ") {
                Some(v) if v.starts_with("ok") => "ok".to_string(),
                Some(v) => v.to_string(),
                None => format!("FAIL full-device-child-died-or-hung {}", line.chars().take(80).collect::<String>()),
            };
            out.emit3(&format!("note lag full-device-then-freed run={k} {}", line.replace(' ', "_")), "note", &verdict);
        }
        {
            // the burst case: pinned to four CPUs (two write-buffer shards)
            let o = std::process::Command::new("timeout")
                .args(["150", "taskset", "-c", "0-3"])
                .arg(crate::img::self_exe())
                .args(["lagburstchild", &format!("path={keep}/lagburst.feox")])
                .stderr(std::process::Stdio::null())
                .output();
            let line = o.map(|o| String::from_utf8_lossy(&o.stdout).trim().to_string()).unwrap_or_else(|_| "SPAWN-FAILED".into());
            let verdict = match line.strip_prefix("lagburst ") {
                Some(v) if v.starts_with("ok") => "ok".to_string(),
                Some(v) => v.to_string(),
                None => format!("FAIL burst-child-died-or-hung {}", line.chars().take(80).collect::<String>()),
            };
            out.emit3(&format!("note lag burst-then-silence {}", line.replace(' ', "_")), "note", &verdict);
            let _ = std::fs::remove_file(format!("{keep}/lagburst.feox"));
        }
        out.finish();
    }
    let mut handles = Vec::new();
    for sh in 0..shards {
        let dir = dir.clone();
        let keep = keep.clone();
        handles.push(std::thread::spawn(move || {
            let mut out = Out::new(&dir, &format!("s{sh}"));
            let mut rng = Rng::new(seed.wrapping_mul(69_069).wrapping_add(sh));
            let mut dist = BTreeMap::<String, u64>::new();
            for w in 0..per {
                let base = format!("{keep}/l{sh}_{w}.feox");
                // CPUs visible to the child decide how many write-buffer shards and workers it builds
                let cpus = *rng.pick(&[1u64, 2, 3, 4, 6, 8, 12, 16]);
                let first = rng.below(17 - cpus);
                let settle = *rng.pick(&[3000u64, 3500]);
                let noise = rng.below(2);
                let idle = if sh % 4 == 0 && w == 0 { 7000 } else { 0 };
                let noise = if idle > 0 { 0 } else { noise };
                let burst = idle == 0 && rng.chance(1, 2);
                let args = vec![
                    "-c".to_string(),
                    format!("{}-{}", first, first + cpus - 1),
                    crate::img::self_exe().to_string_lossy().to_string(),
                    "tracegen".into(),
                    format!("path={base}"),
                    format!("seed={}", rng.next() % 1_000_000_007),
                    format!("blocks={}", if burst { 4096 } else { *rng.pick(&[256u64, 512]) }),
                    format!("ops={}", if burst { rng.range(600, 1500) } else { rng.range(20, 120) }),
                    format!("nkeys={}", if burst { 400 } else { rng.range(8, 64) }),
                    format!("sync={}", rng.below(2)),
                    "noflush=1".into(),
                    format!("settle_ms={settle}"),
                    format!("idle_ms={idle}"),
                    // a quarter of the workloads see one device call fail once, early on: the pass that hits
                    // it is requeued and the coordinator must come back to the shard by itself
                    format!("faults={}", if sh % 4 == 1 { format!("{}:before", rng.range(6, 30)) } else { String::new() }),
                    format!("noise={noise}"),
                    "ttl=0".into(),
                    "close=0".into(),
                ];
                let start = std::time::Instant::now();
                let g = std::process::Command::new("taskset")
                    .args(&args)
                    .stdout(std::process::Stdio::piped())
                    .stderr(std::process::Stdio::null())
                    .spawn()
                    .ok()
                    .and_then(|mut c| loop {
                        match c.try_wait() {
                            Ok(Some(_)) => break c.wait_with_output().ok().map(|o| String::from_utf8_lossy(&o.stdout).trim().to_string()),
                            Ok(None) if start.elapsed().as_secs() > 400 => {
                                let _ = c.kill();
                                let _ = c.wait();
                                break Some("TIMEOUT".to_string());
                            }
                            Ok(None) => std::thread::sleep(std::time::Duration::from_millis(5)),
                            Err(_) => break None,
                        }
                    });
                if g.as_deref().map_or(false, |s| s.starts_with("tracegen-open-error")) {
                    // the injected failure hit the creation of the device: reported as an error, nothing to wait for
                    out.emit3("note lag open-reported-error", "note", "ok");
                    continue;
                }
                if g.as_deref().map_or(true, |s| !s.starts_with("tracegen-done")) {
                    out.emit3(&format!("note tracegen-failed {:?}", g), "note", "FAIL workload-child-failed-or-hung");
                    continue;
                }
                if let Some(v) = backlog_verdict(&g) {
                    out.emit3("note shard-counter", "note", &v);
                }
                let Some(t) = load_trace(&base) else {
                    out.emit3("note trace-unreadable", "note", "FAIL trace-unreadable");
                    continue;
                };
                let states = key_states(&t);
                let ack = acks(&t);
                *dist.entry(format!("cpus={cpus} noise={noise} burst={} idle={idle}", burst as u8)).or_default() += 1;
                for (pi, plan) in ack_plans(&t).into_iter().enumerate() {
                    let img = build_image(&t, plan.durable_upto, &plan.extra);
                    let ipath = format!("{keep}/l{sh}_{w}_{pi}.img");
                    std::fs::write(&ipath, &img).unwrap();
                    let (now, recsize, line) = probe_image(&ipath, &format!("{ipath}.probe"), false, false);
                    let mut verdict = crash_verdict(&t, &states, &ack, plan.cut, &line);
                    if verdict != "ok" {
                        verdict.push_str(&format!(" class=not-durable-{settle}ms-after-the-call-without-flush cpus={cpus}"));
                    } else if noise == 0 && plan.label.ends_with("durable-only") {
                        // retirement is write-behind too: with nothing in flight every superseded or
                        // deleted generation must already be marked dead on the device
                        if let Some((n, _)) = parse_open(&line) {
                            let heads = crate::mutimg::live_heads(&img) as u64;
                            if heads > n {
                                verdict = format!("FAIL superseded-generations-not-retired-{settle}ms-after-the-call live-keys={n} record-heads-on-device={heads} cpus={cpus}");
                            }
                        }
                    }
                    out.emit3(
                        &format!("open {ipath} ro=0 allow=0 ttl=0 now={now} recsize={recsize} plan={} cpus={cpus} settle={settle} noise={noise} trace={base}", plan.label),
                        &line,
                        &verdict,
                    );
                }
            }
            (out.finish(), dist)
        }));
    }
    let mut total = 0;
    let mut all = BTreeMap::<String, u64>::new();
    for h in handles {
        let (n, d) = h.join().unwrap();
        total += n;
        for (k, v) in d {
            *all.entry(k).or_default() += v;
        }
    }
    let dist = all.iter().map(|(k, v)| format!("\"{k}\": {v}")).collect::<Vec<_>>().join(", ");
    std::fs::write(format!("{dir}/stats.json"), format!("{{{dist}}}")).unwrap();
    println!("cases={total}");
    0
}

/// engine `f1` (C04/C11): directed replay of finding F1 -- recovery's retirement list is longer than
/// one journal chunk; the recovery is cut after every one of its own fsyncs and restarted.
pub fn run_f1(opts: &Opts) -> i32 {
    let dir = opts.str("out", "/verif/.build/cases/f1");
    let seed = opts.u64("seed", 1);
    let keep = format!("{dir}/images");
    std::fs::create_dir_all(&keep).unwrap();
    let mut outs: Vec<Out> = (0..8).map(|i| Out::new(&dir, &format!("s{i}"))).collect();
    let mut turn = 0usize;
    macro_rules! out {
        () => {{
            turn += 1;
            &mut outs[turn % 8]
        }};
    }
    let base = format!("{keep}/f1.feox");
    let blocks = opts.u64("blocks", 4096);
    // The periodic flusher may cut the rewrite phase into several flushes; the replay needs one
    // flush with more than 1024 superseded generations pending, so the workload is regenerated
    // (new seed) until the trace has such an instant.
    let pending_peak = |t: &Trace, phase: u64| -> i64 {
        let (mut d, mut mk, mut best) = (0i64, 0i64, 0i64);
        for e in &t.evs {
            match e {
                Ev::W { seq, off, at, len, applied: true } if *seq > phase && *off >= 16 * 4096 => {
                    if *len >= 8 && &t.data[*at..*at + 8] == b"\0DELETED" {
                        mk += (*len as i64) / 4096;
                    } else {
                        d += (*len as i64) / 4096;
                    }
                }
                Ev::F { seq, ok: true } if *seq > phase => best = best.max(d - mk),
                _ => {}
            }
        }
        best
    };
    let mut attempt = 0;
    let (t, phase) = loop {
        let args = vec![
            "-c".to_string(),
            // many shards: each stays below its own "buffer full" trigger (512 entries), and the one
            // explicit flush then retires every superseded generation in a single call
            opts.str("cpus", "0,1"),
            crate::img::self_exe().to_string_lossy().to_string(),
            "tracegen".into(),
            format!("path={base}"),
            format!("seed={}", seed + 1000 * attempt),
            format!("blocks={blocks}"),
            "ttl=1".into(),
            format!("sync={}", (seed + attempt) % 2),
            "recipe=f1".into(),
            format!("fillers={}", opts.u64("fillers", 1200)),
            format!("xkeys={}", opts.u64("xkeys", 600)),
            "close=0".into(),
        ];
        let g = std::process::Command::new("taskset").args(&args).output().ok().map(|o| String::from_utf8_lossy(&o.stdout).trim().to_string());
        if g.as_deref().map_or(true, |s| !s.starts_with("tracegen-done")) {
            out!().emit3(&format!("note tracegen-failed {:?}", g), "note", "FAIL workload-child-failed-or-hung");
            for o in outs {
                o.finish();
            }
            return 0;
        }
        let Some(t) = load_trace(&base) else {
            out!().emit3("note trace-unreadable", "note", "FAIL trace-unreadable");
            for o in outs {
                o.finish();
            }
            return 0;
        };
        let phase: u64 = std::fs::read_to_string(format!("{base}.trace"))
            .ok()
            .and_then(|x| x.lines().find(|l| l.contains(" PHASE rewrite")).and_then(|l| l.split(' ').next().and_then(|v| v.parse().ok())))
            .unwrap_or(0);
        attempt += 1;
        if pending_peak(&t, phase) > 200 || attempt >= 6 {
            break (t, phase);
        }
    };
    let states = key_states(&t);
    let ack = acks(&t);
    let syncs: Vec<u64> = t.evs.iter().filter_map(|e| if let Ev::F { seq, ok: true } = e { Some(*seq) } else { None }).filter(|s| *s > phase).collect();
    let want = opts.u64("cuts", 6) as usize;
    let mut cuts: Vec<u64> = (0..want.min(syncs.len())).map(|i| syncs[i * syncs.len() / want.min(syncs.len()).max(1)]).collect();
    if let Some(l) = syncs.last() {
        cuts.push(*l);
    }
    // the instants that matter most: every new generation is durable, the run-time retirement of
    // the superseded ones (one retire_extents call for the whole flush) has not started or is
    // between two of its journal chunks
    let first_marker = t.evs.iter().find_map(|e| match e {
        Ev::W { seq, at, len, applied: true, .. } if *seq > phase && *len >= 8 && &t.data[*at..*at + 8] == b"\0DELETED" => Some(*seq),
        _ => None,
    });
    if let Some(m) = first_marker {
        let before: Vec<u64> = syncs.iter().copied().filter(|s| *s < m).collect();
        if opts.u64("narrow", 0) == 1 {
            // quick tier: only the instant with the longest pending retirement = the fsync after
            // which the most rewritten generations are durable and the fewest markers
            cuts.clear();
            let (mut d, mut mk, mut best, mut best_seq) = (0i64, 0i64, -1i64, None);
            let mut journal_active = false;
            for e in &t.evs {
                match e {
                    Ev::W { off, at, len, applied: true, .. } if *off >= 4096 && *off < 7 * 4096 => {
                        // a journal slot write: ACTIVE lists extents, CLEAR lists none
                        // journal writes alternate ACTIVE / CLEAR (monitor rule R1'): toggle
                        let _ = (at, len);
                        journal_active = !journal_active;
                    }
                    Ev::W { seq, off, at, len, applied: true } if *seq > phase && *off >= 16 * 4096 => {
                        if *len >= 8 && &t.data[*at..*at + 8] == b"\0DELETED" {
                            mk += (*len as i64) / 4096;
                        } else {
                            d += (*len as i64) / 4096;
                        }
                    }
                    Ev::F { seq, ok: true } if *seq > phase => {
                        // the LAST fsync at the peak: the batch's journal is clear again, the
                        // retirement has not started
                        if d - mk >= best && !journal_active {
                            best = d - mk;
                            best_seq = Some(*seq);
                        }
                    }
                    _ => {}
                }
            }
            cuts.extend(best_seq);
            let _ = &before;
        } else {
            cuts.extend(before.iter().rev().take(2));
            cuts.extend(syncs.iter().copied().filter(|s| *s > m).take(4));
        }
    }
    cuts.sort();
    cuts.dedup();
    let mut longest = 0usize;
    for (pi, s1) in cuts.iter().enumerate() {
        let img1 = build_image(&t, *s1, &[]);
        let p1 = format!("{keep}/f1_{pi}.img");
        std::fs::write(&p1, &img1).unwrap();
        let work = format!("{p1}.rec");
        std::fs::copy(&p1, &work).unwrap();
        let r1 = run_child(&["probe".into(), format!("path={work}"), "ttl=1".into(), "allow=0".into(), "noworkload=1".into(), format!("rectrace={work}")], 360).unwrap_or_default();
        let line1 = r1.splitn(3, ' ').nth(2).unwrap_or("").to_string();
        let v1 = crash_verdict(&t, &states, &ack, *s1 + 1, &line1);
        let (now1, rs1, _) = (0u64, 0u64, 0u64);
        let _ = (now1, rs1);
        let Some(c1) = contents_of(&line1) else {
            out!().emit3(&format!("note f1 first-level cut={s1}"), "note", &format!("FAIL first-level-image-does-not-reopen {}", line1.chars().take(60).collect::<String>()));
            continue;
        };
        out!().emit3(&format!("note f1 first-level cut={s1}"), "note", &v1);
        let Some(mut rt) = load_trace(&work) else { continue };
        rt.base = Some(img1.clone());
        let rsyncs: Vec<u64> = rt.evs.iter().filter_map(|e| if let Ev::F { seq, ok: true } = e { Some(*seq) } else { None }).collect();
        let markers = rt.evs.iter().filter(|e| matches!(e, Ev::W { .. })).count();
        longest = longest.max(markers);
        // T-run on recovery's own device history: the journal discipline, starting from the journal
        // and metadata state of the image recovery opened (a marker written outside the extents of
        // the durable ACTIVE journal is rejected)
        let nev = rt.evs.iter().filter(|e| matches!(e, Ev::W { applied: true, .. } | Ev::F { .. })).count();
        out!().emit3(&format!("monitor {work} {p1}"), &format!("accepted events={nev}"), "ok");
        // crashes INSIDE a transaction of the long retirement: everything in flight reached the
        // device except that the highest in-flight data write is torn (its first sector lost, the
        // rest written); for the first, a middle and the last fsync that has data writes in flight
        {
            let mut prev = 0u64;
            let mut windows: Vec<(u64, Vec<usize>)> = Vec::new();
            for s2 in &rsyncs {
                let pend: Vec<usize> = rt
                    .evs
                    .iter()
                    .enumerate()
                    .filter_map(|(i, e)| match e {
                        Ev::W { seq, off, applied: true, .. } if *seq > prev && *seq < *s2 && *off >= 16 * 4096 => Some(i),
                        _ => None,
                    })
                    .collect();
                if !pend.is_empty() {
                    windows.push((prev, pend));
                }
                prev = *s2;
            }
            let pick: Vec<usize> = match windows.len() {
                0 => vec![],
                1 => vec![0],
                2 => vec![0, 1],
                n => vec![0, n / 2, n - 1],
            };
            for (ti, wi) in pick.into_iter().enumerate() {
                let (prev, pend) = &windows[wi];
                let mut by_off: Vec<usize> = pend.clone();
                by_off.sort_by_key(|i| if let Ev::W { off, .. } = &rt.evs[*i] { std::cmp::Reverse(*off) } else { std::cmp::Reverse(0) });
                let top: Vec<usize> = by_off.into_iter().take(8).collect();
                let extra: Vec<(usize, Option<Vec<bool>>)> = pend
                    .iter()
                    .map(|i| if top.contains(i) { (*i, Some(vec![false, true, true, true, true, true, true, true])) } else { (*i, None) })
                    .collect();
                // everything before the window's opening fsync is durable (seq <= prev)
                let img2 = build_image(&rt, *prev + 1, &extra);
                let p2 = format!("{keep}/f1_{pi}_t{ti}.img");
                std::fs::write(&p2, &img2).unwrap();
                let (now, recsize, line2) = probe_image(&p2, &format!("{p2}.probe"), true, false);
                let verdict = match contents_of(&line2) {
                    None => format!("FAIL crash-inside-recovery-does-not-reopen: {} in-flight={} torn=highest-first-sector-lost", line2.split(' ').take(2).collect::<Vec<_>>().join("_"), pend.len()),
                    Some(c2) if c2 == c1 => "ok".to_string(),
                    Some(_) => format!("FAIL contents-after-restarted-recovery-differ-from-first-recovery in-flight={} torn=highest-first-sector-lost", pend.len()),
                };
                out!().emit3(&format!("open {p2} ro=0 allow=0 ttl=1 now={now} recsize={recsize} level=2 plan=fsync{s1} inner=torn{ti}"), &line2, &verdict);
            }
        }
        for (qi, s2) in rsyncs.iter().enumerate() {
            let img2 = build_image(&rt, *s2, &[]);
            let p2 = format!("{keep}/f1_{pi}_{qi}.img");
            std::fs::write(&p2, &img2).unwrap();
            let (now, recsize, line2) = probe_image(&p2, &format!("{p2}.probe"), true, false);
            let verdict = match contents_of(&line2) {
                None => format!("FAIL crash-inside-recovery-does-not-reopen: {}", line2.split(' ').take(2).collect::<Vec<_>>().join("_")),
                Some(c2) if c2 == c1 => "ok".to_string(),
                Some(_) => format!("FAIL contents-after-restarted-recovery-differ-from-first-recovery class=retirement-longer-than-one-journal-chunk recovery-writes={markers} cut-after-fsync={qi}"),
            };
            if verdict == "ok" {
                // keep the disk small: only the images the model still has to read stay
            }
            out!().emit3(&format!("open {p2} ro=0 allow=0 ttl=1 now={now} recsize={recsize} level=2 plan=fsync{s1} inner=fsync{qi}"), &line2, &verdict);
        }
        // p1 stays: the monitor case reads it
    }
    std::fs::write(format!("{dir}/stats.json"), format!("{{\"largest_number_of_writes_in_one_recovery\": {longest}}}")).unwrap();
    let n: u64 = outs.into_iter().map(|o| o.finish()).sum();
    println!("cases={n}");
    0
}

/// contents part of a probe line ("keys=..." without sectors: a repaired device may keep extents where they are)
fn contents_of(line: &str) -> Option<String> {
    let (n, found) = parse_open(line)?;
    Some(format!("n={n} {:?}", found))
}

/// engine `recrash` (C04): crash inside recovery's own repair writes, nested.
pub fn run_recrash(opts: &Opts) -> i32 {
    let dir = opts.str("out", "/verif/.build/cases/recrash");
    let seed = opts.u64("seed", 1);
    let shards = opts.u64("shards", 16);
    let per = opts.u64("n", if opts.thorough() { 10 } else { 1 });
    let budget = opts.u64("points", if opts.thorough() { 40 } else { 10 }) as usize;
    let directed_every = opts.u64("directed_every", 4).max(1);
    let keep = format!("{dir}/images");
    std::fs::create_dir_all(&keep).unwrap();
    let mut handles = Vec::new();
    for sh in 0..shards {
        let dir = dir.clone();
        let keep = keep.clone();
        handles.push(std::thread::spawn(move || {
            let mut out = Out::new(&dir, &format!("s{sh}"));
            let mut rng = Rng::new(seed.wrapping_mul(40_503).wrapping_add(sh));
            let mut repaired = 0u64;
            // every fourth shard starts with a directed workload (recipe f1, small): keys whose durable,
            // never-expiring generation is overwritten by one that is expired on arrival; the image cut
            // before the old generations are retired makes a TTL-aware recovery retire BOTH kinds --
            // superseded generations and expired winners -- and the crash points inside that recovery
            // fall between its retirement transactions
            let directed = if sh % directed_every == 0 { 1 } else { 0 };
            for w in 0..per + directed {
                let is_directed = w >= per;
                let base = format!("{keep}/r{sh}_{w}.feox");
                let ttl = if is_directed { 1 } else { rng.below(2) };
                let g = if is_directed {
                    run_child(
                        &[
                            "tracegen".into(),
                            format!("path={base}"),
                            format!("seed={}", rng.next() % 1_000_000_007),
                            "blocks=160".into(),
                            format!("sync={}", rng.below(2)),
                            "ttl=1".into(),
                            "recipe=f1".into(),
                            format!("fillers={}", rng.range(6, 24)),
                            format!("xkeys={}", rng.range(3, 12)),
                            "close=0".into(),
                        ],
                        270,
                    )
                } else {
                    run_child(
                        &[
                            "tracegen".into(),
                            format!("path={base}"),
                            format!("seed={}", rng.next() % 1_000_000_007),
                            format!("blocks={}", rng.pick(&[40u64, 64])),
                            format!("ops={}", rng.range(20, 60)),
                            format!("sync={}", rng.below(2)),
                            format!("ttl={ttl}"),
                            "close=0".into(),
                        ],
                        270,
                    )
                };
                if g.as_deref().map_or(true, |s| !s.starts_with("tracegen-done")) {
                    out.emit3(&format!("note tracegen-failed {:?}", g), "note", "FAIL workload-child-failed-or-hung");
                    continue;
                }
                if let Some(v) = backlog_verdict(&g) {
                    out.emit3("note shard-counter", "note", &v);
                }
                let Some(t) = load_trace(&base) else { continue };
                // first-level crash images whose recovery has something to repair are the interesting ones
                let mut level1 = plans(&t, &mut rng, if is_directed { budget * 6 } else { budget });
                // prefer images cut while a journal bracket is open: shuffle deterministically
                for i in 0..level1.len() {
                    let j = rng.below(level1.len() as u64) as usize;
                    level1.swap(i, j);
                }
                if is_directed {
                    // only the instants of the rewrite phase, before its first retirement marker:
                    // the new generations are (partly) durable, the old ones all still records
                    let phase: u64 = std::fs::read_to_string(format!("{base}.trace"))
                        .ok()
                        .and_then(|x| x.lines().find(|l| l.contains(" PHASE rewrite")).and_then(|l| l.split(' ').next().and_then(|v| v.parse().ok())))
                        .unwrap_or(0);
                    let first_marker = t
                        .evs
                        .iter()
                        .find_map(|e| match e {
                            Ev::W { seq, at, len, applied: true, .. } if *seq > phase && *len >= 8 && &t.data[*at..*at + 8] == b"\0DELETED" => Some(*seq),
                            _ => None,
                        })
                        .unwrap_or(u64::MAX);
                    level1.retain(|p| p.cut > phase && p.cut <= first_marker);
                    // latest first: the most new generations durable
                    level1.sort_by(|a, b| b.cut.cmp(&a.cut));
                }
                let mut done = 0;
                for (pi, plan) in level1.into_iter().enumerate() {
                    if done >= 4 {
                        break;
                    }
                    let img1 = build_image(&t, plan.durable_upto, &plan.extra);
                    let p1 = format!("{keep}/r{sh}_{w}_{pi}.img");
                    std::fs::write(&p1, &img1).unwrap();
                    // recovery 1, traced
                    let work = format!("{p1}.rec");
                    std::fs::copy(&p1, &work).unwrap();
                    let r1 = run_child(
                        &["probe".into(), format!("path={work}"), format!("ttl={ttl}"), "allow=0".into(), "noworkload=1".into(), format!("rectrace={work}")],
                        180,
                    )
                    .unwrap_or_default();
                    let line1 = r1.splitn(3, ' ').nth(2).unwrap_or("").to_string();
                    let Some(c1) = contents_of(&line1) else {
                        let _ = std::fs::remove_file(&p1);
                        continue;
                    };
                    let Some(mut rt) = load_trace(&work) else { continue };
                    rt.base = Some(img1.clone());
                    let nwrites = rt.evs.iter().filter(|e| matches!(e, Ev::W { .. })).count();
                    if nwrites == 0 {
                        // recovery repaired nothing: reopening again must still give the same contents
                        let (now, recsize, line2) = probe_image(&work, &format!("{work}.probe"), ttl == 1, false);
                        let verdict = if contents_of(&line2).as_deref() == Some(&c1) { "ok".into() } else { format!("FAIL second-open-differs-from-first") };
                        out.emit3(&format!("open {work} ro=0 allow=0 ttl={ttl} now={now} recsize={recsize} level=2-clean"), &line2, &verdict);
                        continue;
                    }
                    repaired += 1;
                    done += 1;
                    // T-run on recovery's own device history (journal discipline from the image's state)
                    let nev = rt.evs.iter().filter(|e| matches!(e, Ev::W { applied: true, .. } | Ev::F { .. })).count();
                    out.emit3(&format!("monitor {work} {p1}"), &format!("accepted events={nev}"), "ok");
                    // crash points inside recovery 1
                    for (qi, q) in plans(&rt, &mut rng, if is_directed { 24 } else { 8 }).into_iter().enumerate() {
                        let img2 = build_image(&rt, q.durable_upto, &q.extra);
                        let p2 = format!("{keep}/r{sh}_{w}_{pi}_{qi}.img");
                        std::fs::write(&p2, &img2).unwrap();
                        let (now, recsize, line2) = probe_image(&p2, &format!("{p2}.probe"), ttl == 1, false);
                        let verdict = match contents_of(&line2) {
                            None => format!("FAIL crash-inside-recovery-does-not-reopen: {}", line2.split(' ').take(2).collect::<Vec<_>>().join("_")),
                            Some(c2) if c2 == c1 => "ok".to_string(),
                            Some(_) => "FAIL contents-after-restarted-recovery-differ-from-first-recovery".to_string(),
                        };
                        out.emit3(
                            &format!("open {p2} ro=0 allow=0 ttl={ttl} now={now} recsize={recsize} level=2 plan={} inner={}", plan.label, q.label),
                            &line2,
                            &verdict,
                        );
                    }
                }
            }
            (out.finish(), repaired)
        }));
    }
    let mut total = 0;
    let mut rep = 0;
    for h in handles {
        let (n, r) = h.join().unwrap();
        total += n;
        rep += r;
    }
    std::fs::write(format!("{dir}/stats.json"), format!("{{\"first_level_images_whose_recovery_wrote\": {rep}}}")).unwrap();
    println!("cases={total}");
    0
}

/// reads keep returning the latest accepted value from memory (C09): every GET of the trace vs
/// the last accepted put/delete of that key that returned before the GET was invoked
fn reads_verdict(t: &Trace) -> Option<String> {
    for e in &t.evs {
        if let Ev::Get { inv, key, res } = e {
            let mut expect = "notfound".to_string();
            for o in &t.evs {
                if let Ev::Op { ret, del, key: k, vh, ok: true, .. } = o {
                    if k == key && ret < inv {
                        expect = if *del { "notfound".to_string() } else { vh.clone() };
                    }
                }
            }
            if *res != expect {
                return Some(format!("FAIL read-during-device-failure-returned-wrong-value key={key} got={res} expected={expect}"));
            }
        }
    }
    None
}

/// Directed (C03/C02/C10): a version-3 record whose CRC-32C folds to 0 -- the one record in 65536
/// whose token is stored as 1 -- written through the public API as the first allocation of a
/// fresh device (block 16), acknowledged by a flush.  The byte copy of the device taken right
/// after the acknowledgement (a crash image) and the cleanly closed file must both reopen and
/// expose the acknowledged value.  The input is found with the harness's own CRC.
pub fn directed_fold_zero(dir: &str) -> (String, String, String) {
    use crate::codec::{fold_is_zero, own_crc_update};
    let path = format!("{dir}/foldzero_{}.feox", std::process::id());
    let copy = format!("{path}.crash");
    let _ = std::fs::remove_file(&path);
    let key = b"fz";
    let ts: u64 = 1_700_000_000_000_000_000;
    let header = 2 + 2 + 2 + key.len() + 8 + 8 + 8;
    let run = || -> Result<String, String> {
        let mut found = 0;
        for (blocks, sector) in [(1usize, 16u64), (2, 17)] {
            // the record fills its extent exactly, so the last value bytes are the last CRC input
            let vlen = blocks * 4096 - header;
            let mut value: Vec<u8> = (0..vlen).map(|i| (i * 31 + 7 + blocks) as u8).collect();
            let mut image = Vec::with_capacity(blocks * 4096);
            image.extend_from_slice(&0xABCDu16.to_le_bytes());
            image.extend_from_slice(&[0, 0]);
            image.extend_from_slice(&(key.len() as u16).to_le_bytes());
            image.extend_from_slice(key);
            image.extend_from_slice(&(vlen as u64).to_le_bytes());
            image.extend_from_slice(&ts.to_le_bytes());
            image.extend_from_slice(&0u64.to_le_bytes());
            image.extend_from_slice(&value);
            let n = image.len();
            let prefix = own_crc_update(own_crc_update(!0u32, &sector.to_le_bytes()), &image[..n - 4]);
            let mut hit = false;
            for c in 0..4_000_000u32 {
                if fold_is_zero(!own_crc_update(prefix, &c.to_le_bytes())) {
                    value[vlen - 4..].copy_from_slice(&c.to_le_bytes());
                    hit = true;
                    break;
                }
            }
            if !hit {
                continue;
            }
            let _ = std::fs::remove_file(&path);
            let build = |p: &str| FeoxStore::builder().device_path(p.to_string()).file_size(4 << 20).enable_caching(false).build();
            let store = build(&path).map_err(|e| format!("cannot-create-store {e}"))?;
            if blocks == 2 {
                // a one-block record first, so that the two-block one lands at block 17
                store.insert(b"first", b"x").map_err(|e| format!("insert {e}"))?;
                store.flush().map_err(|e| format!("flush {e}"))?;
            }
            let kname = if blocks == 1 { &key[..] } else { &key[..] };
            store.insert_with_timestamp(kname, &value, Some(ts)).map_err(|e| format!("insert {e}"))?;
            store.flush().map_err(|e| format!("flush {e}"))?;
            let landed = store.verif_snapshot().iter().find(|r| r.key == kname).map(|r| r.sector).unwrap_or(0);
            if landed != sector {
                drop(store);
                continue; // not the predicted sector: the fold is not zero there, nothing to decide
            }
            found += 1;
            std::fs::copy(&path, &copy).map_err(|e| format!("copy {e}"))?;
            drop(store);
            for (what, p) in [("crash-image-after-the-acknowledged-flush", &copy), ("cleanly-closed-file", &path)] {
                match build(p) {
                    Ok(st) => match st.get(kname) {
                        Ok(v) if v == value => {}
                        Ok(_) => return Err(format!("{what}-returns-other-bytes blocks={blocks}")),
                        Err(e) => return Err(format!("{what}-lost-the-acknowledged-key blocks={blocks} error={e}")),
                    },
                    Err(e) => return Err(format!("{what}-does-not-reopen blocks={blocks} error={e} (a record whose checksum folds to 0, token stored as 1)")),
                }
            }
        }
        Ok(format!("records-with-fold-zero={found}"))
    };
    let (status, verdict) = match std::panic::catch_unwind(std::panic::AssertUnwindSafe(run)) {
        Ok(Ok(s)) => (s, "ok".to_string()),
        Ok(Err(e)) => ("failed".to_string(), format!("FAIL {e}").replace(": ", "=")),
        Err(_) => ("panicked".to_string(), "FAIL an-api-call-panicked".to_string()),
    };
    let _ = std::fs::remove_file(&path);
    let _ = std::fs::remove_file(&copy);
    (format!("note directed=fold-zero-record {status}"), "note".to_string(), verdict)
}

/// Directed (C02, clean close): a FULL device; with the periodic flusher held (hook H11), a key is
/// deleted and written again (or a different key is written into the space the delete frees) and
/// the store is dropped without a flush.  The write can only be allocated after the delete of the
/// same pass has been retired, so the pass must be repeated -- by the shutdown drain, since nothing
/// else runs.  A clean close acknowledges everything accepted before it: after the reopen the key
/// holds its last value and the other keys are intact.
pub fn directed_full_device_close(dir: &str) -> (String, String, String) {
    let path = format!("{dir}/fullclose_{}.feox", std::process::id());
    let run = || -> Result<String, String> {
        let mut rounds = 0;
        for round in 0..4u64 {
            let _ = std::fs::remove_file(&path);
            let data_blocks = 4 + round; // 20..23-block devices
            let build = || FeoxStore::builder().device_path(path.clone()).file_size((16 + data_blocks) * 4096).enable_caching(false).build();
            let store = build().map_err(|e| format!("cannot-create-store {e}"))?;
            for i in 0..data_blocks {
                store.insert(format!("k{i}").as_bytes(), format!("first-life-{i}").as_bytes()).map_err(|e| format!("insert {e}"))?;
                store.flush().map_err(|e| format!("flush {e}"))?;
            }
            feoxdb::verif::dev::set_periodic_flush_paused(true);
            let victim = format!("k{}", round % data_blocks);
            let (wkey, wval) = if round % 2 == 0 { (victim.clone(), "second-life".to_string()) } else { ("newcomer".to_string(), "takes-the-freed-block".to_string()) };
            let r1 = store.delete(victim.as_bytes());
            let r2 = store.insert(wkey.as_bytes(), wval.as_bytes());
            drop(store);
            feoxdb::verif::dev::set_periodic_flush_paused(false);
            if r1.is_err() || r2.is_err() {
                continue; // not accepted: nothing to decide
            }
            rounds += 1;
            let store = build().map_err(|e| format!("reopen-after-a-clean-close-failed {e}"))?;
            match store.get(wkey.as_bytes()) {
                Ok(v) if v == wval.as_bytes() => {}
                Ok(_) => return Err(format!("key-written-before-a-clean-close-holds-an-older-value round={round} key={wkey}")),
                Err(e) => return Err(format!("key-written-before-a-clean-close-is-lost round={round} key={wkey} error={e} (full device: the write needed the block its pass's delete freed)")),
            }
            if wkey != victim && store.get(victim.as_bytes()).is_ok() {
                return Err(format!("key-deleted-before-a-clean-close-is-back round={round} key={victim}"));
            }
            for i in 0..data_blocks {
                let k = format!("k{i}");
                if k != victim && store.get(k.as_bytes()).ok() != Some(format!("first-life-{i}").into_bytes()) {
                    return Err(format!("bystander-key-changed-over-a-clean-close round={round} key={k}"));
                }
            }
            drop(store);
        }
        Ok(format!("rounds-decided={rounds}"))
    };
    let (status, verdict) = match std::panic::catch_unwind(std::panic::AssertUnwindSafe(run)) {
        Ok(Ok(s)) => (s, "ok".to_string()),
        Ok(Err(e)) => ("failed".to_string(), format!("FAIL {e}").replace(": ", "=")),
        Err(_) => ("panicked".to_string(), "FAIL an-api-call-panicked".to_string()),
    };
    feoxdb::verif::dev::set_periodic_flush_paused(false);
    let _ = std::fs::remove_file(&path);
    (format!("note directed=full-device-clean-close {status}"), "note".to_string(), verdict)
}

/// engine `fault` (C09): single faults at every device call (before / after), pairs, persistent
/// failure from a point, with and without healing; forced pwrite path.
pub fn run_fault(opts: &Opts) -> i32 {
    let dir = opts.str("out", "/verif/.build/cases/fault");
    let seed = opts.u64("seed", 1);
    let shards = opts.u64("shards", 16);
    let per = opts.u64("n", if opts.thorough() { 6 } else { 1 });
    let nfaults = opts.u64("faults", if opts.thorough() { 60 } else { 5 });
    let keep = format!("{dir}/images");
    std::fs::create_dir_all(&keep).unwrap();
    let mut handles = Vec::new();
    for sh in 0..shards {
        let dir = dir.clone();
        let keep = keep.clone();
        handles.push(std::thread::spawn(move || {
            let mut out = Out::new(&dir, &format!("s{sh}"));
            let mut rng = Rng::new(seed.wrapping_mul(11_400_714_819).wrapping_add(sh));
            let mut kinds = BTreeMap::<String, u64>::new();
            for w in 0..per {
                // the same workload in every shard; the shards split the fault plans between them
                let mut wrng = Rng::new(seed.wrapping_mul(6_700_417).wrapping_add(w));
                let wseed = wrng.next() % 1_000_000_007;
                let blocks = *wrng.pick(&[64u64, 96]);
                let ops = wrng.range(15, 35);
                let common = |path: &str| {
                    vec![
                        "tracegen".to_string(),
                        format!("path={path}"),
                        format!("seed={wseed}"),
                        format!("blocks={blocks}"),
                        format!("ops={ops}"),
                        "sync=1".to_string(),
                        "close=1".to_string(),
                    ]
                };
                // fault-free run: how many device calls does this workload make?
                let base0 = format!("{keep}/f{sh}_{w}_base.feox");
                let g = run_child(&common(&base0), 270);
                let ncalls = match g.as_deref().and_then(|_| load_trace(&base0)) {
                    Some(t) => t.evs.iter().filter(|e| matches!(e, Ev::W { .. } | Ev::F { .. })).count() as u64,
                    None => {
                        out.emit3("note fault-base-failed", "note", "FAIL workload-child-failed-or-hung");
                        continue;
                    }
                };
                let _ = std::fs::remove_file(format!("{base0}.data"));
                // every single failing call (before and after), split over the shards
                let mut plans_f: Vec<(Vec<String>, String)> = Vec::new();
                for i in 0..ncalls + 4 {
                    for k in ["before", "after"] {
                        if (2 * i + (k == "after") as u64) % shards == sh {
                            plans_f.push((vec![format!("faults={i}:{k}")], format!("single-{k}")));
                        }
                    }
                }
                for _ in 0..nfaults {
                    let kind = rng.below(10);
                    if kind < 4 {
                        let i = rng.below(ncalls);
                        let j = i + 1 + rng.below(6);
                        plans_f.push((
                            vec![format!("faults={i}:{},{j}:{}", if rng.chance(1, 2) { "before" } else { "after" }, if rng.chance(1, 2) { "before" } else { "after" })],
                            "pair".to_string(),
                        ));
                    } else if kind < 8 {
                        plans_f.push((vec![format!("persist_from={}", rng.below(ncalls)), format!("heal_at={}", rng.range(ops / 2, ops))], "persistent-then-healed".to_string()));
                    } else {
                        plans_f.push((vec![format!("persist_from={}", rng.below(ncalls))], "persistent".to_string()));
                    }
                }
                for (fi, (extra_args, label)) in plans_f.into_iter().enumerate() {
                    let path = format!("{keep}/f{sh}_{w}_{fi}.feox");
                    let mut args = common(&path);
                    args.extend(extra_args);
                    let g = run_child(&args, 360);
                    if g.as_deref().map_or(false, |s| s.starts_with("tracegen-open-error")) {
                        // the failure hit the creation of the device: reported as an error, nothing to recover
                        out.emit3(&format!("note fault-run {label} open-reported-error"), "note", "ok");
                        continue;
                    }
                    if g.as_deref().map_or(true, |s| !s.starts_with("tracegen-done")) {
                        let why = g.unwrap_or_default();
                        let verdict = if why.contains("TIMEOUT") { "FAIL workload-hung-under-device-failure" } else { "FAIL workload-child-died-under-device-failure" };
                        out.emit3(&format!("note fault-run {label} {}", why.replace(' ', "_")), "note", verdict);
                        continue;
                    }
                    let Some(t) = load_trace(&path) else { continue };
                    *kinds.entry(label.clone()).or_default() += 1;
                    let states = key_states(&t);
                    let ack = acks(&t);
                    let nev = t.evs.iter().filter(|e| matches!(e, Ev::W { applied: true, .. } | Ev::F { .. })).count();
                    out.emit3(&format!("monitor {path}"), &format!("accepted events={nev}"), "ok");
                    // reads during the failure; healing
                    if let Some(v) = reads_verdict(&t) {
                        out.emit3(&format!("note reads {label}"), "note", &v);
                    }
                    let healed_at = t.evs.iter().find_map(|e| if let Ev::Heal { seq } = e { Some(*seq) } else { None });
                    if let Some(h) = healed_at {
                        // the last flush issued after the heal must succeed unless the device was poisoned
                        let last = t.evs.iter().rev().find_map(|e| match e {
                            Ev::Flush { inv, ok, .. } if *inv > h => Some(*ok),
                            _ => None,
                        });
                        let poisoned = t.evs.iter().any(|e| matches!(e, Ev::Op { res, .. } if res == "indeterminate"))
                            || std::fs::read_to_string(format!("{path}.trace")).map_or(false, |s| s.contains("res=indeterminate"));
                        if last == Some(false) && !poisoned {
                            out.emit3(&format!("note heal {label}"), "note", "FAIL flush-still-fails-after-the-device-healed");
                        }
                    }
                    // crash images along the faulted history + the device as it stands
                    let mut all_plans = ack_plans(&t);
                    all_plans.extend(plans(&t, &mut rng, 5));
                    for (pi, plan) in all_plans.into_iter().enumerate() {
                        let img = build_image(&t, plan.durable_upto, &plan.extra);
                        let ipath = format!("{keep}/f{sh}_{w}_{fi}_{pi}.img");
                        std::fs::write(&ipath, &img).unwrap();
                        let (now, recsize, line) = probe_image(&ipath, &format!("{ipath}.probe"), false, false);
                        let verdict = crash_verdict(&t, &states, &ack, plan.cut, &line);
                        out.emit3(&format!("open {ipath} ro=0 allow=0 ttl=0 now={now} recsize={recsize} fault={label} plan={}", plan.label), &line, &verdict);
                    }
                }
            }
            (out.finish(), kinds)
        }));
    }
    let mut total = 0;
    let mut all = BTreeMap::<String, u64>::new();
    for h in handles {
        let (n, k) = h.join().unwrap();
        total += n;
        for (a, b) in k {
            *all.entry(a).or_default() += b;
        }
    }
    let stats: Vec<String> = all.iter().map(|(k, v)| format!("\"{k}\": {v}")).collect();
    std::fs::write(format!("{dir}/stats.json"), format!("{{{}}}", stats.join(", "))).unwrap();
    println!("cases={total}");
    0
}
