//! C14, concurrent clauses (T-sched for Model.Scan): a thread running `range_query` is parked at
//! the H10 scheduling points -- before `lower_bound`, at the top of every loop iteration (entry
//! held, not yet tested or loaded) and before every `entry.next()` -- while the controlling thread
//! inserts, replaces, deletes and re-creates keys around and under the cursor.  The executed event
//! sequence is replayed by `Model.Scan.wstep`; the result of the query must equal the model's.
//! Oracle independent of the model: strictly ascending, inside the bounds and the limit, every
//! value one that was written to its key, every key untouched since before the scan present
//! (unless the limit cut the scan), no key absent throughout.
use crate::img::run_child;
use crate::util::{Opts, Out, Rng};
use feoxdb::{FeoxError, FeoxStore};
use std::cell::Cell;
use std::collections::{BTreeMap, BTreeSet};
use std::sync::{Arc, Condvar, Mutex};
use std::time::{Duration, Instant};

#[derive(Default)]
struct Ctl {
    seq: u64,
    parked: Option<(String, Vec<u8>)>,
    release: bool,
    finished: bool,
}

static CTL: Mutex<Option<Arc<(Mutex<Ctl>, Condvar)>>> = Mutex::new(None);
thread_local! { static SCANNER: Cell<bool> = const { Cell::new(false) }; }

fn point(name: &'static str, key: &[u8]) {
    if !SCANNER.with(|s| s.get()) || !name.starts_with("c14_scan") {
        return;
    }
    let Some(ctl) = CTL.lock().unwrap().clone() else { return };
    let (m, cv) = &*ctl;
    let mut g = m.lock().unwrap();
    g.seq += 1;
    g.parked = Some((name.to_string(), key.to_vec()));
    g.release = false;
    cv.notify_all();
    while !g.release {
        g = cv.wait(g).unwrap();
    }
    g.parked = None;
    g.release = false;
}

enum Park {
    At(String, Vec<u8>),
    Finished,
    Timeout,
}

fn wait_park(ctl: &Arc<(Mutex<Ctl>, Condvar)>, last: &mut u64, timeout: Duration) -> Park {
    let (m, cv) = &**ctl;
    let start = Instant::now();
    let mut g = m.lock().unwrap();
    loop {
        if g.seq > *last {
            if let Some((n, k)) = g.parked.clone() {
                *last = g.seq;
                return Park::At(n, k);
            }
        }
        if g.finished {
            return Park::Finished;
        }
        let Some(left) = timeout.checked_sub(start.elapsed()) else { return Park::Timeout };
        g = cv.wait_timeout(g, left).unwrap().0;
    }
}

fn release(ctl: &Arc<(Mutex<Ctl>, Condvar)>) {
    let (m, cv) = &**ctl;
    let mut g = m.lock().unwrap();
    g.release = true;
    cv.notify_all();
}

fn key_of(i: u64) -> Vec<u8> {
    format!("r{i:03}").into_bytes()
}
fn index_of(key: &[u8]) -> u64 {
    String::from_utf8_lossy(&key[1..]).parse().unwrap_or(999)
}
fn value_of(tag: u64) -> Vec<u8> {
    let mut v = format!("v{tag:06}-").into_bytes();
    v.resize(12 + (tag % 4) as usize * 500, b'a' + (tag % 26) as u8);
    v
}
fn tag_of(v: &[u8]) -> u64 {
    String::from_utf8_lossy(&v[1..7]).parse().unwrap_or(0)
}

struct Runner {
    store: Arc<FeoxStore>,
    events: Vec<String>,
    next_tag: u64,
    written: BTreeMap<u64, BTreeSet<u64>>, // key -> tags ever written (visible or not)
    live: BTreeMap<u64, (u64, bool)>,      // key -> (tag, visible)
    used: BTreeSet<u64>,                   // keys ever written (an expired-on-arrival insert needs a fresh key)
    touched: BTreeSet<u64>,                // keys written or deleted since the scan began
    fail: Option<String>,
}

impl Runner {
    fn put(&mut self, k: u64, scanning: bool) {
        let tag = self.next_tag;
        self.next_tag += 1;
        match self.store.insert(&key_of(k), &value_of(tag)) {
            Ok(_) => {
                self.events.push(format!("P{k},{tag},1"));
                self.written.entry(k).or_default().insert(tag);
                self.live.insert(k, (tag, true));
                self.used.insert(k);
                if scanning {
                    self.touched.insert(k);
                }
            }
            Err(e) => self.fail = Some(format!("insert-refused {e} key={k}")),
        }
    }
    fn put_hidden(&mut self, k: u64, scanning: bool) {
        // expired on arrival: explicit timestamp four hours back, only on a key never used before
        let tag = self.next_tag;
        self.next_tag += 1;
        let ts = std::time::SystemTime::now().duration_since(std::time::UNIX_EPOCH).unwrap().as_nanos() as u64 - 4 * 3_600_000_000_000;
        match self.store.insert_with_ttl_and_timestamp(&key_of(k), &value_of(tag), 60, Some(ts)) {
            Ok(_) => {
                self.events.push(format!("P{k},{tag},0"));
                self.written.entry(k).or_default().insert(tag);
                self.live.insert(k, (tag, false));
                self.used.insert(k);
                if scanning {
                    self.touched.insert(k);
                }
            }
            Err(e) => self.fail = Some(format!("insert-expired-on-arrival-refused {e} key={k}")),
        }
    }
    fn del(&mut self, k: u64, scanning: bool) {
        match self.store.delete(&key_of(k)) {
            Ok(()) | Err(FeoxError::KeyNotFound) => {
                self.events.push(format!("D{k}"));
                self.live.remove(&k);
                if scanning {
                    self.touched.insert(k);
                }
            }
            Err(e) => self.fail = Some(format!("delete-error {e} key={k}")),
        }
    }
    fn churn(&mut self, rng: &mut Rng, near: Option<u64>, max: u64, space: u64, ttl: bool) {
        for _ in 0..rng.below(max + 1) {
            // mostly around the cursor: the key under it, its neighbours, just behind it
            let k = match near {
                Some(c) if rng.chance(3, 4) => (c + rng.below(5)).saturating_sub(2).min(space - 1),
                _ => rng.below(space),
            };
            match rng.below(8) {
                0..=3 => self.put(k, true),
                4 | 5 => self.del(k, true),
                6 if ttl && !self.used.contains(&k) => self.put_hidden(k, true),
                _ => self.put(k, true),
            }
            if self.fail.is_some() {
                return;
            }
        }
    }
}

fn one_case(rng: &mut Rng, case: u64, dir: &str, ctl: &Arc<(Mutex<Ctl>, Condvar)>) -> (String, String, String) {
    let persistent = case % 4 == 3;
    let ttl = case % 2 == 0;
    let path = format!("{dir}/dev/scn_{}_{case}.feox", std::process::id());
    let _ = std::fs::remove_file(&path);
    let mut b = FeoxStore::builder().hash_bits(6).no_memory_limit().enable_ttl(ttl);
    if persistent {
        b = b.device_path(path.clone()).file_size(1024 * 4096).enable_caching(case % 8 == 3);
    }
    let store = match b.build() {
        Ok(s) => Arc::new(s),
        Err(e) => return ("scn".into(), "note".into(), format!("FAIL cannot-open-store {e}")),
    };
    let space = rng.range(6, 24);
    let mut r = Runner {
        store: store.clone(), events: vec![], next_tag: 1, written: BTreeMap::new(), live: BTreeMap::new(),
        used: BTreeSet::new(), touched: BTreeSet::new(), fail: None,
    };
    // contents before the scan
    for _ in 0..rng.range(2, space) {
        let k = rng.below(space);
        match rng.below(6) {
            0 => r.del(k, false),
            1 if ttl && !r.used.contains(&k) => r.put_hidden(k, false),
            _ => r.put(k, false),
        }
    }
    if persistent && rng.chance(1, 2) {
        let _ = store.flush();
    }
    let before = r.live.clone();
    let (a, b) = if rng.chance(1, 3) { (0, 999) } else { let x = rng.below(space); (x, x + rng.below(space)) };
    let limit = if rng.chance(1, 2) { 1000 } else { rng.range(0, 5) };
    {
        let mut g = ctl.0.lock().unwrap();
        g.parked = None;
        g.release = false;
        g.finished = false;
    }
    let mut last = ctl.0.lock().unwrap().seq;
    let scanner = {
        let store = store.clone();
        let ctl = ctl.clone();
        std::thread::spawn(move || {
            SCANNER.with(|s| s.set(true));
            let res = store.range_query(&key_of(a), &key_of(b), limit as usize);
            let (m, cv) = &*ctl;
            let mut g = m.lock().unwrap();
            g.finished = true;
            cv.notify_all();
            res
        })
    };
    let mut verdict = "ok".to_string();
    let mut steps = 0u64;
    let mut first = true;
    loop {
        match wait_park(ctl, &mut last, Duration::from_secs(20)) {
            Park::At(_name, key) => {
                if !first {
                    r.events.push("S".into());
                    steps += 1;
                }
                first = false;
                let near = if key.len() == 4 { Some(index_of(&key)) } else { None };
                r.churn(rng, near, 2, space, ttl);
                if r.fail.is_some() {
                    // let the scanner run to the end on its own
                    SCANNER.with(|_| ());
                }
                release(ctl);
            }
            Park::Finished => {
                if !first {
                    r.events.push("S".into());
                    steps += 1;
                }
                break;
            }
            Park::Timeout => {
                verdict = "FAIL range_query-never-reached-its-next-scheduling-point".into();
                break;
            }
        }
    }
    if verdict != "ok" {
        // unblock a stuck scanner as far as we can and give up on the case
        release(ctl);
        let _ = std::fs::remove_file(&path);
        return (format!("scn {a} {b} {limit} {}", r.events.join(" ")), "note".into(), verdict);
    }
    let res = scanner.join();
    let line = match &res {
        Ok(Ok(pairs)) => pairs.iter().map(|(k, v)| format!("{}:{}", index_of(k), tag_of(v))).collect::<Vec<_>>().join(";"),
        Ok(Err(e)) => format!("err:{e}"),
        Err(_) => "PANIC".into(),
    };
    if let Some(f) = r.fail.take() {
        verdict = format!("FAIL {f}");
    } else {
        match &res {
            Ok(Ok(pairs)) => {
                let ks: Vec<u64> = pairs.iter().map(|(k, _)| index_of(k)).collect();
                if ks.windows(2).any(|w| w[0] >= w[1]) {
                    verdict = format!("FAIL result-not-strictly-ascending {ks:?}");
                } else if ks.iter().any(|k| *k < a || *k > b) {
                    verdict = format!("FAIL key-outside-the-bounds {ks:?} bounds={a}..={b}");
                } else if ks.len() as u64 > limit {
                    verdict = format!("FAIL more-results-than-the-limit n={} limit={limit}", ks.len());
                } else {
                    for (k, v) in pairs {
                        let (ki, t) = (index_of(k), tag_of(v));
                        if !r.written.get(&ki).map_or(false, |s| s.contains(&t)) {
                            verdict = format!("FAIL value-never-written-to-its-key key={ki} tag={t}");
                        }
                        if !before.contains_key(&ki) && !r.touched.contains(&ki) {
                            verdict = format!("FAIL key-absent-throughout-the-scan-returned key={ki}");
                        }
                    }
                    if (ks.len() as u64) < limit {
                        for (k, (t, vis)) in &before {
                            if *vis && *k >= a && *k <= b && !r.touched.contains(k) && !pairs.iter().any(|(pk, pv)| index_of(pk) == *k && tag_of(pv) == *t) {
                                verdict = format!("FAIL untouched-key-missing-or-with-another-value key={k} tag={t}");
                            }
                        }
                    }
                }
            }
            Ok(Err(e)) => verdict = format!("FAIL range_query-error {e}"),
            Err(_) => verdict = "FAIL range_query-panicked".into(),
        }
    }
    let case_text = format!("scn {a} {b} {limit} {}", r.events.join(" "));
    let _ = steps;
    drop(r);
    drop(store);
    let _ = std::fs::remove_file(&path);
    (case_text, line, verdict)
}

pub fn child(opts: &Opts) -> i32 {
    let dir = opts.str("out", "/verif/.build/cases/scansched");
    let sh = opts.u64("shard", 0);
    let seed = opts.u64("seed", 1);
    let n = opts.u64("n", 20);
    std::fs::create_dir_all(format!("{dir}/dev")).unwrap();
    let ctl: Arc<(Mutex<Ctl>, Condvar)> = Arc::new((Mutex::new(Ctl::default()), Condvar::new()));
    *CTL.lock().unwrap() = Some(ctl.clone());
    let cb: feoxdb::verif::sched::KeyCallback = Arc::new(point);
    feoxdb::verif::sched::install_keyed(Some(cb));
    let mut out = Out::new(&dir, &format!("s{sh}"));
    let mut rng = Rng::new(seed.wrapping_mul(15_485_863).wrapping_add(sh * 6_151));
    for case in 0..n {
        let (case_text, line, verdict) = one_case(&mut rng, case, &dir, &ctl);
        out.emit3(&case_text, &line, &verdict);
    }
    let total = out.finish();
    println!("cases={total}");
    0
}

pub fn run(opts: &Opts) -> i32 {
    let dir = opts.str("out", "/verif/.build/cases/scansched");
    let seed = opts.u64("seed", 1);
    let shards = opts.u64("shards", 16);
    let n = opts.u64("n", if opts.thorough() { 600 } else { 40 });
    let mut handles = Vec::new();
    for sh in 0..shards {
        let dir = dir.clone();
        handles.push(std::thread::spawn(move || {
            run_child(&["scanschedchild".into(), format!("out={dir}"), format!("shard={sh}"), format!("seed={seed}"), format!("n={n}")], 300 + n * 3)
        }));
    }
    let mut total = 0u64;
    let mut failed = 0;
    for h in handles {
        match h.join().unwrap() {
            Some(line) if line.starts_with("cases=") => total += line[6..].trim().parse::<u64>().unwrap_or(0),
            _ => failed += 1,
        }
    }
    if failed > 0 {
        let mut out = Out::new(&dir, "parent");
        out.emit3("note scansched children", "note", &format!("FAIL {failed}-child-processes-hung-or-died"));
        out.finish();
    }
    println!("cases={total}");
    0
}
