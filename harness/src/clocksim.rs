//! C12 (T-eq for Model.Clock, sequential projection): a fresh VersionClock shard driven call by
//! call (hook H14) from a chosen starting value: next(key, wall) and observe(key, ts) with walls
//! and timestamps below, at and above the shard's value, around 2^64-1 included.  The timestamp
//! issued and the shard value after every call must equal Model.Clock.next_alone / observe_alone.
use crate::util::{Opts, Out, Rng};

pub fn run(opts: &Opts) -> i32 {
    let dir = opts.str("out", "/verif/.build/cases/clocksim");
    let seed = opts.u64("seed", 1);
    let n = opts.u64("n", if opts.thorough() { 100_000 } else { 4000 });
    let mut out = Out::new(&dir, "s0");
    let mut rng = Rng::new(seed.wrapping_mul(1_000_003));
    for _ in 0..n {
        let start = match rng.below(5) {
            0 => 0,
            1 => u64::MAX - rng.below(4),
            2 => rng.range(1, 1000),
            _ => rng.next() >> rng.below(64),
        };
        let len = rng.range(3, 14) as usize;
        let mut ops: Vec<(u8, u64)> = Vec::new();
        let mut approx = start;
        for _ in 0..len {
            let x = match rng.below(8) {
                0 => approx,
                1 => approx.saturating_add(1),
                2 => approx.saturating_sub(1),
                3 => u64::MAX - rng.below(3),
                4 => approx.saturating_add(rng.range(2, 1_000_000)),
                5 => rng.below(5),
                _ => rng.next() >> rng.below(64),
            };
            let code = if rng.chance(3, 5) { 0 } else { 1 };
            ops.push((code, x));
            approx = approx.max(x);
        }
        let res = feoxdb::core::store::verif_hooks::verif_clock_sim(start, &ops);
        out.emit(
            &format!("clk {start} {}", ops.iter().map(|(c, x)| format!("{c},{x}")).collect::<Vec<_>>().join(" ")),
            &res.iter().map(|(r, s)| format!("{r}:{s}")).collect::<Vec<_>>().join(" "),
        );
    }
    let total = out.finish();
    println!("cases={total}");
    0
}
