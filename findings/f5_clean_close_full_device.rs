use feoxdb::FeoxStore;

fn build(path: &str, blocks: u64) -> FeoxStore {
    FeoxStore::builder().device_path(path.to_string()).file_size(blocks * 4096).enable_caching(false).build().unwrap()
}

#[test]
fn write_into_space_freed_by_a_delete_survives_a_clean_close() {
    let dir = tempfile::tempdir().unwrap();
    let mut lost = Vec::new();
    for round in 0..40u64 {
        let path = dir.path().join(format!("f5_{round}.feox")).to_string_lossy().into_owned();
        let data_blocks = 4 + round % 5;
        let store = build(&path, 16 + data_blocks);
        for i in 0..data_blocks {
            store.insert(format!("k{i}").as_bytes(), format!("first-life-{i}").as_bytes()).unwrap();
            store.flush().unwrap();
        }
        #[cfg(feoxdb_verif)]
        feoxdb::verif::dev::set_periodic_flush_paused(true);
        let victim = format!("k{}", round % data_blocks);
        let newcomer = format!("newcomer-{round}");
        store.delete(victim.as_bytes()).unwrap();
        store.insert(newcomer.as_bytes(), b"takes-the-freed-block").unwrap();
        drop(store);
        let store = build(&path, 16 + data_blocks);
        if store.get(newcomer.as_bytes()).is_err() {
            lost.push((round, store.get(victim.as_bytes()).is_ok()));
        }
    }
    assert!(lost.is_empty(), "keys written before a clean close were lost (round, deleted-key-still-there): {lost:?}");
}
